---------------------------- MODULE ConfigInherit ----------------------------
(* C43: collapsing a config section with inheritance
   (src/pkgcore/config/central.py ConfigManager._get_inherited_sections / collapse_section).

   A configuration is a set of definitions
       [name, src, inh, keys]
   name: section name; src: index of the config source (larger = later source, overrides
   earlier ones for the same name); inh: the section's `inherit` list; keys: the keys the
   section sets (a value is identified by the definition it comes from).

   Naming a section means its newest definition.  An inherit entry equal to the section's
   own name ("self-inherit") means the next older definition of that name.  Collapsing walks
   the inheritance TREE breadth first; a key gets its value from the first definition in that
   order that sets it.  A missing target or a cycle is an error.  Graphs that are neither
   trees nor cyclic (a name reachable along two paths, or listed twice) are outside the
   property's quantifier: Unspecified.                                                     *)
EXTENDS Naturals, Sequences, FiniteSets

Origin(d) == [name |-> d.name, src |-> d.src]
NoOrigin  == [name |-> "-", src |-> 0]

DefsOf(cfg, n)  == {d \in cfg : d.name = n}
MaxSrc(ds)      == CHOOSE d \in ds : \A x \in ds : x.src <= d.src
Newest(cfg, n)  == MaxSrc(DefsOf(cfg, n))
OlderOf(cfg, d) == {x \in DefsOf(cfg, d.name) : x.src < d.src}

\* does inherit entry t of definition d resolve, and to what
Resolves(cfg, d, t) == IF t = d.name THEN OlderOf(cfg, d) # {} ELSE DefsOf(cfg, t) # {}
TargetOf(cfg, d, t) == IF t = d.name THEN MaxSrc(OlderOf(cfg, d)) ELSE Newest(cfg, t)

(* ---- errors: missing targets and cycles anywhere in the unfolding ---- *)
RECURSIVE Problems(_, _, _)
Problems(cfg, d, anc) ==      \* anc: names on the path from the root to d (inclusive)
    UNION {IF ~Resolves(cfg, d, d.inh[i]) THEN {"missing"}
           ELSE IF d.inh[i] = d.name THEN Problems(cfg, TargetOf(cfg, d, d.inh[i]), anc)
           ELSE IF d.inh[i] \in anc THEN {"cycle"}
           ELSE Problems(cfg, TargetOf(cfg, d, d.inh[i]), anc \cup {d.inh[i]}) : i \in DOMAIN d.inh}

(* ---- tree shape: names reached through (non-self) inherit entries, with multiplicity ---- *)
RECURSIVE Reached(_, _, _)
Reached(cfg, d, anc) ==       \* a sequence of names; only evaluated when Problems = {}
    LET RECURSIVE Over(_)
        Over(i) == IF i > Len(d.inh) THEN <<>>
                   ELSE (IF d.inh[i] = d.name THEN Reached(cfg, TargetOf(cfg, d, d.inh[i]), anc)
                         ELSE <<d.inh[i]>> \o Reached(cfg, TargetOf(cfg, d, d.inh[i]), anc \cup {d.inh[i]}))
                        \o Over(i + 1)
    IN Over(1)
HasRepeat(s) == \E i, j \in DOMAIN s : i < j /\ s[i] = s[j]

(* ---- breadth-first order of the tree ---- *)
Children(cfg, d) == [i \in DOMAIN d.inh |-> TargetOf(cfg, d, d.inh[i])]
RECURSIVE Bfs(_, _, _)
Bfs(cfg, queue, out) == IF queue = <<>> THEN out
                        ELSE Bfs(cfg, Tail(queue) \o Children(cfg, Head(queue)), Append(out, Head(queue)))
Order(cfg, root) == Bfs(cfg, <<Newest(cfg, root)>>, <<>>)
FirstSetting(order, k) ==
    IF \E i \in DOMAIN order : k \in order[i].keys
    THEN Origin(order[CHOOSE i \in DOMAIN order : k \in order[i].keys /\ \A j \in 1..(i - 1) : k \notin order[j].keys])
    ELSE NoOrigin

(* ---- the outcome of collapsing section `root` ---- *)
Status(cfg, root) ==
    IF DefsOf(cfg, root) = {} THEN "Unspecified"            \* no such section: not what the property is about
    ELSE IF Problems(cfg, Newest(cfg, root), {root}) # {} THEN "Error"
    ELSE IF HasRepeat(Reached(cfg, Newest(cfg, root), {root})) THEN "Unspecified"
    ELSE "Values"
ValueOf(cfg, root, k) == FirstSetting(Order(cfg, root), k)

(* ---- "nearest", said without a queue: the definer with the shortest path from the root,
        ties broken by the position of the paths (left to right) ---- *)
RECURSIVE Paths(_, _, _)
Paths(cfg, d, p) ==        \* all <<path, definition>> pairs of the tree below d
    {<<p, d>>} \cup UNION {Paths(cfg, TargetOf(cfg, d, d.inh[i]), Append(p, i)) : i \in DOMAIN d.inh}
RECURSIVE LexLess(_, _)
LexLess(p, q) == IF p = <<>> \/ q = <<>> THEN p = <<>> /\ q # <<>>
                 ELSE IF Head(p) # Head(q) THEN Head(p) < Head(q) ELSE LexLess(Tail(p), Tail(q))
Nearer(p, q) == Len(p) < Len(q) \/ (Len(p) = Len(q) /\ LexLess(p, q))
NearestSetting(cfg, root, k) ==
    LET ps == {x \in Paths(cfg, Newest(cfg, root), <<>>) : k \in x[2].keys} IN
    IF ps = {} THEN NoOrigin
    ELSE Origin((CHOOSE x \in ps : \A y \in ps : y = x \/ Nearer(x[1], y[1]))[2])

(* ---- the verdict on one observed collapse of `root` over configuration cfg ----
   outcome: "values" | "error" (ConfigurationError) | "other";
   vals: sequence of [k, name, src] (the definition that supplied key k; name "-" = absent).
   "_Unspecified" is not a verdict on the code (input left open by the property).       *)
JudgeRead(cfg, root, outcome, vals) ==
    LET st == Status(cfg, root) IN
    IF st = "Unspecified" THEN {"_Unspecified"}
    ELSE IF st = "Error" THEN (IF outcome = "error" THEN {} ELSE {"Error_not_reported"})
    ELSE IF ValueOf(cfg, root, "class") = NoOrigin THEN {"_Unspecified"}    \* nothing to instantiate: not collapsible
    ELSE IF outcome = "error" THEN {"Unexpected_error"}
    ELSE IF outcome # "values" THEN {"Unexpected_exception"}
    ELSE LET wrong == {j \in DOMAIN vals : [name |-> vals[j].name, src |-> vals[j].src] # ValueOf(cfg, root, vals[j].k)}
             own   == Newest(cfg, root).keys
         IN (IF \E j \in wrong : vals[j].k \in own THEN {"Own_value_lost"} ELSE {})
            \cup (IF \E j \in wrong : vals[j].k \notin own THEN {"Not_nearest"} ELSE {})

(* ---- a LIVE manager: sources are added over time, sections are collapsed in between.
   Whatever was collapsed before, a collapse answers for the sources present NOW:
   Fresh is the only specification of a read.                                          *)
Fresh(cfg, root, keys) ==
    LET st == Status(cfg, root) IN
    [st |-> st, vals |-> IF st = "Values" THEN [k \in keys |-> ValueOf(cfg, root, k)] ELSE [k \in keys |-> NoOrigin]]
=========================================================================
