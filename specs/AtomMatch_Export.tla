---------------------------- MODULE AtomMatch_Export ----------------------------
(* spec -> code for C04: the bounded universes of atoms and packages.  The property
   quantifies over ALL (atom, package) pairs of a universe, so the driver evaluates the real
   atom.match on the full cross product of the exported atoms and packages of each block:
     block "ver"  : every operator x atom version against every package version
     block "attr" : every slot / sub-slot / repository / USE-dependency combination against
                    every slot / sub-slot / repository / IUSE / USE state
     block "key"  : same constraints, different category or package name
     block "use3" : three USE dependencies (signs x defaults) against all 64 IUSE / USE states of three flags
     block "slotop": atoms written with a slot operator (which must not influence matching)
   Sets are written as sequences.                                                       *)
EXTENDS AtomMatch, TLC, Json, IOUtils, SequencesExt
CONSTANT Size
Weight(v) == (Len(v.nums) - 1) + (IF v.letter # 0 THEN 1 ELSE 0) + Len(v.sufs) + (IF v.rev # <<>> THEN 1 ELSE 0)
G1(z) == VersOf({<<1>>, <<1, 0>>}, {<<0>>, <<1>>, <<1, 0>>, <<0, 1>>}, 2, {0, 1},
             {"alpha", "pre", "p"}, {<<>>, <<1>>}, 1, {<<>>, <<0>>, <<1>>, <<1, 0>>})
\* the versions of weight <= 1 of a bigger grammar, built directly (filtering the whole grammar is slow)
G2(z) == LET NF == {<<1>>, <<2>>, <<1, 0>>}
             NR == {<<0>>, <<1>>, <<1, 0>>, <<0, 1>>, <<0, 1, 0>>}
         IN VersOf(NF, NR, 2, {0}, {}, {}, 0, {<<>>})
            \cup VersOf(NF, {}, 1, {1, 2}, {}, {}, 0, {<<>>})
            \cup VersOf(NF, {}, 1, {0}, {"alpha", "pre", "p"}, {<<>>, <<0>>, <<1>>, <<1, 0>>}, 1, {<<>>})
            \cup VersOf(NF, {}, 1, {0}, {}, {}, 0, {<<>>, <<0>>, <<1>>, <<1, 0>>, <<0, 1>>})
\* (G1, G2 take a dummy argument: TLC evaluates every zero-arity constant eagerly, used or not)
AVers == TLCEval(IF Size = 1 THEN {v \in G1(0) : Weight(v) <= 1} ELSE {v \in G2(0) : Weight(v) <= 1} \cup {v \in G1(0) : Weight(v) <= 2})
PVers == TLCEval(IF Size = 1 THEN {v \in G1(0) : Weight(v) <= 1} \cup {v \in G1(0) : Weight(v) = 2 /\ v.rev = <<1>> /\ v.letter = 0}
                 ELSE {v \in G2(0) : Weight(v) <= 1} \cup {v \in G1(0) : Weight(v) <= 2})
V1 == [nums |-> <<<<1>>>>, letter |-> 0, sufs |-> <<>>, rev |-> <<>>]
V1r1 == [V1 EXCEPT !.rev = <<1>>]

J(blk, kind, cat, pkg, op, ver, slot, subslot, repo, deps, iuse, use) ==
    [blk |-> blk, kind |-> kind, cat |-> cat, pkg |-> pkg, op |-> op, ver |-> ver, slot |-> slot, subslot |-> subslot,
     repo |-> repo, deps |-> SetToSeq(deps), iuse |-> SetToSeq(iuse), use |-> SetToSeq(use), slotop |-> ""]
Ops == {"<", "<=", "=", "~", ">=", ">", "=*"}
VerAtoms == {J("ver", "atom", "c", "p", o, v, "", "", "", {}, {}, {}) : <<o, v>> \in {x \in Ops \X AVers : x[1] = "~" => x[2].rev = <<>>}}
            \cup {J("ver", "atom", "c", "p", "", V1, "", "", "", {}, {}, {})}
VerPkgs == {J("ver", "pkg", "c", "p", "", v, "0", "0", "r1", {}, {}, {}) : v \in PVers}

Flags == {"x", "y"}
DepForms == {[flag |-> f, neg |-> n, dflt |-> d] : f \in Flags, n \in BOOLEAN, d \in {"", "+", "-"}}
XForms == {q \in DepForms : q.flag = "x"}
YForms == {q \in DepForms : q.flag = "y"}
\* quick: two flags with the same default (both signs) plus two mixed-default pairs; thorough: every pair
DepSets == {{}} \cup {{d} : d \in DepForms}
           \cup (IF Size > 1 THEN {{d, e} : d, e \in DepForms}
                 ELSE {{x[1], x[2]} : x \in {y \in XForms \X YForms : y[1].dflt = y[2].dflt}}
                      \cup {{[flag |-> "x", neg |-> FALSE, dflt |-> "-"], [flag |-> "y", neg |-> FALSE, dflt |-> "+"]},
                             {[flag |-> "x", neg |-> TRUE, dflt |-> "+"], [flag |-> "y", neg |-> FALSE, dflt |-> "-"]}})
SlotForms == IF Size > 1 THEN {<<"", "">>, <<"0", "">>, <<"1", "">>, <<"0", "0">>, <<"0", "2">>, <<"1", "2">>}
             ELSE {<<"", "">>, <<"0", "">>, <<"0", "0">>, <<"1", "2">>}
Repos == IF Size > 1 THEN {"", "r1", "r2"} ELSE {"", "r1"}
AttrOps == IF Size > 1 THEN {<<"", V1>>, <<">=", V1r1>>} ELSE {<<"", V1>>}
AttrAtoms == {J("attr", "atom", "c", "p", ov[1], ov[2], s[1], s[2], r, ds, {}, {}) : ov \in AttrOps, s \in SlotForms, r \in Repos, ds \in DepSets}
\* <<IUSE, USE>>: USE is NOT confined to IUSE (a package's USE also carries flags it does not declare: arch,
\* USE_EXPAND values, profile forced flags); for a flag outside IUSE only the (+)/(-) default counts
UseStates == (SUBSET Flags) \X (SUBSET Flags)
PkgSlots == IF Size > 1 THEN {"0", "1"} \X {"0", "2"} ELSE {<<"0", "0">>, <<"1", "2">>}
AttrPkgs == {J("attr", "pkg", "c", "p", "", v, sp[1], sp[2], r, {}, iu[1], iu[2]) :
               v \in (IF Size > 1 THEN {V1, V1r1} ELSE {V1}), sp \in PkgSlots, r \in {"r1", "r2"}, iu \in UseStates}
\* three USE dependencies in one atom, signs and defaults mixed, against every IUSE / USE state of three flags
Flags3 == {"x", "y", "z"}
D3(f, n, d) == [flag |-> f, neg |-> n, dflt |-> d]
Dflt3 == IF Size > 1 THEN {"", "+", "-"} \X {"", "+", "-"} \X {"", "+", "-"}
         ELSE {<<"+", "+", "+">>, <<"-", "-", "-">>, <<"", "", "">>, <<"+", "-", "">>, <<"+", "+", "-">>, <<"-", "+", "+">>}
Use3Atoms == {J("use3", "atom", "c", "p", "", V1, "", "", "", {D3("x", n[1], d[1]), D3("y", n[2], d[2]), D3("z", n[3], d[3])}, {}, {}) :
                n \in BOOLEAN \X BOOLEAN \X BOOLEAN, d \in Dflt3}
Use3Pkgs == {J("use3", "pkg", "c", "p", "", V1, "0", "0", "r1", {}, iu[1], iu[2]) :
               iu \in (SUBSET Flags3) \X (SUBSET Flags3)}
\* slot operators (:= :* :0= :0/2=) do not take part in matching: same atoms, written with an operator
\* (the record carries the operator only for rendering; Matches has no such field)
OpAtoms == {[J("slotop", "atom", "c", "p", "", V1, s[1], s[2], "", {}, {}, {}) EXCEPT !.slotop = s[3]] :
              s \in {<<"", "", "=">>, <<"", "", "*">>, <<"0", "", "=">>, <<"1", "2", "=">>, <<"0", "0", "=">>}}
OpPkgs == {J("slotop", "pkg", "c", "p", "", V1, sp[1], sp[2], "r1", {}, {}, {}) : sp \in {"0", "1"} \X {"0", "2"}}
KeyAtoms == {J("key", "atom", c, p, o, V1, "", "", "", {}, {}, {}) : c \in {"c", "cc"}, p \in {"p", "pp", "p-q"}, o \in {"", "=", "=*", ">="}}
KeyPkgs == {J("key", "pkg", c, p, "", V1, "0", "0", "r1", {}, {}, {}) : c \in {"c", "cc"}, p \in {"p", "pp", "p-q"}}
Cases == VerAtoms \cup VerPkgs \cup AttrAtoms \cup AttrPkgs \cup KeyAtoms \cup KeyPkgs \cup OpAtoms \cup OpPkgs \cup Use3Atoms \cup Use3Pkgs
ASSUME PrintT(<<"sizes", Cardinality(VerAtoms), Cardinality(VerPkgs), Cardinality(AttrAtoms), Cardinality(AttrPkgs)>>)
ASSUME ndJsonSerialize(IOEnv.OUT, SetToSeq(Cases))
=========================================================================
