---------------------------- MODULE IpcReply_MC ----------------------------
(* Design-level model of the IPC helper channel (C32): a bash helper process sending a
   stream of N requests over a pipe, the python handler answering over the other pipe.
   Every stream of N requests (nonfatal or not; native or external-`install` execution;
   success or failure; failure messages of 1..MaxMsg lines) is explored, every interleaving.

   Variant = "design"      the discipline of IpcReply.tla (single-line reply, status from
                           ExtSucceeded, reply also on the fatal path)
           = "rawmsg"      message written as is (multi-line stderr)      -> must break InvSync
           = "inverted"    external exit status read the wrong way round  -> must break InvTruthful
           = "silentfatal" no reply on the fatal path                     -> must break InvOneReply
   The three broken variants are vacuity guards: TLC has to find their violations.        *)
EXTENDS IpcReply, TLC

CONSTANTS N, MaxMsg, Variant

Req == [nonfatal : BOOLEAN, via : {"native", "external"}, ok : BOOLEAN, msg : 1..MaxMsg]

VARIABLES reqs,     \* the stream
          sh,       \* bash side   [pc, k]
          py,       \* python side [pc, cur, part]
          up, down, \* the two pipes (sequences of lines)
          seen,     \* status the bash side perceived for request j
          src,      \* request the line consumed as reply to j had been written for
          sent,     \* number of wire lines written for request j
          acted,    \* requests whose action was run
          build, misframe
vars == <<reqs, sh, py, up, down, seen, src, sent, acted, build, misframe>>

Init == /\ reqs \in [1..N -> Req]
        /\ sh = [pc |-> "send", k |-> 1]
        /\ py = [pc |-> "cmd", cur |-> 0, part |-> 0]
        /\ up = <<>> /\ down = <<>>
        /\ seen = [j \in 1..N |-> "none"]
        /\ src = [j \in 1..N |-> 0]
        /\ sent = [j \in 1..N |-> 0]
        /\ acted = {}
        /\ build = "running" /\ misframe = FALSE

(* ---- bash side: __ebd_ipc_cmd ---- *)
ShSend == /\ sh.pc = "send"
          /\ up' = up \o OwnLines(sh.k)
          /\ sh' = [sh EXCEPT !.pc = "wait"]
          /\ UNCHANGED <<reqs, py, down, seen, src, sent, acted, build, misframe>>

ShRecv == /\ sh.pc = "wait" /\ down # <<>>
          /\ LET l == Head(down)
                 st == IF l.cont THEN "garbled" ELSE IF l.code = 0 THEN "ok" ELSE "fail"
             IN /\ seen' = [seen EXCEPT ![sh.k] = st]
                /\ src' = [src EXCEPT ![sh.k] = l.req]
                /\ down' = Tail(down)
                /\ sh' = IF st # "ok" /\ ~reqs[sh.k].nonfatal THEN [sh EXCEPT !.pc = "died"]
                         ELSE IF sh.k = N THEN [sh EXCEPT !.pc = "done"]
                         ELSE [pc |-> "send", k |-> sh.k + 1]
          /\ UNCHANGED <<reqs, py, up, sent, acted, build, misframe>>

(* ---- python side: generic_handler dispatch + IpcCommand.__call__ ---- *)
PyRead == /\ py.pc \in {"cmd", "hdr"} /\ up # <<>>
          /\ LET l == Head(up) IN
             /\ up' = Tail(up)
             /\ IF py.pc = "cmd"
                THEN /\ py' = [pc |-> "hdr", cur |-> l[1], part |-> 1]
                     /\ misframe' = (misframe \/ l[2] # 1)
                ELSE /\ py' = [py EXCEPT !.part = py.part + 1,
                                         !.pc = IF py.part + 1 = ReqLines THEN "act" ELSE "hdr"]
                     /\ misframe' = (misframe \/ l # <<py.cur, py.part + 1>>)
          /\ UNCHANGED <<reqs, sh, down, seen, src, sent, acted, build>>

Perceived(r) == IF r.via = "external"
                THEN LET ret == IF r.ok THEN 0 ELSE 1 IN
                     IF Variant = "inverted" THEN ~ExtSucceeded(ret) ELSE ExtSucceeded(ret)
                ELSE r.ok

PyAct == /\ py.pc = "act"
         /\ LET r == reqs[py.cur]
                ps == Perceived(r)
                code == IF WantCodeZero(ps) THEN 0 ELSE 1
                msg == IF ps THEN <<"">> ELSE [n \in 1..r.msg |-> "line"]
                fatal == WantBuild(r.nonfatal, ps) = "fails"
                wire == IF Variant = "silentfatal" /\ fatal THEN <<>>
                        ELSE IF Variant = "rawmsg" THEN Raw(py.cur, code, msg)
                        ELSE Flatten(py.cur, code, msg)
            IN /\ down' = down \o wire
               /\ sent' = [sent EXCEPT ![py.cur] = @ + Len(wire)]
               /\ acted' = acted \cup {py.cur}
               /\ build' = IF fatal THEN "failed" ELSE build
               /\ py' = [py EXCEPT !.pc = IF fatal THEN "dead" ELSE "cmd"]
         /\ UNCHANGED <<reqs, sh, up, seen, src, misframe>>

Next == ShSend \/ ShRecv \/ PyRead \/ PyAct
Spec == Init /\ [][Next]_vars

(* ---- the property ---- *)
TypeOK == /\ sh.pc \in {"send", "wait", "done", "died"} /\ sh.k \in 1..N
          /\ py.pc \in {"cmd", "hdr", "act", "dead"}
          /\ build \in {"running", "failed"}
InvSync      == \A j \in 1..N : seen[j] # "none" => src[j] = j /\ seen[j] # "garbled"
InvTruthful  == \A j \in 1..N : seen[j] # "none" => (seen[j] = "ok" <=> reqs[j].ok)
InvOneReply  == \A j \in 1..N : sent[j] <= WantReplyLines /\ (j \in acted => sent[j] = WantReplyLines)
InvFraming   == ~misframe
InvBuild     == (build = "failed") <=> (\E j \in acted : WantBuild(reqs[j].nonfatal, reqs[j].ok) = "fails")
InvDied      == sh.pc = "died" => build = "failed"
InvQuiescent == sh.pc \in {"done", "died"} => up = <<>> /\ down = <<>>
\* a failed nonfatal request is reported and the stream goes on
InvNonfatal  == \A j \in 1..N : seen[j] = "fail" /\ reqs[j].nonfatal => build = "running" \/ \E i \in acted : i # j /\ ~reqs[i].ok /\ ~reqs[i].nonfatal
=========================================================================
