---------------------------- MODULE TarSync_MC ----------------------------
(* Design check for C47: pkgcore.sync.tar.tar_syncer as a process over FsModel.

   One sync attempt (a "round") = one process lifetime:
     start     [Variant "fixed" only] an earlier update interrupted between the two renames left the
               tree in .r.old and nothing at r: rename .r.old -> r
     etag      read r/.etag                     request   HTTP GET; fault "http_error" -> SyncError;
                                                          validator unchanged -> done, nothing to do
     mkbase    makedirs(r, exist_ok)            download  body into a private temp file (good /
                                                          truncated / corrupt according to the fault)
     mk_upd    makedirs(.r.update)  (exists -> SyncError)      mk_old  makedirs(.r.old)  (ditto)
               [Variant "fixed": each preceded by rmtree(dir, ignore_errors) - leftovers of an interrupted sync]
     unpack    tar creates the files below .r.update one by one; a truncated archive yields a
               prefix and an error, a corrupt one an error
     mv_old    rename(r, .r.old)                mv_new    rename(.r.update, r); fault "mvfail": it fails ->
                                                          [Variant "fixed": rename(.r.old, r) back] SyncError
     etag_open / etag_write   r/.etag := validator of the served tarball (open "w", then write)
     cleanup   (atexit, runs on every graceful exit, success or SyncError) rmtree(.r.old), rmtree(.r.update)
   EVERY state is a crash point: Crash abandons the round where it is (no atexit cleanup) and the
   next round starts from the on-disk state.  Rounds before the last may suffer a fault and/or a
   crash; the LAST round is undisturbed and must complete with the new tree (Recover).

   Results (asserted by drivers/c47_tarsync.py):
     Variant "head"  : FaultInv, EtagInv, NoRollback hold; RecoverInv FAILS (leftover .r.update/.r.old make
                       every later sync fail in makedirs) and TreeInv FAILS.
     Variant "fixed" : FaultInv, EtagInv, NoRollback, RecoverInv, TreeInvOutsideWindow hold; TreeInv still
                       FAILS - only in the window between the two renames (design-level finding).  *)
EXTENDS FsModel, TarSync, TLC
CONSTANTS Variant, OldExists, MaxRounds

Files == {"a", "b"}
Base  == <<"r">>
Upd   == <<".r.update">>
Old   == <<".r.old">>
Etag  == <<"r", ".etag">>

DirObj       == [type |-> "dir", cid |-> "-", size |-> 0, mode |-> 493, uid |-> 0, gid |-> 0, target |-> "-"]
FileObj(cid) == [type |-> "file", cid |-> cid, size |-> 1, mode |-> 420, uid |-> 0, gid |-> 0, target |-> "-"]

Leaf(p) == p[Len(p)]
TreeView(s, p) ==
  IF ~HasName(s, p) THEN "absent"
  ELSE LET kids == {n \in Children(s, p) : Leaf(n.path) # ".etag"}
           all(v) == /\ {Leaf(n.path) : n \in kids} = Files
                     /\ \A n \in kids : s.inodes[n.ino].type = "file" /\ s.inodes[n.ino].cid = v
       IN IF kids = {} THEN "empty" ELSE IF all("old") THEN "old" ELSE IF all("new") THEN "new" ELSE "other"
EtagView(s) ==
  IF ~HasName(s, Etag) THEN "none"
  ELSE IF ObjAt(s, Etag).cid \in {"old", "new"} THEN ObjAt(s, Etag).cid ELSE "other"

RECURSIVE MkFiles(_, _, _, _)
MkFiles(s, p, fset, cid) ==
  IF fset = {} THEN s
  ELSE LET f == CHOOSE x \in fset : TRUE IN MkFiles(Create(s, p \o <<f>>, FileObj(cid)).s, p, fset \ {f}, cid)
Fs0 == LET s0 == [names |-> {}, inodes |-> <<>>, handles |-> {}]
       IN IF OldExists THEN Create(MkFiles(Create(s0, Base, DirObj).s, Base, Files, "old"), Etag, FileObj("old")).s ELSE s0

\* besides the download/unpack faults of TarSync!Faults: the rename that moves the new tree in fails (EIO, ENOSPC, ...)
MCFaults == Faults \cup {"mvfail"}

VARIABLES fs, pc, round, fault, tb, prev, res, t0, installed
vars == <<fs, pc, round, fault, tb, prev, res, t0, installed>>

Tree == TreeView(fs, Base)
Init == /\ fs = Fs0 /\ pc = "start" /\ round = 1 /\ tb = "none" /\ prev = "none" /\ res = "-"
        /\ fault \in (IF MaxRounds = 1 THEN {"none"} ELSE MCFaults)
        /\ t0 = TreeView(Fs0, Base) /\ installed = FALSE

Keep(vs) == UNCHANGED vs
Goto(l) == pc' = l
Fail == res' = "fail" /\ pc' = "cleanup_old"

\* one step of rmtree(p, ignore_errors=True); TRUE in `fin` when p is gone
RmStep(p, nextpc) ==
  IF ~HasName(fs, p) THEN fs' = fs /\ Goto(nextpc)
  ELSE IF Children(fs, p) # {} THEN (\E n \in Children(fs, p) : fs' = Unlink(fs, n.path).s) /\ UNCHANGED pc
  ELSE fs' = Rmdir(fs, p).s /\ Goto(nextpc)

Start ==
  /\ pc = "start"
  /\ IF Variant = "fixed" /\ ~HasName(fs, Base) /\ HasName(fs, Old)
     THEN fs' = Rename(fs, Old, Base).s ELSE fs' = fs
  /\ Goto("etag") /\ Keep(<<tb, prev, res>>)
ReadEtag == pc = "etag" /\ prev' = EtagView(fs) /\ Goto("request") /\ Keep(<<fs, tb, res>>)
Request ==
  /\ pc = "request" /\ Keep(<<fs, tb, prev>>)
  /\ IF fault = "http_error" THEN Fail
     ELSE IF prev = "new" THEN res' = "ok" /\ Goto("cleanup_old")       \* validator unchanged: nothing to do
     ELSE Goto("mkbase") /\ Keep(res)
MkBase ==
  /\ pc = "mkbase" /\ Keep(<<tb, prev, res>>) /\ Goto("download")
  /\ fs' = IF HasName(fs, Base) THEN fs ELSE Create(fs, Base, DirObj).s
Download ==
  /\ pc = "download" /\ Keep(<<fs, prev, res>>)
  /\ tb' = IF fault \in {"trunc", "corrupt"} THEN fault ELSE "good"
  /\ Goto(IF Variant = "fixed" THEN "wipe_upd" ELSE "mk_upd")
WipeUpd == pc = "wipe_upd" /\ RmStep(Upd, "mk_upd") /\ Keep(<<tb, prev, res>>)
WipeOld == pc = "wipe_old" /\ RmStep(Old, "mk_old") /\ Keep(<<tb, prev, res>>)
MkDir(label, p, nextpc) ==
  /\ pc = label /\ Keep(<<tb, prev>>)
  /\ LET r == Create(fs, p, DirObj) IN
     IF r.ok THEN fs' = r.s /\ Goto(nextpc) /\ Keep(res) ELSE fs' = fs /\ Fail
Unpack ==
  /\ pc = "unpack" /\ Keep(<<tb, prev>>)
  /\ LET have == {Leaf(n.path) : n \in Children(fs, Upd)} IN
     CASE tb = "corrupt" -> fs' = fs /\ Fail
       [] tb = "trunc"   -> \/ fs' = fs /\ Fail
                            \/ have = {} /\ (\E f \in Files : fs' = Create(fs, Upd \o <<f>>, FileObj("part")).s) /\ Keep(<<pc, res>>)
       [] OTHER          -> IF have = Files THEN fs' = fs /\ Goto("mv_old") /\ Keep(res)
                            ELSE (\E f \in Files \ have : fs' = Create(fs, Upd \o <<f>>, FileObj("new")).s) /\ Keep(<<pc, res>>)
MvOld ==
  /\ pc = "mv_old" /\ Keep(<<tb, prev>>)
  /\ IF ~HasName(fs, Base) THEN fs' = fs /\ Goto("mv_new") /\ Keep(res)
     ELSE LET r == Rename(fs, Base, Old) IN IF r.ok THEN fs' = r.s /\ Goto("mv_new") /\ Keep(res) ELSE fs' = fs /\ Fail
\* Variant "fixed": when moving the new tree in fails, the old one is moved back before SyncError is raised
\* (otherwise the exit cleanup wipes .r.old - the only copy)
MvNew ==
  /\ pc = "mv_new" /\ Keep(<<tb, prev>>)
  /\ LET r == IF fault = "mvfail" THEN R(fs, FALSE) ELSE Rename(fs, Upd, Base) IN
     IF r.ok THEN fs' = r.s /\ Goto("etag_open") /\ Keep(res)
     ELSE /\ Fail
          /\ fs' = IF Variant = "fixed" /\ ~HasName(fs, Base) /\ HasName(fs, Old) THEN Rename(fs, Old, Base).s ELSE fs
EtagOpen ==
  /\ pc = "etag_open" /\ Keep(<<tb, prev, res>>) /\ Goto("etag_write")
  /\ fs' = IF HasName(fs, Etag) THEN SetContentAt(fs, Etag, "empty", 0).s ELSE Create(fs, Etag, FileObj("empty")).s
EtagWrite ==
  /\ pc = "etag_write" /\ Keep(<<tb, prev>>) /\ fs' = SetContentAt(fs, Etag, "new", 1).s /\ res' = "ok" /\ Goto("cleanup_old")
CleanOld == pc = "cleanup_old" /\ RmStep(Old, "cleanup_upd") /\ Keep(<<tb, prev, res>>)
CleanUpd == pc = "cleanup_upd" /\ RmStep(Upd, "done") /\ Keep(<<tb, prev, res>>)

Step == \/ Start \/ ReadEtag \/ Request \/ MkBase \/ Download \/ WipeUpd \/ WipeOld
        \/ MkDir("mk_upd", Upd, IF Variant = "fixed" THEN "wipe_old" ELSE "mk_old") \/ MkDir("mk_old", Old, "unpack")
        \/ Unpack \/ MvOld \/ MvNew \/ EtagOpen \/ EtagWrite \/ CleanOld \/ CleanUpd

InRound == Step /\ Keep(<<round, fault, t0>>) /\ installed' = (installed \/ TreeView(fs', Base) = "new")
\* the next process: after a graceful exit (pc = "done") or after a power cut at ANY point
NextRound ==
  /\ round < MaxRounds /\ round' = round + 1
  /\ fault' \in (IF round + 1 = MaxRounds THEN {"none"} ELSE MCFaults)
  /\ pc' = "start" /\ tb' = "none" /\ prev' = "none" /\ res' = "-"
  /\ t0' = (IF ~HasName(fs, Base) /\ HasName(fs, Old) THEN TreeView(fs, Old) ELSE Tree)   \* the tree the user had last
  /\ Keep(<<fs, installed>>)
Next == InRound \/ NextRound
Spec == Init /\ [][Next]_vars

(* ---- the property ---- *)
TreeInv   == TreeOK(OldExists, Tree)
\* the tree sits in .r.old and nothing is at r: between the two renames (or after a crash there,
\* before the next sync has put it back)
InWindow  == ~HasName(fs, Base) /\ HasName(fs, Old) /\ TreeView(fs, Old) \in {"old", "new"}
TreeInvOutsideWindow == TreeInv \/ InWindow
FaultInv  == (pc = "done" /\ res = "fail") => FaultKeeps(t0, Tree)
RecoverInv == (round = MaxRounds /\ pc = "done") => RecoverOK(res = "ok", Tree)
EtagInv   == EtagSound(EtagView(fs), Tree) \/ InWindow
NoRollback == installed => Tree # "old"
\* an undisturbed first sync succeeds
FirstSyncInv == (MaxRounds = 1 /\ pc = "done") => RecoverOK(res = "ok", Tree)
=========================================================================
