---------------------------- MODULE ContentsSet_MC ----------------------------
(* Every sequence of up to MaxOps public operations on one contents set, over 4 paths
   (/a, /a/b, /c/d, /a/b/e) written in 2 spellings each, entries of 2 identities, arguments
   (other sets / generators) of up to 2 entries (see MCArgs), 5 old and 4 new offsets.  Where the spec
   permits several results (whose value survives) every permitted one is explored.      *)
EXTENDS ContentsSet, TLC
CONSTANT MaxOps

MCSpells == {<<"a">>, <<"a", "">>,
             <<"a", "b">>, <<"a", ".", "b">>,
             <<"c", "d">>, <<"c", "", "d">>,
             <<"a", "b", "e">>, <<"c", "..", "a", "b", "e">>}
MCIds    == {1, 2}
MCEnts   == {[sp |-> s, id |-> i, kind |-> "file"] : s \in MCSpells, i \in MCIds}
\* arguments: nothing, any one entry, two entries of different paths (one spelling each, half of
\* them un-normalised), or two entries of the same path with different identities
MCPair   == {[sp |-> <<"a", "">>, id |-> 1, kind |-> "file"], [sp |-> <<"a", "b">>, id |-> 2, kind |-> "file"],
             [sp |-> <<"c", "", "d">>, id |-> 1, kind |-> "file"], [sp |-> <<"a", "b", "e">>, id |-> 2, kind |-> "file"]}
MCArgs   == {<<>>} \cup {<<e>> : e \in MCEnts} \cup {<<e, f>> : e \in MCPair, f \in MCPair}
            \cup {<<e, [e EXCEPT !.id = 3 - e.id]>> : e \in MCPair}
\* ... and path strings (for the operations that only need keys): any one spelling, an entry plus a
\* string naming the same key, two spellings of one key
MCStr(sp) == [sp |-> sp, id |-> 0, kind |-> "str"]
MCArgsS  == {<<MCStr(sp)>> : sp \in MCSpells} \cup {<<e, MCStr(e.sp)>> : e \in MCPair}
            \cup {<<MCStr(<<"a">>), MCStr(<<"a", "">>)>>, <<MCStr(<<"a", ".", "b">>), MCStr(<<"a", "b">>), MCStr(<<"c", "d">>)>>}
MCOld    == {<<>>, <<"a">>, <<"a", "">>, <<"c">>, <<"a", "", "b">>}
MCNew    == {<<>>, <<"c">>, <<"a", "", "b">>, <<"c", "..", "a">>}
DirId    == 9

A(op, how, sp, id, arg, old, new, adopt) ==
  [op |-> op, how |-> how, sp |-> sp, id |-> id, kind |-> "file", arg |-> arg, old |-> old, new |-> new,
   dirid |-> DirId, adopt |-> adopt]

\* the abstract meaning does not depend on `how`: the model fixes one value, the simulation
\* module varies it for the binding
Actions ==
       {A("add", "entry", e.sp, e.id, <<>>, <<>>, <<>>, FALSE) : e \in MCEnts}
  \cup {A(op, "str", s, 1, <<>>, <<>>, <<>>, FALSE) : op \in ByKey, s \in MCSpells}
  \cup {A(op, "set", <<>>, 1, arg, <<>>, <<>>, FALSE) : op \in BinUpd \cup Tests \cup {"update"}, arg \in MCArgs}
  \cup {A(op, "list", <<>>, 1, arg, <<>>, <<>>, FALSE) : op \in KeyOnly \ {"difference"}, arg \in MCArgsS}
  \cup {A("difference", "list", <<>>, 1, arg, <<>>, <<>>, ad) : arg \in MCArgsS, ad \in BOOLEAN}
  \cup {A(op, "set", <<>>, 1, arg, <<>>, <<>>, ad) : op \in BinPure, arg \in MCArgs, ad \in BOOLEAN}
  \cup {A("change_offset", "-", <<>>, 1, <<>>, o, n, ad) : o \in MCOld, n \in MCNew, ad \in BOOLEAN}
  \cup {A("insert_offset", "-", <<>>, 1, <<>>, <<>>, n, ad) : n \in MCNew, ad \in BOOLEAN}
  \cup {A("clear", "-", <<>>, 1, <<>>, <<>>, <<>>, FALSE), A("add_missing_directories", "-", <<>>, 1, <<>>, <<>>, <<>>, FALSE)}

VARIABLES st,     \* the contents set
          last,   \* [op, adopt, raised] of the last operation
          n       \* operations so far
vars == <<st, last, n>>

Init == st = Empty /\ last = [op |-> "init", adopt |-> FALSE, raised |-> FALSE] /\ n = 0

\* the set the caller holds after the call
After(m, a) ==
  IF Raises(m, a) THEN {m}
  ELSE IF ReturnsMap(a.op) /\ a.adopt
       THEN (IF Specified(m, a) THEN RetMaps(m, a) ELSE {m})
       ELSE Posts(m, a)

Do(a) == /\ n < MaxOps
         /\ st' \in After(st, a)
         /\ last' = [op |-> a.op, adopt |-> a.adopt, raised |-> Raises(st, a)]
         /\ n' = n + 1
Next == \E a \in Actions : Do(a)
Spec == Init /\ [][Next]_vars

(* ---- invariants ---- *)
KeysNormal == \A k \in DOMAIN st : IsNormal(k)
ValsKnown  == \A k \in DOMAIN st : st[k] \in {[id |-> i, kind |-> "file"] : i \in MCIds} \cup {[id |-> DirId, kind |-> "dir"]}
\* every action of the alphabet lies in the property's domain
ASSUME \A a \in Actions : ActionOK(a)

(* ---- action properties ---- *)
Values(m) == {m[k] : k \in DOMAIN m}
Shrinks == [][last'.op \in {"remove", "delitem", "discard", "clear", "intersection_update", "difference_update"}
              => (DOMAIN st' \subseteq DOMAIN st
                  /\ (last'.op # "intersection_update" => \A k \in DOMAIN st' : st'[k] = st[k]))]_vars
Grows   == [][last'.op \in {"add", "update", "add_missing_directories"} => DOMAIN st \subseteq DOMAIN st']_vars
PureOps == [][(last'.op \in Tests \cup {"getitem", "contains"} \/ (ReturnsMap(last'.op) /\ ~last'.adopt) \/ last'.raised)
              => st' = st]_vars
MissingClosed == [][last'.op = "add_missing_directories"
              => /\ Closed(st')
                 /\ \A k \in DOMAIN st : st'[k] = st[k]
                 /\ \A k \in DOMAIN st' \ DOMAIN st :
                       st'[k].kind = "dir" /\ k # <<>> /\ \E k0 \in DOMAIN st : IsPrefix(k, k0) /\ k # k0]_vars
RelocBijective == [][(last'.op \in Reloc /\ last'.adopt)
              => Cardinality(DOMAIN st') = Cardinality(DOMAIN st) /\ Values(st') = Values(st)]_vars
=========================================================================
