---------------------------- MODULE EclassAccum_MC ----------------------------
(* Operational model of the mechanism pkgcore's bash side uses to obtain the PMS
   accumulation (data/lib/pkgcore/ebd/ebuild-default-functions.bash inherit(),
   ebuild.bash __load_ebuild):

     inherit():  `local IUSE ...` (saves the caller's values by shadowing them), and per eclass
                 `unset -v IUSE ...`; source the eclass; append the visible value to E_IUSE ...
     __load_ebuild(): after sourcing, RDEPEND default (EAPI 0-3), VAR += E_VAR.

   Shell variables are dynamically scoped: a stack of inherit() frames holding locals.
   `unset` issued by eclass code acts on a local of a PREVIOUS function scope; what bash does then
   is the constant Reveal:
       Reveal = FALSE  the local stays, marked unset (bash `shopt -s localvar_unset`, and what
                       the save/restore discipline needs)
       Reveal = TRUE   the local is removed and the shadowed variable becomes visible again
                       (bash default)
   TLC runs every program of a bounded space to completion and checks that the mechanism yields
   exactly the declarative meaning of EclassAccum (invariant Implements).  With Reveal = TRUE TLC
   must find a counterexample (vacuity guard + design-level explanation of the defect).        *)
EXTENDS EclassAccum, TLC

CONSTANTS MCVars,      \* shell variables the programs assign
          MCEapis,     \* EAPIs to run
          MaxEb, MaxA, MaxB,   \* statements per file
          WithPhases,  \* BOOLEAN: include phase function definitions
          Reveal

VARIABLES prog, eapi, stack, glob, eacc, inherited, funcs, result
vars == <<prog, eapi, stack, glob, eacc, inherited, funcs, result>>

(* ------------------------------ program space ------------------------------ *)
VarStmts(file) == UNION {{SetS(v, <<file \o "1">>), AppS(v, <<file \o "2">>), UnsetS(v)} : v \in MCVars}
EbStmts == VarStmts("e") \cup {InheritS(<<"a">>), InheritS(<<"b">>), InheritS(<<"a", "b">>)}
           \cup (IF WithPhases THEN {PhaseS("src_compile"), PhaseS("src_prepare")} ELSE {})
AStmts  == VarStmts("a") \cup {InheritS(<<"b">>)}
           \cup (IF WithPhases THEN {ExportS("src_prepare"), PhaseS("pkg_pretend")} ELSE {})
BStmts  == VarStmts("b") \cup (IF WithPhases THEN {PhaseS("src_frobnicate"), ExportS("src_compile")} ELSE {})
SeqsUpTo(S, n) == UNION {[1..k -> S] : k \in 0..n}
Programs == {[eb |-> e, ecl |-> [n \in {"a", "b"} |-> IF n = "a" THEN a ELSE b]] :
                e \in SeqsUpTo(EbStmts, MaxEb), a \in SeqsUpTo(AStmts, MaxA), b \in SeqsUpTo(BStmts, MaxB)}

(* ------------------------------ scoping ------------------------------ *)
Localised == MCVars \cap (IncrKeys(eapi) \cup {"IUSE", "REQUIRED_USE", "DEPEND", "RDEPEND", "PDEPEND", "BDEPEND", "IDEPEND"})
Absent    == [present |-> FALSE, isset |-> FALSE, toks |-> <<>>]
LocUnset  == [present |-> TRUE, isset |-> FALSE, toks |-> <<>>]
FileFrame(name, body) == [t |-> "file", name |-> name, rest |-> body, pending |-> <<>>, loc |-> [v \in MCVars |-> Absent]]
InhFrame(names)       == [t |-> "inh", name |-> "-", rest |-> <<>>, pending |-> names,
                          loc |-> [v \in MCVars |-> IF v \in Localised THEN LocUnset ELSE Absent]]

\* index of the frame holding the visible instance of v (0 = the global)
Holder(stk, v) == LET hits == {k \in DOMAIN stk : stk[k].loc[v].present} IN
                  IF hits = {} THEN 0 ELSE CHOOSE k \in hits : \A j \in hits : j <= k
ReadVar(stk, g, v) == LET h == Holder(stk, v) IN
                      IF h = 0 THEN g[v] ELSE [isset |-> stk[h].loc[v].isset, toks |-> stk[h].loc[v].toks]
\* stack / globals after assigning val to v
WriteStack(stk, v, val) == LET h == Holder(stk, v) IN
    IF h = 0 THEN stk
    ELSE [stk EXCEPT ![h].loc[v] = [present |-> TRUE, isset |-> val.isset, toks |-> val.toks]]
WriteGlob(stk, g, v, val) == IF Holder(stk, v) = 0 THEN [g EXCEPT ![v] = val] ELSE g
\* `unset v` issued from function frame self (0: from sourced eclass/ebuild code, always a deeper scope)
UnsetStack(stk, v, self) == LET h == Holder(stk, v) IN
    IF h = 0 THEN stk
    ELSE IF h = self \/ ~Reveal THEN [stk EXCEPT ![h].loc[v] = LocUnset]
    ELSE [stk EXCEPT ![h].loc[v] = Absent]
UnsetGlob(stk, g, v) == IF Holder(stk, v) = 0 THEN [g EXCEPT ![v] = NoVal] ELSE g

(* ------------------------------ transitions ------------------------------ *)
Init == /\ prog \in Programs
        /\ eapi \in MCEapis
        /\ stack = <<FileFrame("eb", prog.eb)>>
        /\ glob = [v \in MCVars |-> NoVal]
        /\ eacc = [v \in MCVars |-> <<>>]
        /\ inherited = {}
        /\ funcs = {}
        /\ result = [done |-> FALSE]

Top == stack[Len(stack)]
Pop(stk) == SubSeq(stk, 1, Len(stk) - 1)
Advance(stk) == [stk EXCEPT ![Len(stk)].rest = Tail(@)]

\* one statement of the file being sourced
ExecStmt ==
    /\ stack # <<>> /\ Top.t = "file" /\ Top.rest # <<>>
    /\ LET s == Head(Top.rest)  stk == Advance(stack) IN
       CASE s.op \in {"set", "app"} ->
               LET val == Step(ReadVar(stk, glob, s.var), s, s.var) IN
               /\ stack' = WriteStack(stk, s.var, val)
               /\ glob' = WriteGlob(stk, glob, s.var, val)
               /\ UNCHANGED <<eacc, inherited, funcs>>
         [] s.op = "unset" ->
               /\ stack' = UnsetStack(stk, s.var, 0)
               /\ glob' = UnsetGlob(stk, glob, s.var)
               /\ UNCHANGED <<eacc, inherited, funcs>>
         [] s.op \in {"phase", "export"} ->
               /\ funcs' = funcs \cup {s.f}
               /\ stack' = stk
               /\ UNCHANGED <<glob, eacc, inherited>>
         [] s.op = "inherit" ->
               /\ stack' = Append(stk, InhFrame(s.names))      \* local IUSE ...
               /\ UNCHANGED <<glob, eacc, inherited, funcs>>
    /\ UNCHANGED <<prog, eapi, result>>

\* inherit(): next eclass of the argument list: unset -v <locals>; source it
RECURSIVE UnsetAll(_, _, _, _)
UnsetAll(stk, g, vs, self) ==
    IF vs = {} THEN [stk |-> stk, g |-> g]
    ELSE LET v == CHOOSE x \in vs : TRUE IN
         UnsetAll(UnsetStack(stk, v, self), UnsetGlob(stk, g, v), vs \ {v}, self)
StartEclass ==
    /\ stack # <<>> /\ Top.t = "inh" /\ Top.pending # <<>>
    /\ LET u == UnsetAll(stack, glob, Localised, Len(stack)) IN
       /\ stack' = Append(u.stk, FileFrame(Head(Top.pending), prog.ecl[Head(Top.pending)]))
       /\ glob' = u.g
    /\ UNCHANGED <<prog, eapi, eacc, inherited, funcs, result>>

\* the eclass has been sourced: append what is visible now to E_*, record INHERITED
FinishEclass ==
    /\ stack # <<>> /\ Top.t = "file" /\ Top.rest = <<>> /\ Top.name # "eb"
    /\ LET stk == Pop(stack) IN
       /\ eacc' = [v \in MCVars |-> IF v \in Localised THEN eacc[v] \o ReadVar(stk, glob, v).toks ELSE eacc[v]]
       /\ inherited' = inherited \cup {Top.name}
       /\ stack' = [stk EXCEPT ![Len(stk)].pending = Tail(@)]
    /\ UNCHANGED <<prog, eapi, glob, funcs, result>>

\* inherit() returns: its locals vanish
ReturnInherit ==
    /\ stack # <<>> /\ Top.t = "inh" /\ Top.pending = <<>>
    /\ stack' = Pop(stack)
    /\ UNCHANGED <<prog, eapi, glob, eacc, inherited, funcs, result>>

\* __load_ebuild after sourcing + __dump_metadata_keys
Finish ==
    /\ stack # <<>> /\ Top.t = "file" /\ Top.rest = <<>> /\ Top.name = "eb"
    /\ LET g2 == IF "RDEPEND" \in MCVars /\ "DEPEND" \in MCVars /\ eapi <= 3 /\ ~glob["RDEPEND"].isset
                 THEN [glob EXCEPT !["RDEPEND"] = Val(glob["DEPEND"].toks)] ELSE glob
       IN result' = [done |-> TRUE,
                     keys |-> [v \in MCVars |-> IF v \in Localised THEN g2[v].toks \o eacc[v] ELSE g2[v].toks],
                     inherited |-> inherited,
                     phases |-> funcs \cap PhaseFuncs(eapi)]
    /\ stack' = <<>>
    /\ UNCHANGED <<prog, eapi, glob, eacc, inherited, funcs>>

Next == ExecStmt \/ StartEclass \/ FinishEclass \/ ReturnInherit \/ Finish
Spec == Init /\ [][Next]_vars

(* ------------------------------ properties ------------------------------ *)
\* the mechanism implements the PMS meaning
Implements ==
    result.done =>
        /\ \A v \in MCVars \cap JudgedKeys(eapi) : SameBag(result.keys[v], ExpKey(prog, eapi, v))
        /\ result.inherited = ExpInherited(prog)
        /\ result.phases = ExpPhases(prog, eapi)
\* INHERITED is exactly what is reachable over the inherit graph
InheritedIsReachability == result.done => ExpInherited(prog) = ReachableEclasses(prog)
\* an eclass can add to, never take away from, what the ebuild itself says
EbuildValueSurvives ==
    result.done => \A v \in MCVars \cap IncrKeys(eapi) :
        \A x \in SeqRange(OwnValue(prog.eb, v).toks) : Count(result.keys[v], x) >= Count(OwnValue(prog.eb, v).toks, x)
\* every program of the space is in the property's domain
AllWellFormed == result.done => WellFormed(prog)
\* every run terminates with a result (no stuck intermediate state)
Terminates == (stack = <<>>) <=> result.done
=============================================================================
