---------------------------- MODULE Xpak_Universe ----------------------------
(* The small universe shared by Xpak_MC (procedure model), Xpak_Laws and Xpak_Export:
   mappings of different sizes (empty, text, unicode text, environment bytes, a longer one) and
   prefixes, among them prefixes that merely LOOK like they end in a trailer / start with a header. *)
EXTENDS Xpak

T(s) == [key |-> s[1], kind |-> s[2], units |-> s[3]]
Zs(n) == [i \in 1..n |-> 122]
MCMaps == <<
    <<>>,
    <<T(<<<<97>>, "text", <<120>>>>)>>,
    <<T(<<<<98>>, "text", <<233, 8364>>>>), T(<<EnvWord, "bytes", <<255, 0>>>>)>>,
    <<T(<<<<99, 100>>, "text", Zs(20)>>), T(<<<<97>>, "text", <<>>>>), T(<<EnvWord \o <<46>>, "text", <<233>>>>)>>
>>
Sevens(n) == [i \in 1..n |-> 7]
MCPrefixes == <<
    <<>>,
    <<1, 2, 3>>,
    MagicStop \o BE32(24) \o Stop,                      \* a bare trailer: no room for a segment
    Sevens(20) \o MagicStop \o BE32(24) \o Stop,         \* trailer pointing at something that is no header
    MagicPack \o Sevens(10),                            \* a header without trailer
    Sevens(40)
>>

=========================================================================
