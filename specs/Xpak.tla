---------------------------- MODULE Xpak ----------------------------
(* C26: the XPAK metadata segment at the end of a binary package
   (src/pkgcore/binpkg/xpak.py).

   A binary package file is     file = prefix \o segment
   where prefix is the (compressed) tarball -- opaque bytes -- and the segment is

     "XPAKPACK" BE32(|index|) BE32(|data|) index data "XPAKSTOP" BE32(|index|+|data|+24) "STOP"

     index = one entry per key, in mapping order:  BE32(|key|) key BE32(offset) BE32(length)
     data  = the value bytes; (offset, length) of an entry address its value inside data

   (the layout documented at the top of xpak.py / xpak(5)).  A reader finds the segment from
   the END of the file: with n the number stored in the trailer, the segment starts at
   EOF - (n + 8)   (n = |index| + |data| + 24; the whole segment is n + 8 bytes long).

   Everything here is constant-level (no variables): bytes are 0..255, files and keys are
   sequences, a mapping is a SEQUENCE of items (XPAK keeps key order)
       item = [key : Seq(ascii code point), kind : "text" | "bytes", units : Seq(Nat)]
   where units are unicode code points for text and byte values for bytes.               *)
EXTENDS Naturals, Sequences, SequencesExt, FiniteSets

MagicPack == <<88, 80, 65, 75, 80, 65, 67, 75>>      \* "XPAKPACK"
MagicStop == <<88, 80, 65, 75, 83, 84, 79, 80>>      \* "XPAKSTOP"
Stop      == <<83, 84, 79, 80>>                      \* "STOP"
EnvWord   == <<101, 110, 118, 105, 114, 111, 110, 109, 101, 110, 116>>   \* "environment"

(* ---- numbers: 4 bytes, big endian ---- *)
BE32(n) == <<(n \div 16777216) % 256, (n \div 65536) % 256, (n \div 256) % 256, n % 256>>
\* TLC integers are 32 bit: anything >= 2^24 is reported as TooBig (larger than any file handled here)
TooBig == 16777216
UnBE32(b) == IF b[1] # 0 THEN TooBig ELSE (b[2] * 256 + b[3]) * 256 + b[4]

(* ---- text: UTF-8 ---- *)
Utf8(cp) ==
    IF cp < 128 THEN <<cp>>
    ELSE IF cp < 2048 THEN <<192 + (cp \div 64), 128 + (cp % 64)>>
    ELSE IF cp < 65536 THEN <<224 + (cp \div 4096), 128 + ((cp \div 64) % 64), 128 + (cp % 64)>>
    ELSE <<240 + (cp \div 262144), 128 + ((cp \div 4096) % 64), 128 + ((cp \div 64) % 64), 128 + (cp % 64)>>
RECURSIVE Utf8Seq(_)
Utf8Seq(s) == IF s = <<>> THEN <<>> ELSE Utf8(Head(s)) \o Utf8Seq(Tail(s))

\* what write_xpak stores for a value: str -> its UTF-8 bytes, bytes -> as they are
ValBytes(v) == IF v.kind = "bytes" THEN v.units ELSE Utf8Seq(v.units)

\* keys whose name starts with "environment" are handed back as bytes, every other key as text
IsEnvKey(k) == Len(k) >= Len(EnvWord) /\ SubSeq(k, 1, Len(EnvWord)) = EnvWord

(* ---- writing: the canonical segment of a mapping ---- *)
RECURSIVE IndexFrom(_, _)
IndexFrom(m, off) ==
    IF m = <<>> THEN <<>>
    ELSE LET it == Head(m)  n == Len(ValBytes(it)) IN
         BE32(Len(it.key)) \o it.key \o BE32(off) \o BE32(n) \o IndexFrom(Tail(m), off + n)
Index(m) == IndexFrom(m, 0)
RECURSIVE Data(_)
Data(m) == IF m = <<>> THEN <<>> ELSE ValBytes(Head(m)) \o Data(Tail(m))
Segment(m) ==
    LET ix == Index(m)  da == Data(m) IN
    MagicPack \o BE32(Len(ix)) \o BE32(Len(da)) \o ix \o da \o MagicStop \o BE32(Len(ix) + Len(da) + 24) \o Stop
SegmentLen(m) == 32 + Len(Index(m)) + Len(Data(m))

(* ---- locating the segment of a file (from its end) ---- *)
HasTrailer(f) == /\ Len(f) >= 16
                 /\ SubSeq(f, Len(f) - 15, Len(f) - 8) = MagicStop
                 /\ SubSeq(f, Len(f) - 3, Len(f)) = Stop
TrailerNum(f) == UnBE32(SubSeq(f, Len(f) - 7, Len(f) - 4))
\* a file "has a segment" when the trailer is there and points at a header inside the file
HasSegment(f) == /\ HasTrailer(f)
                 /\ TrailerNum(f) >= 24
                 /\ TrailerNum(f) + 8 <= Len(f)
                 /\ LET st == Len(f) - (TrailerNum(f) + 8) IN SubSeq(f, st + 1, st + 8) = MagicPack
\* number of bytes in front of the segment (the whole file when there is no segment)
Locate(f) == IF HasSegment(f) THEN Len(f) - (TrailerNum(f) + 8) ELSE Len(f)
PrefixOf(f) == SubSeq(f, 1, Locate(f))
SegOf(f)    == SubSeq(f, Locate(f) + 1, Len(f))

(* ---- reading a segment s (= SegOf(f) of a file with a segment) ---- *)
IdxLen(s)  == UnBE32(SubSeq(s, 9, 12))
DataLen(s) == UnBE32(SubSeq(s, 13, 16))
\* the segment is exactly header + index + data + trailer: nothing else (no left-overs of an
\* older, longer segment) lies between the header and the end of the file
SegExact(s) == /\ Len(s) = 32 + IdxLen(s) + DataLen(s)
               /\ UnBE32(SubSeq(s, Len(s) - 7, Len(s) - 4)) = IdxLen(s) + DataLen(s) + 24
IdxBytes(s)  == SubSeq(s, 17, 16 + IdxLen(s))
DataBytes(s) == SubSeq(s, 17 + IdxLen(s), 16 + IdxLen(s) + DataLen(s))
\* index entries in order; a malformed tail yields a final entry with key <<-1>>... encoded as ok=FALSE
RECURSIVE ParseIndex(_)
ParseIndex(ix) ==
    IF ix = <<>> THEN <<>>
    ELSE IF Len(ix) < 4 THEN <<[ok |-> FALSE, key |-> <<>>, off |-> 0, len |-> 0]>>
    ELSE LET kl == UnBE32(SubSeq(ix, 1, 4)) IN
         IF Len(ix) < kl + 12 THEN <<[ok |-> FALSE, key |-> <<>>, off |-> 0, len |-> 0]>>
         ELSE <<[ok |-> TRUE, key |-> SubSeq(ix, 5, 4 + kl),
                 off |-> UnBE32(SubSeq(ix, 5 + kl, 8 + kl)), len |-> UnBE32(SubSeq(ix, 9 + kl, 12 + kl))]>>
              \o ParseIndex(SubSeq(ix, 13 + kl, Len(ix)))
\* raw items of a segment: [ok, key, bytes]
RawItems(s) ==
    LET es == ParseIndex(IdxBytes(s))  da == DataBytes(s) IN
    [i \in 1..Len(es) |->
        IF es[i].ok /\ es[i].off + es[i].len <= Len(da)
        THEN [ok |-> TRUE, key |-> es[i].key, bytes |-> SubSeq(da, es[i].off + 1, es[i].off + es[i].len)]
        ELSE [ok |-> FALSE, key |-> es[i].key, bytes |-> <<>>]]

\* the raw items a mapping must produce
RawOf(m) == [i \in 1..Len(m) |-> [ok |-> TRUE, key |-> m[i].key, bytes |-> ValBytes(m[i])]]

\* what a reader hands back for raw item (key, bytes): obs = [kind, units]
ReadsAs(obs, key, bytes) ==
    IF IsEnvKey(key) THEN obs.kind = "bytes" /\ obs.units = bytes
    ELSE obs.kind = "text" /\ Utf8Seq(obs.units) = bytes

(* ---- rewriting ---- *)
\* the whole property in one line: keep what is in front of the old segment, put the new segment
\* there, nothing after it
Rewrite(f, m) == PrefixOf(f) \o Segment(m)

\* byte-level file operations used by the procedure model (Xpak_MC)
Overwrite(f, pos, bytes) ==     \* write bytes at offset pos (pos <= Len(f)), extending the file when needed
    SubSeq(f, 1, pos) \o bytes \o SubSeq(f, pos + Len(bytes) + 1, Len(f))
TruncateAt(f, pos) == SubSeq(f, 1, pos)
=========================================================================
