---------------------------- MODULE ContentsSet_Trace ----------------------------
(* Judges operation sequences recorded from real contentsSet objects (TLC-chosen behaviours
   replayed by the driver, and seeded random sequences).
   Event: {tid, i, op, how, sp:[tokens], id, kind, arg:[{sp,id,kind}], old, new, dirid, adopt,   -- inputs
           raised: "" | exception class name,
           retb: BOOLEAN, retv: {id, kind}, res: [{k:[tokens], id, kind}],                     -- return value
           st: [{k, id, kind}], n: len(set)}                                                   -- the set itself after the call
   i = 1 starts a fresh empty set.  Every step is judged from the previously OBSERVED set
   (re-synchronising); when `adopt` is set the caller continues with the returned set.
   Clauses: Post_<op> (the set after the call), Ret_<op> (returned set / boolean / entry),
   Raise_<op> (KeyError exactly when the key is absent), KeysNormalized, DuplicateKeys, Len;
   Unspecified (relocation outside the property's domain: counted, not a verdict) and
   OutsideDomain (generator error) are filtered by the driver.                              *)
EXTENDS ContentsSet, TraceLib
VARIABLES l, st

ToMap(s) == [k \in {s[j].k : j \in DOMAIN s} |->
               LET j == CHOOSE j \in DOMAIN s : s[j].k = k IN [id |-> s[j].id, kind |-> s[j].kind]]
HasDupes(s) == \E j1, j2 \in DOMAIN s : j1 # j2 /\ s[j1].k = s[j2].k
Abnormal(s) == \E j \in DOMAIN s : ~IsNormal(s[j].k)

Judge(cur, e) ==
  IF ~ActionOK(e) THEN {"OutsideDomain"}
  ELSE
  LET obs  == ToMap(e.st)
      exc  == Raises(cur, e)
      spec == Specified(cur, e)
      okrun == e.raised = "" /\ ~exc          \* ran to completion, as it should
  IN
     (IF spec THEN {} ELSE {"Unspecified"})
     \cup (IF (exc /\ e.raised = "KeyError") \/ (~exc /\ e.raised = "") \/ ~spec THEN {} ELSE {"Raise_" \o e.op})
     \cup (IF (IF exc THEN obs = cur ELSE PostOK(obs, cur, e)) THEN {} ELSE {"Post_" \o e.op})
     \cup (IF ~okrun \/ ~spec THEN {}
           ELSE IF ReturnsMap(e.op) THEN (IF RetMapOK(ToMap(e.res), cur, e) /\ ~HasDupes(e.res) THEN {} ELSE {"Ret_" \o e.op})
           ELSE IF e.op \in Tests \cup {"contains"} THEN (IF e.retb = RetBool(cur, e) THEN {} ELSE {"Ret_" \o e.op})
           ELSE IF e.op = "getitem" THEN (IF e.retv = RetVal(cur, e) THEN {} ELSE {"Ret_getitem"})
           ELSE {})
     \cup (IF Abnormal(e.st) \/ Abnormal(e.res) THEN {"KeysNormalized"} ELSE {})
     \cup (IF HasDupes(e.st) THEN {"DuplicateKeys"} ELSE {})
     \cup (IF e.n = Cardinality(DOMAIN obs) THEN {} ELSE {"Len"})

Held(e) == IF e.adopt /\ ReturnsMap(e.op) /\ e.raised = "" THEN ToMap(e.res) ELSE ToMap(e.st)

TraceInit == l = 0 /\ st = Empty
TraceNext == /\ l < Len(Tr)
             /\ l' = l + 1
             /\ LET e == Tr[l']
                    cur == IF e.i = 1 THEN Empty ELSE st
                IN /\ Report(e.tid, e.i, Judge(cur, e))
                   /\ st' = Held(e)
             /\ EndMark(l')
TraceSpec == TraceInit /\ [][TraceNext]_<<l, st>>
=========================================================================
