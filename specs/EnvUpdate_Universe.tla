---------------------------- MODULE EnvUpdate_Universe ----------------------------
(* The env.d files used by the model checker / simulator (f1..f3) and the richer universe
   of the exported pure-function cases (x01..x13).  Variable-free: extended by
   EnvUpdate_MC and EnvUpdate_Export so that model, simulator, export and the Python
   replay share one definition (the driver reads it from the export).                *)
EXTENDS EnvUpdate
Fl(id, name, kind, defs) == [id |-> id, name |-> name, kind |-> kind, defs |-> defs]
Df(k, v) == [k |-> k, v |-> v]
HistTable ==
  << Fl("f1", <<48, 48, 98>>, "file",                                  \* 00b
        <<Df("LDPATH", <<"/lib", ":", "/usr/lib">>), Df("EDITOR", <<"vi">>)>>),
     Fl("f2", <<53, 48, 97>>, "file",                                  \* 50a
        <<Df("INFOPATH", <<"/opt/info">>), Df("EDITOR", <<"nano">>), Df("LDPATH", <<"/opt/lib">>)>>),
     Fl("f3", <<57, 57, 120>>, "bad", <<>>) >>                         \* 99x, unparsable
XTable ==
  << Fl("x01", <<48, 48, 97>>, "file",                                 \* 00a
        <<Df("PATH", <<"/bin", ":", "/usr/bin">>), Df("EDITOR", <<"vi">>),
          Df("CONFIG_PROTECT", <<"/etc/app", " ", "/opt/cfg">>)>>),
     Fl("x02", <<48, 53, 98>>, "file",                                 \* 05b
        <<Df("LDPATH", <<"/lib", ":", " ", "/usr/lib", " ", ":", ":", "/opt/lib">>), Df("EDITOR", <<"ed">>),
          Df("XPLAIN", <<"a", " ", "b", ":", "c">>), Df("EDITOR", <<"nano">>)>>),
     Fl("x03", <<49, 48>>, "file", <<Df("EDITOR", <<"two">>), Df("LDPATH", <<"/two">>)>>),           \* 10  (too short)
     Fl("x04", <<53, 120, 121>>, "file", <<Df("PATH", <<"/skip">>), Df("EDITOR", <<"skip">>)>>),     \* 5xy (one digit)
     Fl("x05", <<50, 48, 99, 46, 98, 97, 107>>, "file", <<Df("EDITOR", <<"bak">>), Df("LDPATH", <<"/bak">>)>>),   \* 20c.bak
     Fl("x06", <<50, 48, 99, 126>>, "file", <<Df("EDITOR", <<"tilde">>), Df("INFOPATH", <<"/tilde">>)>>),         \* 20c~
     Fl("x07", <<46, 95, 99, 102, 103, 48, 48, 48, 48, 95, 50, 48, 99>>, "file", <<Df("EDITOR", <<"cfg">>)>>),   \* ._cfg0000_20c
     Fl("x08", <<50, 48, 99>>, "file",                                 \* 20c
        <<Df("COLON_SEPARATED", <<"XCOLON">>), Df("XCOLON", <<"/x", ":", "/y">>), Df("XSPACE", <<"p", " ", "q">>),
          Df("SPACE_SEPARATED", <<"XSPACE", " ", "aterm">>), Df("CONFIG_PROTECT_MASK", <<"/etc/app/keep">>)>>),
     Fl("x09", <<51, 48, 100>>, "file",                                \* 30d
        <<Df("XCOLON", <<"/z", ":", ":", "/x">>), Df("XSPACE", <<" ", "r", " ", " ", "p", " ">>),
          Df("XPLAIN", <<"last", " ", "one">>), Df("INFOPATH", <<"/opt/info">>),
          Df("CONFIG_PROTECT", <<"/usr/share/app">>), Df("CONFIG_PROTECT_MASK", <<"/opt/cfg/sub", " ", "/etc/ap">>)>>),
     Fl("x10", <<49, 48, 48>>, "file",                                 \* 100 (sorts before 20c)
        <<Df("EDITOR", <<"emacs">>), Df("XPLAIN", <<"from100">>), Df("XCOLON", <<"/early">>), Df("MANPATH", <<"/m1">>)>>),
     Fl("x11", <<57, 57, 122>>, "file",                                \* 99z
        <<Df("aterm", <<"t1", " ", "t2">>), Df("_UNDER", <<"u">>), Df("LDPATH", <<" ">>), Df("MANPATH", <<"/m2", ":">>),
          Df("CLASSPATH", <<"c1", ":", "c2", " ", "c3">>)>>),
     Fl("x12", <<52, 48, 100, 105, 114>>, "dir", <<>>),                 \* 40dir (a directory)
     Fl("x13", <<53, 48, 98, 97, 100>>, "bad", <<>>) >>                 \* 50bad (unparsable)
Strip3(r) == [name |-> r.name, kind |-> r.kind, defs |-> r.defs]
TableFile(tab, i) == Strip3(tab[CHOOSE n \in DOMAIN tab : tab[n].id = i])
=========================================================================
