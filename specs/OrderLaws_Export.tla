--------------------------- MODULE OrderLaws_Export ---------------------------
(* C02 spec -> code: every universe is written out as one case: the sequence of
   its things (integer codes + the version record with its PMS spelling).  The
   driver builds the real objects and observes all ordered pairs.              *)
EXTENDS OrderLaws_Univ, TLC, Json, IOUtils, SequencesExt
CONSTANT Tier               \* "quick" | "thorough"
Universes == UniversesOf(Tier)
TT(s) == [x \in 1..Len(s) |-> s[x]]
JV(v) == [nums |-> [x \in 1..Len(v.nums) |-> TT(v.nums[x])], letter |-> v.letter,
          sufs |-> [x \in 1..Len(v.sufs) |-> [k |-> v.sufs[x].k, n |-> TT(v.sufs[x].n)]],
          rev |-> TT(v.rev), text |-> VerText(v)]
JT(t) == [t EXCEPT !.ver = JV(t.ver)]
Cases == {[things |-> SetToSeq({JT(t) : t \in U})] : U \in Universes}
ASSUME ndJsonSerialize(IOEnv.OUT, SetToSeq(Cases))
=============================================================================
