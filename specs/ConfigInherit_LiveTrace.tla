---------------------------- MODULE ConfigInherit_LiveTrace ----------------------------
(* Judges histories recorded on ONE live ConfigManager (drivers/c43_configinherit.py).
   Events of a history (tid), uniform records:
     {ev:"init", defs:[{name, src, inh, keys}]}      the manager is created over source 1 (i = 0)
     {ev:"add",  defs:[...], raised}                 add_config_source(source src)
     {ev:"read", root, outcome, vals:[{k,name,src}]} collapse_named_section(root)
     {ev:"abort", root, raised}                      a collapse of root left by an injected pass-through
                                                     exception (raised = it really was interrupted)
   The walk keeps the sources added so far; every read is judged against the fresh collapse
   of exactly those (JudgeRead), clauses of reads that follow an add are prefixed AfterAdd_,
   of reads that follow an aborted collapse AfterAbort_ (an abort changes nothing in the sources).
   If add_config_source itself raises, what the manager then holds is not specified: the rest
   of that history is not judged ("_Unspecified").                                           *)
EXTENDS ConfigInherit, TraceLib
VARIABLES l, st
Defs(e) == {[name |-> e.defs[k].name, src |-> e.defs[k].src, inh |-> e.defs[k].inh, keys |-> AsSet(e.defs[k].keys)] : k \in DOMAIN e.defs}
Step(s, e) ==
  CASE e.ev = "init" -> [s |-> [cfg |-> Defs(e), adds |-> 0, aborts |-> 0, dead |-> FALSE],
                         bad |-> IF Cardinality(Defs(e)) # Len(e.defs) THEN {"OutsideDomain"} ELSE {}]
    [] e.ev = "abort" -> [s |-> [s EXCEPT !.aborts = @ + (IF e.raised THEN 1 ELSE 0)], bad |-> {}]
    [] e.ev = "add"  -> [s |-> [cfg |-> s.cfg \cup Defs(e), adds |-> s.adds + 1, aborts |-> s.aborts, dead |-> s.dead \/ e.raised],
                         bad |-> IF \E d \in Defs(e) : \E x \in s.cfg : x.name = d.name /\ x.src >= d.src
                                 THEN {"OutsideDomain"} ELSE {}]
    [] e.ev = "read" -> [s |-> s,
                         bad |-> IF s.dead THEN {"_Unspecified"}
                                 ELSE LET v == JudgeRead(s.cfg, e.root, e.outcome, e.vals) IN
                                      LET pre == IF s.aborts > 0 THEN "AfterAbort_" ELSE IF s.adds > 0 THEN "AfterAdd_" ELSE "" IN
                                      {IF c = "_Unspecified" THEN c ELSE pre \o c : c \in v}]
    [] OTHER -> [s |-> s, bad |-> {"UnknownEvent"}]
Blank == [cfg |-> {}, adds |-> 0, aborts |-> 0, dead |-> FALSE]
TraceInit == l = 0 /\ st = Blank
TraceNext == /\ l < Len(Tr)
             /\ l' = l + 1
             /\ LET r == Step(st, Tr[l']) IN
                  /\ Report(Tr[l'].tid, Tr[l'].i, r.bad)
                  /\ st' = r.s
             /\ EndMark(l')
TraceSpec == TraceInit /\ [][TraceNext]_<<l, st>>
=========================================================================
