---------------------------- MODULE Keywording ----------------------------
(* C40: resolving a keywording / stabilization request against a repository
   (src/pkgcore/ebuild/keywording.py: match_packages, suggested_keywords).

   Vocabulary (TLC cannot look inside strings, so "~amd64" is the pair <<"amd64","testing">>):
     package  [name, ver, slot, kws]     kws \subseteq ArchNames \X {"stable","testing","neg"}
     repo     [pkgs, known]              known = the arches the repository knows (arch.list)
     line     [op, name, ver, slot, written]   op \in {"=", "", ">="}; written: Seq([t, arch, tilde]),
                                         t \in {"arch","star","caret","dash"}  ( *  ^  - )
     opts     [stable, cc, only_new, filter, allarches]
     request  [line, name, ver, kws]     what match_packages yielded while working on line `line`
   Prefix keywords are the arches with a '-' in their name: the vocabulary is fixed here.        *)
EXTENDS Integers, Sequences, FiniteSets, TLC

Plain      == {"amd64", "x86", "arm64"}
Prefix     == {"amd64-linux", "x86-macos"}
ArchNames  == Plain \cup Prefix
Bogus      == "bogus"                  \* a keyword no repository knows

SeqToSet(s) == {s[i] : i \in DOMAIN s}

StableOn(p)  == {k[1] : k \in {x \in p.kws : x[2] = "stable"}}
TestingOn(p) == {k[1] : k \in {x \in p.kws : x[2] = "testing"}}
NegOn(p)     == {k[1] : k \in {x \in p.kws : x[2] = "neg"}}
\* the property's domain: a package carries an arch in one form only
PkgOk(p) == \A a \in ArchNames : Cardinality({k \in p.kws : k[1] = a}) <= 1
Versions(repo, name) == {p \in repo.pkgs : p.name = name}
Lookup(repo, name, ver) == CHOOSE p \in repo.pkgs : p.name = name /\ p.ver = ver
InRepo(repo, name, ver) == \E p \in repo.pkgs : p.name = name /\ p.ver = ver

(* what  *  may expand to *)
\* stabilization: testing on this version, stable on another one; never a prefix keyword
SuggestedStable(repo, p) ==
  {a \in TestingOn(p) : \E o \in Versions(repo, p.name) : o # p /\ a \in StableOn(o)} \ Prefix
\* keywording: keyworded on some version, absent here; never a prefix keyword
SuggestedKeywording(repo, p) ==
  ({a \in ArchNames : \E o \in Versions(repo, p.name) : a \in StableOn(o) \cup TestingOn(o)}
     \ (StableOn(p) \cup TestingOn(p) \cup NegOn(p))) \ Prefix
Suggested(repo, p, stable) == IF stable THEN SuggestedStable(repo, p) ELSE SuggestedKeywording(repo, p)

\* only-new: the arches the package already carries (a testing keyword already satisfies a keywording request)
Carried(p, a, stable) == a \in StableOn(p) \/ (~stable /\ a \in TestingOn(p))
\* an all-arches stabilization re-adds the stabilization candidates on top of the arch filter
AllAdd(repo, p, o) == IF o.allarches /\ o.stable /\ o.filter # {} THEN SuggestedStable(repo, p) ELSE {}

\* specs a stabilization cannot act on: anything but an exact, unslotted  =cat/pkg-ver
BadStableSpec(ln) == ln.op # "=" \/ ln.slot # ""
Matches(ln, p) == /\ p.name = ln.name
                  /\ ln.slot = "" \/ p.slot = ln.slot
                  /\ CASE ln.op = "=" -> p.ver = ln.ver [] ln.op = ">=" -> p.ver >= ln.ver [] OTHER -> TRUE

\* the written keywords of a line: ~ is dropped, sentinels set aside
Explicit(ln)  == {ln.written[i].arch : i \in {j \in DOMAIN ln.written : ln.written[j].t = "arch"}}
Has(ln, t)    == \E i \in DOMAIN ln.written : ln.written[i].t = t

(* ------------------------------- judging ------------------------------- *)
\* clauses a yielded request r breaks
ReqFails(repo, lines, o, r) ==
  LET p  == Lookup(repo, r.name, r.ver)
      ln == lines[r.line]
      ks == SeqToSet(r.kws)
      cc == SeqToSet(o.cc)
      add == AllAdd(repo, p, o)
      sug == Suggested(repo, p, o.stable)
      \* keywords that can only have come out of  *  : the line wrote  *  , no  ^ , and it is not the
      \* "nothing written, nothing suggested -> addressed to the cc'd arches" case
      starOnly == Has(ln, "star") /\ ~Has(ln, "caret") /\ ~(Explicit(ln) = {} /\ sug = {})
      extra == IF starOnly THEN (ks \ Explicit(ln)) \ add ELSE {}
  IN (IF ks \subseteq repo.known THEN {} ELSE {"KnownArch"})
     \cup (IF cc = {} \/ ks \subseteq cc \cup add THEN {} ELSE {"CcNarrowing"})
     \cup (IF o.filter = {} \/ ks \subseteq o.filter \cup add THEN {} ELSE {"FilterNarrowing"})
     \cup (IF ~o.only_new \/ \A a \in ks : ~Carried(p, a, o.stable) THEN {} ELSE {"OnlyNew"})
     \cup (IF extra \cap Prefix = {} THEN {} ELSE {"Suggest_Prefix"})
     \cup (IF ~o.stable \/ extra \subseteq TestingOn(p) THEN {} ELSE {"Suggest_NotTesting"})
     \cup (IF ~o.stable \/ \A a \in extra : \E v \in Versions(repo, p.name) : v # p /\ a \in StableOn(v)
           THEN {} ELSE {"Suggest_NotStableElsewhere"})
     \* keywording: a suggestion is an arch this version does not carry yet (in any form) ...
     \cup (IF o.stable \/ extra \cap (StableOn(p) \cup TestingOn(p) \cup NegOn(p)) = {} THEN {} ELSE {"Suggest_AlreadyCarried"})
     \* ... that some version of the package is keyworded for
     \cup (IF o.stable \/ \A a \in extra : \E v \in Versions(repo, p.name) : a \in StableOn(v) \cup TestingOn(v)
           THEN {} ELSE {"Suggest_NotKeywordedElsewhere"})

\* a stabilization must reject the first spec it cannot act on: nothing is yielded from that line on,
\* and the run ends with an exception
StableSpecFails(lines, o, out, exc) ==
  LET bad == {i \in DOMAIN lines : BadStableSpec(lines[i])}
  IN IF ~o.stable \/ bad = {} THEN {}
     ELSE LET k == CHOOSE i \in bad : \A j \in bad : i <= j
          IN IF exc # "" /\ \A i \in DOMAIN out : out[i].line < k THEN {} ELSE {"Stable_SpecRejected"}

\* the observation itself is well formed (else the driver / generator is broken)
ObsOk(repo, lines, out) == \A i \in DOMAIN out : out[i].line \in DOMAIN lines /\ InRepo(repo, out[i].name, out[i].ver)

Fails(repo, lines, o, out, exc) ==
  StableSpecFails(lines, o, out, exc) \cup UNION {ReqFails(repo, lines, o, out[i]) : i \in DOMAIN out}

(* --------------------- reference resolution of one line --------------------- *)
(* The design, line by line (keyword lists as SETS: their order is not part of the property).
   -> [act, pkg, kws, prev]   act \in {"raise", "skip", "yield"};  prev: [has, kws]                 *)
NoPrev == [has |-> FALSE, kws |-> {}]
\* stabilizing: the exact version; keywording: the newest keyworded version, else the newest
Best(cands) == LET kw == {p \in cands : StableOn(p) \cup TestingOn(p) # {}}
                   pool == IF kw # {} THEN kw ELSE cands
               IN CHOOSE p \in pool : \A q \in pool : q.ver <= p.ver
StepLine(repo, o, ln, prev) ==
  LET cands == {p \in repo.pkgs : Matches(ln, p)}
      R(act) == [act |-> act, pkg |-> [name |-> "", ver |-> 0], kws |-> {}, prev |-> prev]
  IN IF o.stable /\ BadStableSpec(ln) THEN R("raise")
     ELSE IF cands = {} THEN R("raise")
     ELSE LET p == Best(cands)
              Y(ks, pv) == [act |-> "yield", pkg |-> [name |-> p.name, ver |-> p.ver], kws |-> ks, prev |-> pv]
              k1 == Explicit(ln) \cup (IF Has(ln, "star") THEN Suggested(repo, p, o.stable) ELSE {})
                                 \cup (IF Has(ln, "caret") THEN prev.kws ELSE {})
              cc == SeqToSet(o.cc)
              k2 == IF k1 = {} THEN cc ELSE IF cc # {} THEN k1 \cap cc ELSE k1
              k3 == IF o.only_new THEN {a \in k2 : ~Carried(p, a, o.stable)} ELSE k2
              \* candidates re-added for an all-arches stabilization must be arches the repository knows
              k4 == IF o.filter # {} THEN (k3 \cap o.filter) \cup (IF k3 # {} THEN AllAdd(repo, p, o) \cap repo.known ELSE {}) ELSE k3
          IN IF Has(ln, "dash") THEN R("skip")
             ELSE IF Has(ln, "caret") /\ ~prev.has THEN R("raise")
             ELSE IF ~(k1 \subseteq repo.known) THEN R("raise")
             ELSE IF k1 # {} /\ k2 = {} THEN R("skip")
             ELSE IF k2 = {} THEN Y({}, prev)                     \* nothing asked for: reported at the end
             ELSE IF k3 = {} \/ k4 = {} THEN [R("skip") EXCEPT !.prev = [has |-> TRUE, kws |-> k2]]
             ELSE Y(k4, [has |-> TRUE, kws |-> k2])
=========================================================================
