---------------------------- MODULE TarSync_Trace ----------------------------
(* code -> spec for C47: what the real tar_syncer left on disk, judged with the TarSync clauses.
   Every event carries hadOld and the projected views tree / etag / modified (see TarSync.tla).
     ev "done"     an undisturbed sync against the good server: ok, tree     -> Installs, EtagSound
     ev "again"    a second undisturbed sync, validator unchanged: ok, tree   -> Installs
     ev "crash"    state right after a power cut (before mutation k / inside the unpack):
                   tree                                                       -> TreeOldOrNew, EtagSound
     ev "fault"    a sync attempt that met a fault (HTTP error, truncated body, corrupt archive),
                   process exited gracefully: t0 = tree the user had before, tree = after
                                                                              -> FaultKeepsTree, TreeOldOrNew, EtagSound
     ev "iofault"  a sync attempt during which one filesystem call failed (EIO / ENOSPC injected at
                   mutation k), the syncer's own error handling and the exit cleanup ran: tree = after
                                                                              -> TreeOldOrNew, EtagSound
     ev "recover"  the NEXT sync (fresh process, good server) after a crash or a fault: ok, tree
                                                                              -> Recover, EtagSound   *)
EXTENDS TarSync, TraceLib
VARIABLE l

Sound(e) == (IF EtagSound(e.etag, e.tree) THEN {} ELSE {"EtagSound"})
            \cup (IF EtagSound(e.modified, e.tree) THEN {} ELSE {"ModifiedSound"})
Judge(e) ==
  CASE e.ev \in {"done", "again"} -> (IF RecoverOK(e.ok, e.tree) THEN {} ELSE {"Installs"}) \cup Sound(e)
    [] e.ev \in {"crash", "iofault"} -> (IF TreeOK(e.hadOld, e.tree) THEN {} ELSE {"TreeOldOrNew"}) \cup Sound(e)
    [] e.ev = "fault"   -> (IF FaultKeeps(e.t0, e.tree) THEN {} ELSE {"FaultKeepsTree"})
                           \cup (IF TreeOK(e.hadOld, e.tree) THEN {} ELSE {"TreeOldOrNew"}) \cup Sound(e)
    [] e.ev = "recover" -> (IF RecoverOK(e.ok, e.tree) THEN {} ELSE {"Recover"}) \cup Sound(e)
    [] OTHER -> {"UnknownEvent"}

TraceInit == l = 0
TraceNext == /\ l < Len(Tr) /\ l' = l + 1
             /\ Report(Tr[l'].tid, Tr[l'].i, Judge(Tr[l']))
             /\ EndMark(l')
TraceSpec == TraceInit /\ [][TraceNext]_l
=========================================================================
