---------------------------- MODULE CacheValidity_MC ----------------------------
(* The cache protocol as a state machine: world x cache entries, edited by the outside world
   (EditEbuild, TouchEbuild, EditEclass, TouchEclass, RemoveEclass, MoveEclass, StripInherit)
   and read by pkgcore (Read(S) = one session validating, using or regenerating + replacing
   the entries of the packages in S).  The world holds the packages Pkgs (each with its own
   ebuild and its own cache entry) which SHARE the eclass files: the criterion is per entry, a
   session has no memory across packages - every package's outcome depends only on its own
   entry and the world.
   TLC checks over every history up to MaxSteps from every small initial world that the
   criterion of the property is SUFFICIENT for what it is there for: a read never returns
   anything but the metadata a from-scratch regeneration yields (ReadFresh), valid entries
   always hold fresh data (Coherent), a regeneration leaves a valid entry, a failed one none.
   Assumption made explicit by the model: an edit changes the file's checksum (content id for
   md5; for mtime caches every edit/touch stamps a fresh mtime, while files that exist from the
   start may share one mtime - which is why the flat cache must also record the directory; one
   path never carries one mtime with two different contents: MoveEclass is restricted by Faithful).
   Vacuity guards: CheckEclasses = FALSE (validate the ebuild checksum only) and CheckDir = FALSE
   (flat cache ignoring the eclass directory) must make TLC find a ReadFresh counterexample.   *)
EXTENDS CacheValidity, Sequences, TLC
CONSTANTS Kinds,        \* cache kinds to explore: subset of {"md5", "flat"}
          Pkgs,         \* packages of the world: {"p1"} or {"p1", "p2"}
          MaxCid, InitCid,   \* content ids edits may use / initial files may have
          InitInh,           \* what the initial ebuilds may inherit: subset of InhCodes
          MaxSteps, CheckEclasses, CheckDir

VARIABLES Kind, w, ens, clock, last, steps, seen
vars == <<Kind, w, ens, clock, last, steps, seen>>

\* the world as one package sees it (the vocabulary of CacheValidity)
View(W, p) == [eb |-> W.ebs[p], ecl |-> W.ecl]

Files(n) == {AbsentFile} \cup {[cid |-> c, nest |-> x, mt |-> 0] : c \in 1..InitCid, x \in (IF n = "a" THEN BOOLEAN ELSE {FALSE})}
InitWorlds == {[ebs |-> [p \in Pkgs |-> [cid |-> 1, inh |-> i[p], mt |-> 0]],
                ecl |-> [r \in Repos |-> [n \in Eclasses |-> IF r = "m" THEN (IF n = "a" THEN ma ELSE mb)
                                                                       ELSE (IF n = "a" THEN oa ELSE ob)]]] :
                 i \in [Pkgs -> InitInh], ma \in Files("a"), mb \in Files("b"), oa \in Files("a"), ob \in Files("b")}
NoLast == [isread |-> FALSE, outs |-> <<>>]

Init == /\ Kind \in Kinds
        /\ w \in InitWorlds
        /\ ens = [p \in Pkgs |-> AbsentEntry(Kind)]
        /\ clock = 0
        /\ last = NoLast
        /\ steps = 0
        /\ seen = IF Kind = "flat" THEN {<<r, n, w.ecl[r][n]>> : r \in Repos, n \in Eclasses} ELSE {}

\* mtime caches assume that one path never carries one mtime with two different contents
Faithful(r, n, f) == \A s \in seen : (s[1] = r /\ s[2] = n /\ s[3].mt = f.mt /\ s[3].cid # 0) => (s[3].cid = f.cid /\ s[3].nest = f.nest)
See(r, n, f) == seen' = IF Kind = "flat" THEN seen \cup {<<r, n, f>>} ELSE seen

Stamp == IF Kind = "flat" THEN clock + 1 ELSE 0
Tick  == clock' = (IF Kind = "flat" THEN clock + 1 ELSE clock)
Outside == /\ last' = NoLast /\ steps' = steps + 1 /\ UNCHANGED Kind

EditEbuild(p, c, i) == /\ <<c, i>> # <<w.ebs[p].cid, w.ebs[p].inh>>
                       /\ w' = [w EXCEPT !.ebs[p] = [cid |-> c, inh |-> i, mt |-> Stamp]]
                       /\ Tick /\ Outside /\ UNCHANGED <<ens, seen>>
TouchEbuild(p) == /\ Kind = "flat"
                  /\ w' = [w EXCEPT !.ebs[p].mt = Stamp]
                  /\ Tick /\ Outside /\ UNCHANGED <<ens, seen>>
EditEclass(r, n, c, x) == /\ (x => n = "a")
                          /\ <<c, x>> # <<w.ecl[r][n].cid, w.ecl[r][n].nest>>
                          /\ w' = [w EXCEPT !.ecl[r][n] = [cid |-> c, nest |-> x, mt |-> Stamp]]
                          /\ See(r, n, [cid |-> c, nest |-> x, mt |-> Stamp])
                          /\ Tick /\ Outside /\ UNCHANGED ens
TouchEclass(r, n) == /\ Kind = "flat" /\ w.ecl[r][n].cid # 0
                     /\ w' = [w EXCEPT !.ecl[r][n].mt = Stamp]
                     /\ See(r, n, [w.ecl[r][n] EXCEPT !.mt = Stamp])
                     /\ Tick /\ Outside /\ UNCHANGED ens
RemoveEclass(r, n) == /\ w.ecl[r][n].cid # 0
                      /\ w' = [w EXCEPT !.ecl[r][n] = AbsentFile]
                      /\ Outside /\ UNCHANGED <<ens, clock, seen>>
MoveEclass(n, r1, r2) == /\ r1 # r2 /\ w.ecl[r1][n].cid # 0 /\ w.ecl[r2][n].cid = 0
                         /\ (Kind = "flat" => Faithful(r2, n, w.ecl[r1][n]))
                         /\ w' = [w EXCEPT !.ecl[r2][n] = w.ecl[r1][n], !.ecl[r1][n] = AbsentFile]
                         /\ See(r2, n, w.ecl[r1][n])
                         /\ Outside /\ UNCHANGED <<ens, clock>>
StripInherit(p) == /\ ens[p].present /\ ens[p].hasInherit
                   /\ ens' = [ens EXCEPT ![p].hasInherit = FALSE]
                   /\ Outside /\ UNCHANGED <<w, clock, seen>>

\* the validity test of the modelled implementation (= Valid unless a vacuity guard weakens it)
ImplEclassCurrent(r) == LET res == Resolve(View(w, "p1"), r.name) IN      \* eclasses are shared: any view
                        /\ res.repo # "-"
                        /\ r.chf = Chf(Kind, EcContent(res.f), res.f.mt)
                        /\ ((Kind = "flat" /\ CheckDir) => r.dir = res.repo)
ImplValid(p) == /\ ens[p].present /\ EbuildCurrent(Kind, ens[p], View(w, p))
                /\ (CheckEclasses => \A r \in ens[p].ecl : ImplEclassCurrent(r))
ImplOutcomes(p) == IF ImplValid(p)
                   THEN IF Legacy(ens[p]) THEN {UsedOutcome(ens[p]), RegenOutcome(Kind, View(w, p))} ELSE {UsedOutcome(ens[p])}
                   ELSE {RegenOutcome(Kind, View(w, p))}
\* one session reading the packages S
Read(S) == /\ S # {}
           /\ \E o \in [S -> UNION {ImplOutcomes(p) : p \in S}] :
                 /\ \A p \in S : o[p] \in ImplOutcomes(p)
                 /\ last' = [isread |-> TRUE, outs |-> o]
                 /\ ens' = [p \in Pkgs |-> IF p \in S THEN o[p].en ELSE ens[p]]
           /\ steps' = steps + 1
           /\ UNCHANGED <<Kind, w, clock, seen>>

Step == \/ \E p \in Pkgs, c \in 1..MaxCid, i \in InhCodes : EditEbuild(p, c, i)
        \/ \E p \in Pkgs : TouchEbuild(p) \/ StripInherit(p)
        \/ \E r \in Repos, n \in Eclasses, c \in 1..MaxCid, x \in BOOLEAN : EditEclass(r, n, c, x)
        \/ \E r \in Repos, n \in Eclasses : TouchEclass(r, n) \/ RemoveEclass(r, n)
        \/ \E n \in Eclasses, r1, r2 \in Repos : MoveEclass(n, r1, r2)
        \/ \E S \in SUBSET Pkgs : Read(S)
Next == steps < MaxSteps /\ Step          \* histories of at most MaxSteps actions
Spec == Init /\ [][Next]_vars

(* ------------------------------ properties ------------------------------ *)
ReadPkgs == DOMAIN last.outs
Coherent == \A p \in Pkgs : Valid(Kind, ens[p], View(w, p)) => ens[p].data = Fresh(View(w, p))
ReadFresh == \A p \in ReadPkgs : ~last.outs[p].failed => last.outs[p].result = Fresh(View(w, p))
ReadFailsOnlyWhenBroken == \A p \in ReadPkgs : last.outs[p].failed <=> (last.outs[p].regen /\ ~CanRegen(View(w, p)))
EntryValidAfterRead == \A p \in ReadPkgs : ~last.outs[p].failed =>
                            (Valid(Kind, ens[p], View(w, p)) /\ (last.outs[p].regen => ~Legacy(ens[p])))
NoEntryAfterFailure == \A p \in ReadPkgs : last.outs[p].failed => ~ens[p].present
\* every read of the (unweakened) protocol is one the property allows, package by package
ReadsAllowed == [][(last'.isread /\ steps' = steps + 1 /\ w' = w) =>
                       \A p \in DOMAIN last'.outs : last'.outs[p] \in ReadOutcomes(Kind, ens[p], View(w, p))]_vars
=============================================================================
