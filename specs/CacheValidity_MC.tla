---------------------------- MODULE CacheValidity_MC ----------------------------
(* The cache protocol as a state machine: world x cache entry, edited by the outside world
   (EditEbuild, TouchEbuild, EditEclass, TouchEclass, RemoveEclass, MoveEclass, StripInherit)
   and read by pkgcore (Read = validate, use or regenerate + replace).
   TLC checks over every history up to MaxSteps from every small initial world that the
   criterion of the property is SUFFICIENT for what it is there for: a read never returns
   anything but the metadata a from-scratch regeneration yields (ReadFresh), valid entries
   always hold fresh data (Coherent), a regeneration leaves a valid entry, a failed one none.
   Assumption made explicit by the model: an edit changes the file's checksum (content id for
   md5; for mtime caches every edit/touch stamps a fresh mtime, while files that exist from the
   start may share one mtime - which is why the flat cache must also record the directory; one
   path never carries one mtime with two different contents: MoveEclass is restricted by Faithful).
   Vacuity guards: CheckEclasses = FALSE (validate the ebuild checksum only) and CheckDir = FALSE
   (flat cache ignoring the eclass directory) must make TLC find a ReadFresh counterexample.   *)
EXTENDS CacheValidity, Sequences, TLC
CONSTANTS Kinds,        \* cache kinds to explore: subset of {"md5", "flat"}
          MaxCid, InitCid,   \* content ids edits may use / initial files may have
          InitInh,           \* what the initial ebuild may inherit: subset of InhCodes
          MaxSteps, CheckEclasses, CheckDir

VARIABLES Kind, w, en, clock, last, steps, seen
vars == <<Kind, w, en, clock, last, steps, seen>>

Files(n) == {AbsentFile} \cup {[cid |-> c, nest |-> x, mt |-> 0] : c \in 1..InitCid, x \in (IF n = "a" THEN BOOLEAN ELSE {FALSE})}
InitWorlds == {[eb |-> [cid |-> 1, inh |-> i, mt |-> 0],
                ecl |-> [r \in Repos |-> [n \in Eclasses |-> IF r = "m" THEN (IF n = "a" THEN ma ELSE mb)
                                                                       ELSE (IF n = "a" THEN oa ELSE ob)]]] :
                 i \in InitInh, ma \in Files("a"), mb \in Files("b"), oa \in Files("a"), ob \in Files("b")}
NoLast == [isread |-> FALSE]

Init == /\ Kind \in Kinds
        /\ w \in InitWorlds
        /\ en = AbsentEntry(Kind)
        /\ clock = 0
        /\ last = NoLast
        /\ steps = 0
        /\ seen = IF Kind = "flat" THEN {<<r, n, w.ecl[r][n]>> : r \in Repos, n \in Eclasses} ELSE {}

\* mtime caches assume that one path never carries one mtime with two different contents
Faithful(r, n, f) == \A s \in seen : (s[1] = r /\ s[2] = n /\ s[3].mt = f.mt /\ s[3].cid # 0) => (s[3].cid = f.cid /\ s[3].nest = f.nest)
See(r, n, f) == seen' = IF Kind = "flat" THEN seen \cup {<<r, n, f>>} ELSE seen

Stamp == IF Kind = "flat" THEN clock + 1 ELSE 0
Tick  == clock' = (IF Kind = "flat" THEN clock + 1 ELSE clock)
Outside == /\ last' = NoLast /\ steps' = steps + 1 /\ UNCHANGED Kind

EditEbuild(c, i) == /\ <<c, i>> # <<w.eb.cid, w.eb.inh>>
                    /\ w' = [w EXCEPT !.eb = [cid |-> c, inh |-> i, mt |-> Stamp]]
                    /\ Tick /\ Outside /\ UNCHANGED <<en, seen>>
TouchEbuild == /\ Kind = "flat"
               /\ w' = [w EXCEPT !.eb.mt = Stamp]
               /\ Tick /\ Outside /\ UNCHANGED <<en, seen>>
EditEclass(r, n, c, x) == /\ (x => n = "a")
                          /\ <<c, x>> # <<w.ecl[r][n].cid, w.ecl[r][n].nest>>
                          /\ w' = [w EXCEPT !.ecl[r][n] = [cid |-> c, nest |-> x, mt |-> Stamp]]
                          /\ See(r, n, [cid |-> c, nest |-> x, mt |-> Stamp])
                          /\ Tick /\ Outside /\ UNCHANGED en
TouchEclass(r, n) == /\ Kind = "flat" /\ w.ecl[r][n].cid # 0
                     /\ w' = [w EXCEPT !.ecl[r][n].mt = Stamp]
                     /\ See(r, n, [w.ecl[r][n] EXCEPT !.mt = Stamp])
                     /\ Tick /\ Outside /\ UNCHANGED en
RemoveEclass(r, n) == /\ w.ecl[r][n].cid # 0
                      /\ w' = [w EXCEPT !.ecl[r][n] = AbsentFile]
                      /\ Outside /\ UNCHANGED <<en, clock, seen>>
MoveEclass(n, r1, r2) == /\ r1 # r2 /\ w.ecl[r1][n].cid # 0 /\ w.ecl[r2][n].cid = 0
                         /\ (Kind = "flat" => Faithful(r2, n, w.ecl[r1][n]))
                         /\ w' = [w EXCEPT !.ecl[r2][n] = w.ecl[r1][n], !.ecl[r1][n] = AbsentFile]
                         /\ See(r2, n, w.ecl[r1][n])
                         /\ Outside /\ UNCHANGED <<en, clock>>
StripInherit == /\ en.present /\ en.hasInherit
                /\ en' = [en EXCEPT !.hasInherit = FALSE]
                /\ Outside /\ UNCHANGED <<w, clock, seen>>

\* the validity test of the modelled implementation (= Valid unless a vacuity guard weakens it)
ImplEclassCurrent(r) == LET res == Resolve(w, r.name) IN
                        /\ res.repo # "-"
                        /\ r.chf = Chf(Kind, EcContent(res.f), res.f.mt)
                        /\ ((Kind = "flat" /\ CheckDir) => r.dir = res.repo)
ImplValid == /\ en.present /\ EbuildCurrent(Kind, en, w)
             /\ (CheckEclasses => \A r \in en.ecl : ImplEclassCurrent(r))
ImplOutcomes == IF ImplValid
                THEN IF Legacy(en) THEN {UsedOutcome(en), RegenOutcome(Kind, w)} ELSE {UsedOutcome(en)}
                ELSE {RegenOutcome(Kind, w)}
Read == /\ \E o \in ImplOutcomes : /\ last' = [isread |-> TRUE, out |-> o]
                                   /\ en' = o.en
        /\ steps' = steps + 1
        /\ UNCHANGED <<Kind, w, clock, seen>>

Step == \/ \E c \in 1..MaxCid, i \in InhCodes : EditEbuild(c, i)
        \/ TouchEbuild
        \/ \E r \in Repos, n \in Eclasses, c \in 1..MaxCid, x \in BOOLEAN : EditEclass(r, n, c, x)
        \/ \E r \in Repos, n \in Eclasses : TouchEclass(r, n) \/ RemoveEclass(r, n)
        \/ \E n \in Eclasses, r1, r2 \in Repos : MoveEclass(n, r1, r2)
        \/ StripInherit
        \/ Read
Next == steps < MaxSteps /\ Step          \* histories of at most MaxSteps actions
Spec == Init /\ [][Next]_vars

(* ------------------------------ properties ------------------------------ *)
Coherent == Valid(Kind, en, w) => en.data = Fresh(w)
ReadFresh == (last.isread /\ ~last.out.failed) => last.out.result = Fresh(w)
ReadFailsOnlyWhenBroken == last.isread => (last.out.failed <=> (last.out.regen /\ ~CanRegen(w)))
EntryValidAfterRead == (last.isread /\ ~last.out.failed) => (Valid(Kind, en, w) /\ (last.out.regen => ~Legacy(en)))
NoEntryAfterFailure == (last.isread /\ last.out.failed) => ~en.present
\* every read of the (unweakened) protocol is one the property allows
ReadsAllowed == [][(last'.isread /\ steps' = steps + 1 /\ w' = w) => last'.out \in ReadOutcomes(Kind, en, w)]_vars
=============================================================================
