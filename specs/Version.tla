------------------------------- MODULE Version -------------------------------
(* C01: package versions and their order, a transcription of the Package Manager
   Specification (PMS) "Version Comparison" algorithms 3.1 - 3.7.

   Variable-free: other areas EXTEND / INSTANCE this module and use
       VerCmp(v, w)      \in {-1, 0, 1}      v < w, v = w (same class), v > w
       OpHolds(op, v, w)  BOOLEAN             "package version v satisfies  op w"
       VerText(v)         Seq(Nat)            code points of the PMS spelling of v
       VerCanon(v)        version record      the same for exactly the versions that compare equal
       IsVer(v)           BOOLEAN             v is a well formed version record

   A version  1.02b_alpha3_p-r4  is the record
       [ nums   |-> << <<1>>, <<0,2>> >>,        \* numeric components, each a NON-EMPTY digit sequence
         letter |-> 2,                           \* 0 = none, 1..26 = a..z
         sufs   |-> << [k |-> "alpha", n |-> <<3>>], [k |-> "p", n |-> <<>>] >>,
         rev    |-> <<4>> ]                      \* <<>> = no -rN part
   Numbers are digit sequences (most significant first), never TLC integers, so
   that leading zeros are representable and 40-digit components do not overflow.
   An empty digit sequence is an omitted number (suffix number / revision): PMS
   reads it as 0.

   Every helper is prefixed V... so that the module can be combined with the
   CommunityModules without name clashes.                                        *)
EXTENDS Integers, Sequences

VDigit    == 0..9
VSufKinds == {"alpha", "beta", "pre", "rc", "p"}

VIsDigits(d) == /\ DOMAIN d = 1..Len(d)
                /\ \A i \in DOMAIN d : d[i] \in VDigit

IsVer(v) ==
    /\ Len(v.nums) >= 1
    /\ \A i \in DOMAIN v.nums : VIsDigits(v.nums[i]) /\ Len(v.nums[i]) >= 1
    /\ v.letter \in 0..26
    /\ \A i \in DOMAIN v.sufs : v.sufs[i].k \in VSufKinds /\ VIsDigits(v.sufs[i].n)
    /\ VIsDigits(v.rev)

(* ------------------------------------------------------------------------- *)
(* comparison of digit sequences (the loops of PMS are recursive operators)   *)
VSign(x) == IF x < 0 THEN -1 ELSE IF x > 0 THEN 1 ELSE 0

\* "ASCII stringwise comparison" of two digit strings: the first differing
\* position decides, a proper prefix is smaller.
RECURSIVE VLexFrom(_, _, _)
VLexFrom(a, b, i) ==
    IF i > Len(a) \/ i > Len(b) THEN VSign(Len(a) - Len(b))
    ELSE IF a[i] # b[i] THEN VSign(a[i] - b[i])
    ELSE VLexFrom(a, b, i + 1)
VLexCmp(a, b) == VLexFrom(a, b, 1)

\* index of the first non-zero digit at or after i (Len+1 when there is none)
RECURSIVE VFirstNZ(_, _)
VFirstNZ(d, i) == IF i > Len(d) THEN i ELSE IF d[i] # 0 THEN i ELSE VFirstNZ(d, i + 1)
VStripLead(d) == SubSeq(d, VFirstNZ(d, 1), Len(d))

\* index of the last non-zero digit at or before i (0 when there is none)
RECURSIVE VLastNZ(_, _)
VLastNZ(d, i) == IF i = 0 THEN 0 ELSE IF d[i] # 0 THEN i ELSE VLastNZ(d, i - 1)
VStripTrail(d) == SubSeq(d, 1, VLastNZ(d, Len(d)))

\* comparison "as integers": without leading zeros the longer number is the
\* larger one, equally long numbers compare digit by digit.  <<>> reads as 0.
VNatCmp(a, b) ==
    LET x == VStripLead(a)
        y == VStripLead(b)
    IN  IF Len(x) # Len(y) THEN VSign(Len(x) - Len(y)) ELSE VLexCmp(x, y)

(* ------------------------------------------------------------------------- *)
(* PMS Algorithm 3.3: a numeric component other than the first: if either     *)
(* has a leading zero, strip trailing zeros and compare as strings, otherwise  *)
(* compare as integers                                                          *)
VLeadZero(d) == Len(d) >= 1 /\ d[1] = 0
VCompCmp(a, b) ==
    IF VLeadZero(a) \/ VLeadZero(b)
    THEN VLexCmp(VStripTrail(a), VStripTrail(b))
    ELSE VNatCmp(a, b)

(* PMS Algorithm 3.2: the numeric components; the first one compares as an    *)
(* integer, the first difference decides, then the longer list is the larger  *)
RECURSIVE VNumsFrom(_, _, _)
VNumsFrom(A, B, i) ==
    IF i > Len(A) \/ i > Len(B) THEN VSign(Len(A) - Len(B))
    ELSE LET c == IF i = 1 THEN VNatCmp(A[1], B[1]) ELSE VCompCmp(A[i], B[i])
         IN  IF c # 0 THEN c ELSE VNumsFrom(A, B, i + 1)
VNumsCmp(A, B) == VNumsFrom(A, B, 1)

(* PMS Algorithm 3.4: the letter (none sorts before every letter)             *)
VLetterCmp(x, y) == VSign(x - y)

(* PMS Algorithm 3.6: one suffix against one suffix                           *)
VSufRank(k) == CASE k = "alpha" -> 1 [] k = "beta" -> 2 [] k = "pre" -> 3
                 [] k = "rc" -> 4 [] k = "p" -> 6
VNoSufRank == 5            \* where "no suffix" sits: _rc < (none) < _p
VSufCmp(s, t) ==
    IF s.k = t.k THEN VNatCmp(s.n, t.n) ELSE VSign(VSufRank(s.k) - VSufRank(t.k))

(* PMS Algorithm 3.5: the suffix lists; when one list is exhausted the next   *)
(* suffix of the other decides: _p makes it larger, anything else smaller     *)
RECURSIVE VSufsFrom(_, _, _)
VSufsFrom(S, T, i) ==
    IF i > Len(S) /\ i > Len(T) THEN 0
    ELSE IF i > Len(S) THEN VSign(VNoSufRank - VSufRank(T[i].k))
    ELSE IF i > Len(T) THEN VSign(VSufRank(S[i].k) - VNoSufRank)
    ELSE LET c == VSufCmp(S[i], T[i])
         IN  IF c # 0 THEN c ELSE VSufsFrom(S, T, i + 1)
VSufsCmp(S, T) == VSufsFrom(S, T, 1)

(* PMS Algorithm 3.7: the revision                                            *)
VRevCmp(r, s) == VNatCmp(r, s)

(* PMS Algorithm 3.1 *)
VerCmp(v, w) ==
    LET c1 == VNumsCmp(v.nums, w.nums) IN
    IF c1 # 0 THEN c1 ELSE
    LET c2 == VLetterCmp(v.letter, w.letter) IN
    IF c2 # 0 THEN c2 ELSE
    LET c3 == VSufsCmp(v.sufs, w.sufs) IN
    IF c3 # 0 THEN c3 ELSE VRevCmp(v.rev, w.rev)

VNoRev(v) == [v EXCEPT !.rev = <<>>]

(* The version operators of a dependency specification (PMS 8.3.1):
   "package version v satisfies <op> w".  "~" ignores both revisions.          *)
VerOps == {"<", "<=", "=", "~", ">=", ">"}
\* an operator read off the two comparison results c = VerCmp(v, w) and
\* t = VerCmp(v, w) without revisions  (TLC evaluates operator arguments lazily:
\* t is only computed for "~")
OpOnCmp(op, c, t) ==
    CASE op = "<"  -> c = -1
      [] op = "<=" -> c \in {-1, 0}
      [] op = "="  -> c = 0
      [] op = "~"  -> t = 0
      [] op = ">=" -> c \in {0, 1}
      [] op = ">"  -> c = 1
OpHolds(op, v, w) == OpOnCmp(op, VerCmp(v, w), VerCmp(VNoRev(v), VNoRev(w)))

(* A canonical representative of the class of v under "VerCmp = 0": two versions
   compare equal iff their canonical forms are identical (law CanonLaw in
   Version_Laws).  It is what a hash of a version may depend on.               *)
VerCanon(v) ==
    [nums   |-> [x \in 1..Len(v.nums) |->
                    IF x = 1 THEN VStripLead(v.nums[1])
                    ELSE IF VLeadZero(v.nums[x]) THEN VStripTrail(v.nums[x]) ELSE v.nums[x]],
     letter |-> v.letter,
     sufs   |-> [x \in 1..Len(v.sufs) |-> [k |-> v.sufs[x].k, n |-> VStripLead(v.sufs[x].n)]],
     rev    |-> VStripLead(v.rev)]

(* ------------------------------------------------------------------------- *)
(* the PMS spelling, as code points (TLC cannot look inside strings)          *)
VCat(ss) ==        \* concatenation of a sequence of sequences
    LET F[i \in 0..Len(ss)] == IF i = 0 THEN <<>> ELSE F[i - 1] \o ss[i] IN F[Len(ss)]
VDigitsText(d) == [i \in 1..Len(d) |-> 48 + d[i]]
VSufName(k) == CASE k = "alpha" -> <<97, 108, 112, 104, 97>> [] k = "beta" -> <<98, 101, 116, 97>>
                 [] k = "pre" -> <<112, 114, 101>> [] k = "rc" -> <<114, 99>> [] k = "p" -> <<112>>
VerText(v) ==
    VCat([i \in 1..Len(v.nums) |-> (IF i = 1 THEN <<>> ELSE <<46>>) \o VDigitsText(v.nums[i])])
    \o (IF v.letter = 0 THEN <<>> ELSE <<96 + v.letter>>)
    \o VCat([i \in 1..Len(v.sufs) |-> <<95>> \o VSufName(v.sufs[i].k) \o VDigitsText(v.sufs[i].n)])
    \o (IF v.rev = <<>> THEN <<>> ELSE <<45, 114>> \o VDigitsText(v.rev))
=============================================================================
