------------------------------- MODULE Version -------------------------------
(* C01: package versions and their order, a transcription of the Package Manager
   Specification (PMS) "Version Comparison" algorithms 3.1 - 3.7.

   Variable-free: other areas EXTEND / INSTANCE this module and use
       VerCmp(v, w)      \in {-1, 0, 1}      v < w, v = w (same class), v > w
       OpHolds(op, v, w)  BOOLEAN             "package version v satisfies  op w"
       VerText(v)         Seq(Nat)            code points of the PMS spelling of v
       IsVer(v)           BOOLEAN             v is a well formed version record

   A version  1.02b_alpha3_p-r4  is the record
       [ nums   |-> << <<1>>, <<0,2>> >>,        \* numeric components, each a NON-EMPTY digit sequence
         letter |-> 2,                           \* 0 = none, 1..26 = a..z
         sufs   |-> << [k |-> "alpha", n |-> <<3>>], [k |-> "p", n |-> <<>>] >>,
         rev    |-> <<4>> ]                      \* <<>> = no -rN part
   Numbers are digit sequences (most significant first), never TLC integers, so
   that leading zeros are representable and 40-digit components do not overflow.
   An empty digit sequence is an omitted number (suffix number / revision): PMS
   reads it as 0.

   Every helper is prefixed V... so that the module can be combined with the
   CommunityModules without name clashes.                                        *)
EXTENDS Integers, Sequences

VDigit    == 0..9
VSufKinds == {"alpha", "beta", "pre", "rc", "p"}

VIsDigits(d) == /\ DOMAIN d = 1..Len(d)
                /\ \A i \in DOMAIN d : d[i] \in VDigit

IsVer(v) ==
    /\ Len(v.nums) >= 1
    /\ \A i \in DOMAIN v.nums : VIsDigits(v.nums[i]) /\ Len(v.nums[i]) >= 1
    /\ v.letter \in 0..26
    /\ \A i \in DOMAIN v.sufs : v.sufs[i].k \in VSufKinds /\ VIsDigits(v.sufs[i].n)
    /\ VIsDigits(v.rev)

(* ------------------------------------------------------------------------- *)
(* comparison of digit sequences                                              *)
VSign(x) == IF x < 0 THEN -1 ELSE IF x > 0 THEN 1 ELSE 0

VLeast(S) == CHOOSE i \in S : \A j \in S : i <= j

\* "ASCII stringwise comparison" of two digit strings: first differing position
\* decides, a proper prefix is smaller.
VLexCmp(a, b) ==
    LET n == IF Len(a) < Len(b) THEN Len(a) ELSE Len(b)
        D == {i \in 1..n : a[i] # b[i]}
    IN  IF D = {} THEN VSign(Len(a) - Len(b))
        ELSE VSign(a[VLeast(D)] - b[VLeast(D)])

VStripLead(d) ==
    LET NZ == {i \in 1..Len(d) : d[i] # 0}
    IN  IF NZ = {} THEN <<>> ELSE SubSeq(d, VLeast(NZ), Len(d))

VStripTrail(d) ==
    LET NZ == {i \in 1..Len(d) : d[i] # 0}
    IN  IF NZ = {} THEN <<>> ELSE SubSeq(d, 1, CHOOSE i \in NZ : \A j \in NZ : j <= i)

\* comparison "as integers": without leading zeros the longer number is the
\* larger one, equally long numbers compare digit by digit.  <<>> reads as 0.
VNatCmp(a, b) ==
    LET x == VStripLead(a)
        y == VStripLead(b)
    IN  IF Len(x) # Len(y) THEN VSign(Len(x) - Len(y)) ELSE VLexCmp(x, y)

\* the first non-zero entry of a function [1..n -> {-1,0,1}], 0 when there is none
VFirstNZ(f, n) ==
    LET D == {i \in 1..n : f[i] # 0}
    IN  IF D = {} THEN 0 ELSE f[VLeast(D)]

(* ------------------------------------------------------------------------- *)
(* PMS Algorithm 3.3: a numeric component other than the first                *)
VLeadZero(d) == Len(d) >= 1 /\ d[1] = 0
VCompCmp(a, b) ==
    IF VLeadZero(a) \/ VLeadZero(b)
    THEN VLexCmp(VStripTrail(a), VStripTrail(b))
    ELSE VNatCmp(a, b)

(* PMS Algorithm 3.2: the numeric components                                 *)
VNumsCmp(A, B) ==
    LET n == IF Len(A) < Len(B) THEN Len(A) ELSE Len(B)
        f == [i \in 1..n |-> IF i = 1 THEN VNatCmp(A[1], B[1]) ELSE VCompCmp(A[i], B[i])]
        c == VFirstNZ(f, n)
    IN  IF c # 0 THEN c ELSE VSign(Len(A) - Len(B))

(* PMS Algorithm 3.4: the letter (none sorts before every letter)             *)
VLetterCmp(x, y) == VSign(x - y)

(* PMS Algorithm 3.6: one suffix against one suffix                           *)
VSufRank(k) == CASE k = "alpha" -> 1 [] k = "beta" -> 2 [] k = "pre" -> 3
                 [] k = "rc" -> 4 [] k = "p" -> 6
VNoSufRank == 5            \* where "no suffix" sits: _rc < (none) < _p
VSufCmp(s, t) ==
    IF s.k = t.k THEN VNatCmp(s.n, t.n) ELSE VSign(VSufRank(s.k) - VSufRank(t.k))

(* PMS Algorithm 3.5: the suffix lists                                        *)
VSufsCmp(S, T) ==
    LET n == IF Len(S) < Len(T) THEN Len(S) ELSE Len(T)
        f == [i \in 1..n |-> VSufCmp(S[i], T[i])]
        c == VFirstNZ(f, n)
    IN  IF c # 0 THEN c
        ELSE IF Len(S) > Len(T) THEN VSign(VSufRank(S[n + 1].k) - VNoSufRank)
        ELSE IF Len(S) < Len(T) THEN VSign(VNoSufRank - VSufRank(T[n + 1].k))
        ELSE 0

(* PMS Algorithm 3.7: the revision                                            *)
VRevCmp(r, s) == VNatCmp(r, s)

(* PMS Algorithm 3.1 *)
VerCmp(v, w) ==
    LET c1 == VNumsCmp(v.nums, w.nums) IN
    IF c1 # 0 THEN c1 ELSE
    LET c2 == VLetterCmp(v.letter, w.letter) IN
    IF c2 # 0 THEN c2 ELSE
    LET c3 == VSufsCmp(v.sufs, w.sufs) IN
    IF c3 # 0 THEN c3 ELSE VRevCmp(v.rev, w.rev)

VNoRev(v) == [v EXCEPT !.rev = <<>>]

(* The version operators of a dependency specification (PMS 8.3.1):
   "package version v satisfies <op> w".  "~" ignores both revisions.          *)
VerOps == {"<", "<=", "=", "~", ">=", ">"}
OpHolds(op, v, w) ==
    CASE op = "<"  -> VerCmp(v, w) = -1
      [] op = "<=" -> VerCmp(v, w) \in {-1, 0}
      [] op = "="  -> VerCmp(v, w) = 0
      [] op = "~"  -> VerCmp(VNoRev(v), VNoRev(w)) = 0
      [] op = ">=" -> VerCmp(v, w) \in {0, 1}
      [] op = ">"  -> VerCmp(v, w) = 1

(* ------------------------------------------------------------------------- *)
(* the PMS spelling, as code points (TLC cannot look inside strings)          *)
VCat(ss) ==        \* concatenation of a sequence of sequences
    LET F[i \in 0..Len(ss)] == IF i = 0 THEN <<>> ELSE F[i - 1] \o ss[i] IN F[Len(ss)]
VDigitsText(d) == [i \in 1..Len(d) |-> 48 + d[i]]
VSufName(k) == CASE k = "alpha" -> <<97, 108, 112, 104, 97>> [] k = "beta" -> <<98, 101, 116, 97>>
                 [] k = "pre" -> <<112, 114, 101>> [] k = "rc" -> <<114, 99>> [] k = "p" -> <<112>>
VerText(v) ==
    VCat([i \in 1..Len(v.nums) |-> (IF i = 1 THEN <<>> ELSE <<46>>) \o VDigitsText(v.nums[i])])
    \o (IF v.letter = 0 THEN <<>> ELSE <<96 + v.letter>>)
    \o VCat([i \in 1..Len(v.sufs) |-> <<95>> \o VSufName(v.sufs[i].k) \o VDigitsText(v.sufs[i].n)])
    \o (IF v.rev = <<>> THEN <<>> ELSE <<45, 114>> \o VDigitsText(v.rev))
=============================================================================
