---------------------------- MODULE QueryGlob ----------------------------
(* C44: package query strings (src/pkgcore/util/parserestrict.py, parse_match).

     query ::= [op] [catpat "/"] pkgpat ["-" version] [":" slotpat ["/" subslotpat]] ["::" repo]

   catpat / pkgpat / slotpat / subslotpat may contain "*" (any run of characters, matched
   against the WHOLE field like a shell pattern); a query without "*" and with a category is a
   plain atom.  A query selects a package iff every field matches its pattern, the version
   satisfies the operator (PMS comparison, GlsaVer) and the repository is equal.  Any text with a
   "!" is rejected.  Text is a sequence of one-character strings.

   ParseQ classifies ANY text: "reject" | "query" (with its structure) | "unspec" (outside the
   grammar above, or one of the documented carve-outs) -- so randomly generated text can be
   judged without the generator deciding what is in the domain.                               *)
EXTENDS GlsaVer

(* ---------------- whole-string glob matching ("*" only) ---------------- *)
RECURSIVE GlobMatch(_, _)
GlobMatch(p, s) ==
    IF p = <<>> THEN s = <<>>
    ELSE IF p[1] = "*" THEN GlobMatch(Tail(p), s) \/ (s # <<>> /\ GlobMatch(p, Tail(s)))
    ELSE s # <<>> /\ s[1] = p[1] /\ GlobMatch(Tail(p), Tail(s))

\* independent formulation (position-set automaton) used by the laws
RECURSIVE StarClosure(_, _)
StarClosure(p, S) == LET S2 == S \cup {i + 1 : i \in {j \in S : j <= Len(p) /\ p[j] = "*"}} IN
                     IF S2 = S THEN S ELSE StarClosure(p, S2)
GlobStep(p, S, c) == StarClosure(p, {i + 1 : i \in {j \in S : j <= Len(p) /\ p[j] # "*" /\ p[j] = c}}
                                    \cup {i \in S : i <= Len(p) /\ p[i] = "*"})
RECURSIVE GlobRun(_, _, _)
GlobRun(p, S, s) == IF s = <<>> THEN S ELSE GlobRun(p, GlobStep(p, S, s[1]), Tail(s))
GlobAutomaton(p, s) == (Len(p) + 1) \in GlobRun(p, StarClosure(p, {1}), s)

(* ---------------- lexical classes of the query grammar ---------------- *)
HasStar(t) == "*" \in Chars(t)
NoPair(t, c) == \A k \in 1..(Len(t) - 1) : ~(t[k] = c /\ t[k + 1] = c)
NameChars == Letters \cup {"-"}
IsNamePat(t) == /\ t # <<>> /\ Chars(t) \subseteq NameChars \cup {"*"}
                /\ t[1] # "-" /\ t[Len(t)] # "-" /\ NoPair(t, "*") /\ NoPair(t, "-")
SlotChars == Letters \cup Digits \cup {".", "_"}
IsSlotPat(t) == t # <<>> /\ Chars(t) \subseteq SlotChars \cup {"*"} /\ t[1] # "." /\ NoPair(t, "*")
IsRepo(t) == t # <<>> /\ Chars(t) \subseteq Letters \cup Digits \cup {"_"} /\ t[1] \in Letters
OpChars == {"<", "=", ">", "~"}
RECURSIVE OpRun(_)
OpRun(t) == IF t # <<>> /\ t[1] \in OpChars THEN <<t[1]>> \o OpRun(Tail(t)) ELSE <<>>
OpOf(r) == CASE r = <<>> -> "" [] r = <<"<">> -> "<" [] r = <<"<", "=">> -> "<=" [] r = <<"=">> -> "="
             [] r = <<"~">> -> "~" [] r = <<">", "=">> -> ">=" [] r = <<">">> -> ">" [] OTHER -> "bad"
OpText(op) == CASE op = "" -> <<>> [] op = "<" -> <<"<">> [] op = "<=" -> <<"<", "=">> [] op = "=" -> <<"=">>
                [] op = "~" -> <<"~">> [] op = ">=" -> <<">", "=">> [] op = ">" -> <<">">>

AnyPat == <<"*">>
Unspec == [kind |-> "unspec"]
RejectQ == [kind |-> "reject"]
\* the structure of an accepted query; absent category / slot / sub-slot are the pattern "*"
MkQ(op, hascat, cat, pkg, ver, hasslot, slot, hassub, sub, repo) ==
    [kind |-> "query", op |-> op, hascat |-> hascat, cat |-> cat, pkg |-> pkg, ver |-> ver,
     hasslot |-> hasslot, slot |-> slot, hassub |-> hassub, sub |-> sub, repo |-> repo]
NoVer == MkVer(<<<<"0">>>>, "", <<>>, <<>>)

(* ---------------- carve-outs (inputs the property leaves open) ---------------- *)
QGlobbed(q) == HasStar(q.cat) \/ HasStar(q.pkg) \/ HasStar(q.slot) \/ HasStar(q.sub)
\* (a) the category-less form is documented as "atom syntax where the category can be dropped":
\*     with a version operator it takes no globs in the name
\*     ("cannot do prefix glob matches with version ops")
CarveNoCatOpGlob(q) == q.op # "" /\ ~q.hascat /\ HasStar(q.pkg)
\* (b) globbed targets take "limited version restrictions" (parse_globbed_version): a revision
\*     next to a glob is left open
CarveGlobRev(q) == q.op # "" /\ QGlobbed(q) /\ q.ver.rev # <<>>
Carved(q) == CarveNoCatOpGlob(q) \/ CarveGlobRev(q)

(* ---------------- the parser ---------------- *)
\* name-version split: names have no digits, the version starts after the first "-" that is followed by a digit
VerStart(t) == LET ks == {k \in 1..(Len(t) - 1) : t[k] = "-" /\ t[k + 1] \in Digits} IN
               IF ks = {} THEN 0 ELSE CHOOSE k \in ks : \A j \in ks : k <= j
ParseBody(b, hasslot, slot, hassub, sub, repo) ==
    LET opr == OpRun(b)
        op == OpOf(opr)
        r == SubSeq(b, Len(opr) + 1, Len(b))
        sl == FirstIdx(r, "/")
        hascat == sl # 0
        cat == IF hascat THEN Before(r, sl) ELSE AnyPat
        pv == IF hascat THEN After(r, sl) ELSE r
    IN IF op = "bad" \/ "/" \in Chars(pv) \/ (hascat /\ ~IsNamePat(cat)) THEN Unspec
       ELSE IF op = "" THEN
            (IF IsNamePat(pv) THEN MkQ("", hascat, cat, pv, NoVer, hasslot, slot, hassub, sub, repo) ELSE Unspec)
       ELSE LET k == VerStart(pv) IN
            IF k = 0 THEN Unspec
            ELSE LET pkg == Before(pv, k)
                     v == ParseVer(After(pv, k))
                 IN IF IsNamePat(pkg) /\ v.ok /\ PlainVer(v) /\ (op = "~" => v.rev = <<>>)
                    THEN MkQ(op, hascat, cat, pkg, v, hasslot, slot, hassub, sub, repo) ELSE Unspec
ParseSlotted(t, repo) ==
    LET k == LastIdx(t, ":") IN
    IF k = 0 THEN ParseBody(t, FALSE, AnyPat, FALSE, AnyPat, repo)
    ELSE LET b == Before(t, k)
             sp == After(t, k)
             j == FirstIdx(sp, "/")
             slot == IF j = 0 THEN sp ELSE Before(sp, j)
             sub == IF j = 0 THEN AnyPat ELSE After(sp, j)
         IN IF ":" \in Chars(b) \/ ~IsSlotPat(slot) \/ (j # 0 /\ ~IsSlotPat(sub)) THEN Unspec
            ELSE ParseBody(b, TRUE, slot, j # 0, sub, repo)
ParseQ0(t) ==
    LET dc == {k \in 1..(Len(t) - 1) : t[k] = ":" /\ t[k + 1] = ":"} IN
    IF dc = {} THEN ParseSlotted(t, <<>>)
    ELSE LET k == CHOOSE x \in dc : \A y \in dc : y <= x
             repo == SubSeq(t, k + 2, Len(t))
         IN IF Cardinality(dc) > 1 \/ ~IsRepo(repo) THEN Unspec ELSE ParseSlotted(Before(t, k), repo)
ParseQ(t) == IF "!" \in Chars(t) THEN RejectQ
             ELSE LET q == ParseQ0(t) IN IF q.kind = "query" /\ Carved(q) THEN Unspec ELSE q

(* ---------------- rendering (the inverse, used to generate query strings) ---------------- *)
RenderQ(q) == OpText(q.op) \o (IF q.hascat THEN q.cat \o <<"/">> ELSE <<>>) \o q.pkg
              \o (IF q.op # "" THEN <<"-">> \o RenderVer(q.ver) ELSE <<>>)
              \o (IF q.hasslot THEN <<":">> \o q.slot \o (IF q.hassub THEN <<"/">> \o q.sub ELSE <<>>) ELSE <<>>)
              \o (IF q.repo # <<>> THEN <<":", ":">> \o q.repo ELSE <<>>)

(* ---------------- selection ---------------- *)
\* a package is [cat, pkg, slot, sub, repo : text, ver : version record]
FieldFails(q, p) ==
    (IF GlobMatch(q.cat, p.cat) THEN {} ELSE {"category"}) \cup
    (IF GlobMatch(q.pkg, p.pkg) THEN {} ELSE {"package"}) \cup
    (IF q.op = "" \/ OpHolds(q.op, p.ver, q.ver) THEN {} ELSE {"version"}) \cup
    (IF GlobMatch(q.slot, p.slot) THEN {} ELSE {"slot"}) \cup
    (IF GlobMatch(q.sub, p.sub) THEN {} ELSE {"subslot"}) \cup
    (IF q.repo = <<>> \/ q.repo = p.repo THEN {} ELSE {"repo"})
Selects(q, p) == FieldFails(q, p) = {}

\* what a plain atom (no "*", category given) matches, stated without patterns
IsPlainAtom(q) == q.hascat /\ ~QGlobbed(q)
AtomMatches(q, p) == /\ q.cat = p.cat /\ q.pkg = p.pkg
                     /\ (q.op = "" \/ OpHolds(q.op, p.ver, q.ver))
                     /\ (q.hasslot => q.slot = p.slot) /\ (q.hassub => q.sub = p.sub)
                     /\ (q.repo # <<>> => q.repo = p.repo)
=========================================================================
