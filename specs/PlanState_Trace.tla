---------------------------- MODULE PlanState_Trace ----------------------------
(* Validates recorded plan_state histories (random drivers, TLC-chosen histories
   replayed on the real object, and every resolver run of C15).
   Tr[1] is a header {ev:"universe", pkgs, choices, blockers, restrs, key, slot, bkey, blocks}.
   Every other event: {tid, i, ev, c, p, force, b, r, pos, ret:[names], raised, st:{...}}
   where st is the FULL projected planner state after the call (it is small).
   Each step is judged from the previously OBSERVED state (re-synchronising), so one
   deviation never hides the rest of the trace.                                      *)
EXTENDS TraceLib, Integers
H == Tr[1]
TPkgs == AsSet(H.pkgs)
TChoicePts == AsSet(H.choices)
TBlockers == AsSet(H.blockers)
TRestrs == AsSet(H.restrs)
TKeyOf == [p \in TPkgs |-> H.key[p]]
TSlotOf == [p \in TPkgs |-> H.slot[p]]
TBKeyOf == [b \in TBlockers |-> H.bkey[b]]
TBlocks == {<<H.blocks[k][1], H.blocks[k][2]>> : k \in DOMAIN H.blocks}

VARIABLES l, st
INSTANCE PlanState WITH Pkgs <- TPkgs, ChoicePts <- TChoicePts, Blockers <- TBlockers, Restrs <- TRestrs,
                        KeyOf <- TKeyOf, SlotOf <- TSlotOf, BKeyOf <- TBKeyOf, Blocks <- TBlocks

\* observed JSON state -> spec state record
RevOf(o) == [cb \in TChoicePts \X TBlockers |->
               LET hits == {k \in DOMAIN o.rev : o.rev[k][1] = cb[1] /\ o.rev[k][2] = cb[2]} IN
               IF hits = {} THEN 0 ELSE o.rev[CHOOSE k \in hits : TRUE][3]]
\* observed limiters are [blocker, key it is filed under] pairs
Obs(o) == [plan |-> o.plan, slots |-> AsSet(o.slots), limiters |-> {o.limiters[k][1] : k \in DOMAIN o.limiters},
           choice |-> [p \in TPkgs |-> o.choice[p]],
           rev |-> RevOf(o),
           refcnt |-> [b \in TBlockers |-> o.refcnt[b]],
           vdb |-> [p \in TPkgs |-> o.vdb[p]],
           forced |-> [r \in TRestrs |-> o.forced[r]]]

Fields == {"plan", "slots", "limiters", "choice", "rev", "refcnt", "vdb", "forced"}
Diff(tag, a, b) ==
    (IF PlanEq(a.plan, b.plan) THEN {} ELSE {tag \o "_plan"}) \cup
    (IF a.slots = b.slots THEN {} ELSE {tag \o "_slots"}) \cup
    (IF a.limiters = b.limiters THEN {} ELSE {tag \o "_limiters"}) \cup
    (IF a.choice = b.choice THEN {} ELSE {tag \o "_choice"}) \cup
    (IF a.rev = b.rev THEN {} ELSE {tag \o "_rev"}) \cup
    (IF a.refcnt = b.refcnt THEN {} ELSE {tag \o "_refcnt"}) \cup
    (IF Excluded(a) = Excluded(b) THEN {} ELSE {tag \o "_vdb"}) \cup
    (IF a.forced = b.forced THEN {} ELSE {tag \o "_forced"})

Pre(cur, e) ==
  CASE e.ev = "add"       -> CanAdd(cur, e.c, e.p)
    [] e.ev = "remove"    -> CanRemove(cur, e.c, e.p)
    [] e.ev = "replace"   -> CanReplace(cur, e.c, e.p)
    [] e.ev = "dropblocker" -> CanDropBlocker(cur, e.c, e.b)
    [] e.ev = "addblocker" -> CanAddBlocker(cur, e.c, e.b)
    [] e.ev = "backtrack" -> e.pos <= Len(cur.plan) /\ (e.fault = 0 \/ (e.pos < e.fault /\ e.fault <= Len(cur.plan)))
    [] OTHER -> TRUE
Expected(cur, e) ==
  CASE e.ev = "add"       -> DoAdd(cur, e.c, e.p, e.force)
    [] e.ev = "remove"    -> DoRemove(cur, e.c, e.p)
    [] e.ev = "replace"   -> DoReplace(cur, e.c, e.p)
    [] e.ev = "addblocker" -> DoAddBlocker(cur, e.c, e.b)
    [] e.ev = "dropblocker" -> DoDropBlocker(cur, e.c, e.b)
    [] e.ev = "hardref"   -> DoHardref(cur, e.r)
    [] e.ev = "backref"   -> DoBackref(cur, e.c, e.p)
    [] e.ev = "backtrack" -> (IF e.fault > 0 THEN DoBacktrackCut(cur, e.pos, e.fault) ELSE DoBacktrack(cur, e.pos))

Judge(cur, e) ==
  LET obs == Obs(e.st) IN
  IF ~Pre(cur, e) THEN {"OutsideDomain"}          \* generator error, never a verdict on the code
  ELSE LET exp == Expected(cur, e)
           tag == IF e.ev = "backtrack" THEN "Rollback" ELSE IF e.ev = "replace" /\ exp.ret # {} THEN "RefusedReplace" ELSE "Post"
           cut == e.ev = "backtrack" /\ e.fault > 0   \* the injected interruption must propagate, nothing else may raise
       IN (IF e.raised # cut THEN {tag \o "_raised"} ELSE {})
          \cup Diff(tag, obs, exp.s)
          \cup (IF ~e.raised /\ AsSet(e.ret) # exp.ret THEN {"ReturnValue"} ELSE {})
          \cup (IF \A k \in DOMAIN e.st.limiters : e.st.limiters[k][2] = TBKeyOf[e.st.limiters[k][1]]
                THEN {} ELSE {"LimiterFiledUnderKey"})
          \cup (IF StateIsReplay(obs) THEN {} ELSE {"StateIsReplay"})
          \cup (IF RefcntIsLive(obs) THEN {} ELSE {"RefcntIsLive"})
          \cup (IF LimitersAreReferenced(obs) THEN {} ELSE {"LimitersAreReferenced"})
          \cup (IF RefcntIsRevSum(obs) THEN {} ELSE {"RefcntIsRevSum"})
          \cup (IF ChoicesAreSlotted(obs) THEN {} ELSE {"ChoicesAreSlotted"})

TraceInit == l = 1 /\ st = Empty
TraceNext == /\ l < Len(Tr)
             /\ l' = l + 1
             /\ LET e == Tr[l']
                    cur == IF e.i = 1 THEN Empty ELSE st
                IN /\ Report(e.tid, e.i, Judge(cur, e))
                   /\ st' = Obs(e.st)
             /\ EndMark(l')
TraceSpec == TraceInit /\ [][TraceNext]_<<l, st>>
=========================================================================
