---------------------------- MODULE EbdProtocol_Trace ----------------------------
(* Validates recorded sessions of the REAL EbuildProcessor (PKGCORE_VERIF_TRACE hook) against
   the protocol specification.  Events (one tid per session):
     {ev:"req",  kind, need, have}      the driver starts a top-level request
     {ev:"w",    m:{cmd,arg,need,have}} Python wrote a line (+counted payload)
     {ev:"r",    m:{cmd,arg}}           Python read a line            (cmd "EOF" for end of file)
     {ev:"end",  out}                   the request returned / raised (out = value or exception name)
     {ev:"hang"}                        the request never returned (wall clock limit of the harness)
   daemon:"real" sessions additionally run the daemon automaton as a transducer over the
   lines Python wrote: every line Python read must be something the daemon specification can
   emit at that point (DaemonConforms).
   Verdict clauses:
     PyWrite      Python wrote something else than the specification's next write
     PyRead       Python read where the specification does not read
     PyOutcome    request outcome differs from the specification's (or it ended early/late)
     PyHang       request did not return (NoDeadlock: the intended protocol never blocks forever)
     Misread      a helper payload line was acted on as a notice              (NoMisread)
     DaemonConforms  the (real) daemon emitted a line its specification cannot emit here
   After a deviation the validator re-synchronises at the next "req" event; after a SIGTERM
   notice the rest of the session is only checked for PyHang (what Python writes while the
   daemon is exiting depends on a race with waitpid).                                       *)
EXTENDS EbdProtocol, TraceLib
VARIABLES l, py, d, c2d, dout, pw, free, lw

M(x) == [cmd |-> x.cmd, arg |-> x.arg, rid |-> 0, need |-> x.need, have |-> x.have, data |-> FALSE]

\* advance Python's unobservable steps (internal ones, waitpid, kill, close)
RECURSIVE Settle(_, _)
Settle(p, fuel) == IF fuel = 0 THEN p
                   ELSE IF PyInternalReady(p) THEN Settle(PyInternal(p), fuel - 1)
                   ELSE IF PyWaiting(p) THEN Settle(Next1(p), fuel - 1)
                   ELSE p
\* ... and probes that were skipped because the daemon process had already been reaped
RECURSIVE SettleEnd(_, _)
SettleEnd(p, fuel) == LET q == Settle(p, 12) IN
                      IF fuel > 0 /\ AtAliveProbe(q) THEN SettleEnd(NotAlive(q), fuel - 1) ELSE q

FreeForm == {"eclassfile", "bashrcfile", "ipcreply", "file"}
SameW(a, b) == \/ a.cmd \in FreeForm
               \/ (a.cmd = b.cmd /\ (a.cmd # "start_receiving_env" \/ a.arg = b.arg)
                   /\ ((a.need = a.have) <=> (b.need = b.have)))

(* ---- daemon transducer: can the daemon emit line L now? ---- *)
ArgMatters == {"phases", "preload_eclass", "clear_preloaded_eclasses"}
SameR(a, L) == a.data \/ (a.cmd = L.cmd /\ (a.cmd \notin ArgMatters \/ a.arg = L.arg))
DT(ok, dd, q, o) == [ok |-> ok, d |-> dd, c2d |-> q, dout |-> o]
RECURSIVE DEmit(_, _, _, _, _)
DEmit(dd, q, o, L, fuel) ==
  IF o # <<>> /\ Head(o).cmd = "errline" THEN     \* die(): any number of message lines, then "dead"
      IF L.cmd = "dead" THEN DEmit(dd, q, Tail(o), L, fuel) ELSE DT(TRUE, dd, q, o)
  ELSE IF o # <<>> THEN DT(SameR(Head(o), L), dd, q, Tail(o))
  ELSE IF fuel = 0 THEN DT(FALSE, dd, q, o)
  ELSE IF DWantsRead(dd) THEN
      IF q = <<>> THEN DT(FALSE, dd, q, o)
      ELSE LET rs == DRead(dd, Head(q))
               good == {r \in rs : r.out = <<>> \/ SameR(Head(r.out), L)}
           IN IF good = {} THEN DT(FALSE, dd, q, o)
              ELSE LET r == CHOOSE x \in good : TRUE IN DEmit(r.d, Tail(q), r.out, L, fuel - 1)
  ELSE LET acts == {a \in DActs(dd) : DAct(dd, a).out # <<>> /\ SameR(Head(DAct(dd, a).out), L)}
       IN IF acts # {} THEN LET a == CHOOSE x \in acts : TRUE IN DEmit(DAct(dd, a).d, q, DAct(dd, a).out, L, fuel - 1)
          ELSE IF ~DGone(dd) /\ L.cmd \in {"SIGINT", "SIGTERM"} THEN DT(TRUE, [dd EXCEPT !.mode = "dead"], q, <<>>)
          ELSE DT(FALSE, dd, q, o)

InShutdown(p) == p.script # <<>> /\ p.script[Len(p.script)].op = "ret" /\ \E k \in DOMAIN p.script : p.script[k].op = "close"

TraceInit == l = 0 /\ py = PyInit /\ d = DInit /\ c2d = <<>> /\ dout = <<>> /\ pw = <<>> /\ free = FALSE /\ lw = FALSE

S(bad, p, dd, q, o, w, f) == [bad |-> bad, py |-> p, d |-> dd, c2d |-> q, dout |-> o, pw |-> w, free |-> f]
Idle(p) == [p EXCEPT !.mode = IF p.closed THEN "done" ELSE "idle", !.script = <<>>, !.pend = <<>>, !.sub = 0, !.got = <<>>]

Step(e) ==
  LET fresh == e.i = 1
      p0 == IF fresh THEN PyInit ELSE py
      d0 == IF fresh THEN DInit ELSE d
      q0 == IF fresh THEN <<>> ELSE c2d
      o0 == IF fresh THEN <<>> ELSE dout
      w0 == IF fresh THEN <<>> ELSE pw
      f0 == IF fresh THEN FALSE ELSE free
      p  == Settle(p0, 12)
  IN
  IF f0 THEN S(IF e.ev = "hang" THEN {"PyHang"} ELSE {}, p0, d0, q0, o0, w0, TRUE)
  ELSE
  CASE e.ev = "req" ->
         LET pe == SettleEnd(p, 3)
             bad == IF pe.mode \in {"idle", "done"} /\ w0 = <<>> THEN {} ELSE {"PyOutcome"} IN
         S(bad, Settle(PyStart([Idle(pe) EXCEPT !.mode = "idle", !.pend = pe.pend], e.kind, e.need, e.have), 12), d0, q0, o0, <<>>, FALSE)
    [] e.ev = "w" ->
         IF w0 # <<>> /\ Head(w0).cmd = "end_request" /\ e.m.cmd = "path" /\ p.mode = "handler" THEN
             \* one more profile bashrc instead of end_request (their number is the caller's business)
             S({}, [p EXCEPT !.mode = "bashrc", !.sub = 1], d0, Append(q0, M(e.m)), o0, <<Msg("bashrcfile", "-", p.rid)>>, FALSE)
         ELSE IF w0 # <<>> THEN        \* a reaction to the line just read (inherit / bashrc / helper reply)
             S(IF SameW(Head(w0), M(e.m)) THEN {} ELSE {"PyWrite"}, p, d0, Append(q0, M(e.m)), o0, Tail(w0), FALSE)
         ELSE IF PyWriting(p) /\ SameW(Head(p.script).m, M(e.m))
         THEN S({}, Settle(Next1(p), 12), d0, Append(q0, M(e.m)), o0, <<>>, FALSE)
         ELSE LET ps == SettleEnd(p, 3) IN      \* maybe a probe was skipped (daemon already reaped)
              IF PyWriting(ps) /\ SameW(Head(ps.script).m, M(e.m))
              THEN S({}, Settle(Next1(ps), 12), d0, Append(q0, M(e.m)), o0, <<>>, FALSE)
              ELSE S({"PyWrite"}, p, d0, Append(q0, M(e.m)), o0, <<>>, FALSE)
    [] e.ev = "r" ->
         LET m == [M(e.m) EXCEPT !.data = (p.mode = "helper")]
             t == IF e.daemon = "real" /\ m.cmd # "EOF" THEN DEmit(d0, q0, o0, m, 8) ELSE DT(TRUE, d0, q0, o0)
             dbad == IF t.ok THEN {} ELSE {"DaemonConforms"}
             wbad == IF w0 = <<>> THEN {} ELSE {"PyWrite"}     \* a reaction line was never written
         IN IF ~PyReading(p) THEN S({"PyRead"} \cup dbad \cup wbad, p, t.d, t.c2d, t.dout, <<>>, FALSE)
            ELSE LET r == PyRead(p, m) IN
                 S(dbad \cup wbad \cup (IF r.mis THEN {"Misread"} ELSE {}),
                   Settle(r.py, 12), t.d, t.c2d, t.dout, r.w, m.cmd = "SIGTERM")
    [] e.ev = "end" ->
         LET pe == SettleEnd(p, 3) IN
         \* a write hit a closed pipe: the daemon is gone, the session is over (which write notices it
         \* first depends on a race with the daemon's exit)
         IF e.out = "EPIPE" THEN S({}, Idle(pe), d0, q0, o0, <<>>, TRUE)
         \* shutdown_processor() swallows a broken pipe / closed file while probing and goes on to
         \* kill + wait: same final value, fewer lines on the wire
         \* (only directly after a write: that is where the broken pipe is noticed)
         ELSE IF lw /\ ~fresh /\ InShutdown(p) /\ p.script[Len(p.script)].val = e.out THEN S({}, [Idle(p) EXCEPT !.closed = TRUE, !.mode = "done"], d0, q0, o0, <<>>, TRUE)
         ELSE IF pe.mode \in {"idle", "done"} /\ pe.out = e.out /\ w0 = <<>> THEN S({}, pe, d0, q0, o0, <<>>, FALSE)
         ELSE S({"PyOutcome"}, [Idle(pe) EXCEPT !.pend = pe.pend], d0, q0, o0, <<>>, FALSE)
    [] e.ev = "hang" -> S({"PyHang"}, Idle(p), d0, q0, o0, <<>>, FALSE)

TraceNext ==
  /\ l < Len(Tr) /\ l' = l + 1
  /\ LET e == Tr[l']
         s == Step(e) IN
     /\ py' = s.py /\ d' = s.d /\ c2d' = s.c2d /\ dout' = s.dout /\ pw' = s.pw /\ free' = s.free
     /\ lw' = (e.ev = "w")
     /\ Report(e.tid, e.i, s.bad)
  /\ EndMark(l')
TraceSpec == TraceInit /\ [][TraceNext]_<<l, py, d, c2d, dout, pw, free, lw>>
=========================================================================
