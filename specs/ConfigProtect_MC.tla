---------------------------- MODULE ConfigProtect_MC ----------------------------
(* Life cycle of ONE configuration file and its pending updates under every interleaving of
   package-manager steps (merge of a version shipping content c, unmerge of a version that
   recorded content c) and user steps (edit, accept a pending update, discard one, delete the
   file), for protected and unprotected locations; numbers are bounded by MaxNum.
   Variant = "spec"      the decision table of ConfigProtect.tla           (must satisfy everything)
           = "nonreuse"  always takes a fresh number (the code as found)   (must violate NoDuplicates)
           = "overwrite" no protection at all                              (must violate UserFileKept)
   The last two are vacuity guards: the driver requires TLC to find their violations.          *)
EXTENDS ConfigProtect, TLC
CONSTANTS Contents, MaxNum, Variant
VARIABLES live, pending, prot, last      \* last = [who, c]: who did the last step and with which content
vars == <<live, pending, prot, last>>

Init == live \in Contents \cup {None} /\ pending = <<>> /\ prot \in BOOLEAN /\ last = [who |-> "init", c |-> None]

Outcomes(new) ==
  CASE Variant = "spec"      -> MergeOutcomes(live, pending, new, prot, MaxNum)
    [] Variant = "nonreuse"  -> IF MustProtect(live, new, prot)
                                THEN {[live |-> live, pending |-> [k \in Numbers(pending) \cup {n} |-> IF k = n THEN new ELSE pending[k]]] :
                                        n \in {MaxNumber(pending) + 1} \cap 0..MaxNum}
                                ELSE {[live |-> new, pending |-> pending]}
    [] Variant = "overwrite" -> {[live |-> new, pending |-> pending]}

Merge(c)   == \E o \in Outcomes(c) : live' = o.live /\ pending' = o.pending /\ last' = [who |-> "pm-merge", c |-> c] /\ UNCHANGED prot
Unmerge(c) == /\ live # None
              /\ live' = IF Variant # "overwrite" /\ MustKeep(live, c, prot) THEN live ELSE None
              /\ last' = [who |-> "pm-unmerge", c |-> c] /\ UNCHANGED <<pending, prot>>
Edit(c)    == live' = c /\ last' = [who |-> "user", c |-> c] /\ UNCHANGED <<pending, prot>>
Delete     == live # None /\ live' = None /\ last' = [who |-> "user", c |-> None] /\ UNCHANGED <<pending, prot>>
Accept(n)  == /\ n \in Numbers(pending) /\ live' = pending[n]
              /\ pending' = [k \in Numbers(pending) \ {n} |-> pending[k]]
              /\ last' = [who |-> "user", c |-> pending[n]] /\ UNCHANGED prot
Discard(n) == /\ n \in Numbers(pending)
              /\ pending' = [k \in Numbers(pending) \ {n} |-> pending[k]]
              /\ last' = [who |-> "user", c |-> None] /\ UNCHANGED <<live, prot>>
Next == \/ \E c \in Contents : Merge(c) \/ Unmerge(c) \/ Edit(c)
        \/ Delete
        \/ \E n \in 0..MaxNum : Accept(n) \/ Discard(n)
Spec == Init /\ [][Next]_vars

TypeOK == live \in Contents \cup {None} /\ Numbers(pending) \subseteq 0..MaxNum
          /\ \A n \in Numbers(pending) : pending[n] \in Contents
\* reuse of identical pending updates: they never pile up
NoDuplicates == \A n, k \in Numbers(pending) : n # k => pending[n] # pending[k]
\* a package-manager step never changes or removes a protected file the user can still see
UserFileKept == [][(last'.who \in {"pm-merge", "pm-unmerge"} /\ prot /\ live # None)
                     => (live' = live \/ (last'.who = "pm-unmerge" /\ live = last'.c /\ live' = None))]_vars
\* ... nor any pending update
PendingUpdatesKept == [][last'.who \in {"pm-merge", "pm-unmerge"}
                     => \A n \in Numbers(pending) : n \in Numbers(pending') /\ pending'[n] = pending[n]]_vars
\* what a merge ships is never lost: it is the live file or one of the pending updates
ShippedAvailable == [][last'.who = "pm-merge" => (live' = last'.c \/ Holding(pending', last'.c) # {})]_vars
\* the table never runs out of numbers while at most |Contents| updates are pending ...
NumbersSuffice == (Variant = "spec" /\ MaxNumber(pending) < MaxNum) => \A c \in Contents : Outcomes(c) # {}
=========================================================================
