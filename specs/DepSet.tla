---------------------------- MODULE DepSet ----------------------------
(* C09 (shared by C10, C14): dependency-style strings of an ebuild
   (src/pkgcore/ebuild/conditionals.py, restrictions/boolean.py, packages.py).

   Text is a sequence of TOKENS (TLC cannot look inside strings; the driver only
   splits on white space and classifies each word):
       [k |-> "lp"|"rp"|"op"|"cond"|"leaf"|"arrow", v |-> name, neg |-> BOOLEAN]
   "op" : v \in {"||","^^","??"};  "cond": `v?` / `!v?`;  "leaf": an atom, licence,
   URI, file name, or (REQUIRED_USE) a flag / `!flag`;  "arrow": `->`.

   The structure (AST) is a sequence of nodes (the top level is an all-of group)
       [t |-> "leaf"|"all"|"any"|"one"|"amo"|"cond", v, neg, ren, ch |-> Seq(node)]

   PMS 8.2 grammar:  Parse(toks, F) \in {error, unspec, ok(nodes)} for a flavour F,
   Render(nodes), the meaning of a structure under a flag set U and a set T of
   satisfied leaf tokens, and Evaluate(nodes, U) (the conditional-free structure).

   What the property / PMS leave open is reported as "unspec" and never judged:
     * empty groups  `( )`, `|| ( )`, `u? ( )`           (EAPI dependent)
     * `->` anywhere but  leaf -> leaf  (not chained) or dangling at the very end
     * a plain `( ... )` group or an operator the flavour does not have
     * meaning: a group emptied by conditionals that sits INSIDE an any-of /
       exactly-one-of / at-most-one-of group (PMS: it "counts as matched";
       Portage and pkgcore: it vanishes).  Both readings are defined (mode
       "strict" / "reduce"); a point (U, T) where they differ is Unspecified.      *)
EXTENDS Naturals, Sequences, FiniteSets

(* ------------------------------ structure ------------------------------ *)
Leaf(v, neg)     == [t |-> "leaf", v |-> v, neg |-> neg, ren |-> "", ch |-> <<>>]
Renamed(v, r)    == [t |-> "leaf", v |-> v, neg |-> FALSE, ren |-> r, ch |-> <<>>]
Grp(t, ch)       == [t |-> t, v |-> "", neg |-> FALSE, ren |-> "", ch |-> ch]
Cond(f, neg, ch) == [t |-> "cond", v |-> f, neg |-> neg, ren |-> "", ch |-> ch]

GroupKinds == {"all", "any", "one", "amo"}
OpOf(t)    == CASE t = "any" -> "||" [] t = "one" -> "^^" [] t = "amo" -> "??" [] OTHER -> ""
KindOf(op) == CASE op = "||" -> "any" [] op = "^^" -> "one" [] op = "??" -> "amo" [] OTHER -> "all"

\* the token a leaf stands for when satisfaction is asked
LeafId(n) == IF n.ren = "" THEN n.v ELSE n.v \o " -> " \o n.ren

RECURSIVE Size(_), Leaves(_), Flags(_), HasCond(_), WellFormed(_), Kinds(_)
Size(ns)    == IF ns = <<>> THEN 0 ELSE 1 + Size(Head(ns).ch) + Size(Tail(ns))
Leaves(ns)  == IF ns = <<>> THEN {}
               ELSE (IF Head(ns).t = "leaf" THEN {LeafId(Head(ns))} ELSE Leaves(Head(ns).ch)) \cup Leaves(Tail(ns))
Flags(ns)   == IF ns = <<>> THEN {}
               ELSE (IF Head(ns).t = "cond" THEN {Head(ns).v} ELSE {}) \cup Flags(Head(ns).ch) \cup Flags(Tail(ns))
HasCond(ns) == IF ns = <<>> THEN FALSE ELSE Head(ns).t = "cond" \/ HasCond(Head(ns).ch) \/ HasCond(Tail(ns))
Kinds(ns)   == IF ns = <<>> THEN {} ELSE {Head(ns).t} \cup Kinds(Head(ns).ch) \cup Kinds(Tail(ns))
\* every group has at least one member, leaves have none
WellFormed(ns) == IF ns = <<>> THEN TRUE
                  ELSE /\ Head(ns).t \in GroupKinds \cup {"leaf", "cond"}
                       /\ IF Head(ns).t = "leaf" THEN Head(ns).ch = <<>>
                          ELSE Head(ns).ch # <<>> /\ WellFormed(Head(ns).ch)
                       /\ WellFormed(Tail(ns))

(* ------------------------------ tokens ------------------------------ *)
Tok(k, v, neg) == [k |-> k, v |-> v, neg |-> neg]
LP    == Tok("lp", "", FALSE)
RP    == Tok("rp", "", FALSE)
ARROW == Tok("arrow", "", FALSE)

RECURSIVE RenderSeq(_), RenderNode(_)
RenderNode(n) ==
  CASE n.t = "leaf" -> IF n.ren = "" THEN <<Tok("leaf", n.v, n.neg)>>
                       ELSE <<Tok("leaf", n.v, FALSE), ARROW, Tok("leaf", n.ren, FALSE)>>
    [] n.t = "cond" -> <<Tok("cond", n.v, n.neg), LP>> \o RenderSeq(n.ch) \o <<RP>>
    [] n.t = "all"  -> <<LP>> \o RenderSeq(n.ch) \o <<RP>>
    [] OTHER        -> <<Tok("op", OpOf(n.t), FALSE), LP>> \o RenderSeq(n.ch) \o <<RP>>
RenderSeq(ns) == IF ns = <<>> THEN <<>> ELSE RenderNode(Head(ns)) \o RenderSeq(Tail(ns))
Render(ns) == RenderSeq(ns)

(* ------------------------------ flavours ------------------------------ *)
\* ops: operators of the flavour; plain: `( ... )` groups; arrows: SRC_URI renames
Flavour(ops, plain, arrows) == [ops |-> ops, plain |-> plain, arrows |-> arrows]
FlavourOf(name) ==
  CASE name = "dep"          -> Flavour({"||"}, TRUE, FALSE)
    [] name = "license"      -> Flavour({"||"}, TRUE, FALSE)
    [] name = "restrict"     -> Flavour({}, FALSE, FALSE)
    [] name = "src_uri"      -> Flavour({}, FALSE, TRUE)
    [] name = "required_use" -> Flavour({"||", "^^", "??"}, TRUE, FALSE)
FlavourNames == {"dep", "license", "restrict", "src_uri", "required_use"}
\* the structures a flavour can write down
InFlavour(ns, F) == /\ \A t \in Kinds(ns) \ {"leaf", "cond", "all"} : OpOf(t) \in F.ops
                    /\ ("all" \in Kinds(ns) => F.plain)

(* ------------------------------ parsing ------------------------------ *)
Opens(toks, k)  == Cardinality({j \in 1..k : toks[j].k = "lp"})
Closes(toks, k) == Cardinality({j \in 1..k : toks[j].k = "rp"})
Unbalanced(toks) == \/ \E k \in DOMAIN toks : Closes(toks, k) > Opens(toks, k)
                    \/ Opens(toks, Len(toks)) # Closes(toks, Len(toks))
\* a `->` in the regular position: after a leaf that is not itself a rename target
ArrowAfterLeaf(toks, k) == k > 1 /\ toks[k-1].k = "leaf" /\ ~toks[k-1].neg /\ ~(k > 2 /\ toks[k-2].k = "arrow")
RegularArrow(toks, k)   == ArrowAfterLeaf(toks, k) /\ k < Len(toks) /\ toks[k+1].k = "leaf" /\ ~toks[k+1].neg
TrailingArrow(toks, k)  == ArrowAfterLeaf(toks, k) /\ k = Len(toks)
\* an operator / conditional that is not followed by its group, a rename without a name
Dangling(toks) == \E k \in DOMAIN toks :
                    \/ toks[k].k \in {"op", "cond"} /\ (k = Len(toks) \/ toks[k+1].k # "lp")
                    \/ toks[k].k = "arrow" /\ TrailingArrow(toks, k)
\* left open (see header)
IrregularArrow(toks) == \E k \in DOMAIN toks : toks[k].k = "arrow" /\ ~RegularArrow(toks, k) /\ ~TrailingArrow(toks, k)
EmptyGroup(toks)     == \E k \in DOMAIN toks : toks[k].k = "lp" /\ k < Len(toks) /\ toks[k+1].k = "rp"
OutsideFlavour(toks, F) == \E k \in DOMAIN toks :
                             \/ toks[k].k = "op" /\ toks[k].v \notin F.ops
                             \/ toks[k].k = "lp" /\ ~F.plain /\ (k = 1 \/ toks[k-1].k \notin {"op", "cond"})

(* recursive descent over a balanced, non-dangling token sequence without open points:
   PSeq returns the nodes up to (not including) the closing paren / the end *)
RECURSIVE PSeq(_, _)
PGroup(toks, at, mk(_)) ==           \* toks[at] = "lp"
  LET inner == PSeq(toks, at + 1) IN [nodes |-> <<mk(inner.nodes)>>, pos |-> inner.pos + 1]
PItem(toks, pos) ==
  LET tk == toks[pos] IN
  CASE tk.k = "leaf" ->
         IF pos < Len(toks) /\ toks[pos+1].k = "arrow"
         THEN [nodes |-> <<Renamed(tk.v, toks[pos+2].v)>>, pos |-> pos + 3]
         ELSE [nodes |-> <<Leaf(tk.v, tk.neg)>>, pos |-> pos + 1]
    [] tk.k = "lp"   -> PGroup(toks, pos, LAMBDA ch : Grp("all", ch))
    [] tk.k = "op"   -> PGroup(toks, pos + 1, LAMBDA ch : Grp(KindOf(tk.v), ch))
    [] tk.k = "cond" -> PGroup(toks, pos + 1, LAMBDA ch : Cond(tk.v, tk.neg, ch))
PSeq(toks, pos) ==
  IF pos > Len(toks) \/ toks[pos].k = "rp" THEN [nodes |-> <<>>, pos |-> pos]
  ELSE LET it == PItem(toks, pos)
           rest == PSeq(toks, it.pos)
       IN [nodes |-> it.nodes \o rest.nodes, pos |-> rest.pos]

Parse(toks, F) ==
  IF IrregularArrow(toks) \/ (~F.arrows /\ \E k \in DOMAIN toks : toks[k].k = "arrow")
  THEN [st |-> "unspec", nodes |-> <<>>]
  ELSE IF Unbalanced(toks) \/ Dangling(toks) THEN [st |-> "error", nodes |-> <<>>]
  ELSE IF EmptyGroup(toks) \/ OutsideFlavour(toks, F) THEN [st |-> "unspec", nodes |-> <<>>]
  ELSE [st |-> "ok", nodes |-> PSeq(toks, 1).nodes]

(* ------------------------------ meaning ------------------------------ *)
CondOn(n, U) == (n.v \in U) # n.neg

\* "T" matched, "F" not matched, "V" vacuous: nothing is asked
AllOf(vs) == IF \E k \in DOMAIN vs : vs[k] = "F" THEN "F"
             ELSE IF \A k \in DOMAIN vs : vs[k] = "V" THEN "V" ELSE "T"

RECURSIVE Val(_, _, _, _)
Val(n, U, T, mode) ==
  LET vs == [k \in DOMAIN n.ch |-> Val(n.ch[k], U, T, mode)] IN
  CASE n.t = "leaf" -> IF (LeafId(n) \in T) # n.neg THEN "T" ELSE "F"
    [] n.t = "cond" -> IF CondOn(n, U) THEN AllOf(vs) ELSE "V"
    [] n.t = "all"  -> AllOf(vs)
    [] OTHER ->
       \* members of an any-of style group: a disabled conditional that is an immediate child is
       \* no member (PMS 8.2.3); "reduce" also drops every other member that became vacuous,
       \* "strict" counts such a member as matched
       LET Dropped(k) == IF mode = "reduce" THEN vs[k] = "V"
                         ELSE n.ch[k].t = "cond" /\ ~CondOn(n.ch[k], U)
           mem  == {k \in DOMAIN vs : ~Dropped(k)}
           nhit == Cardinality({k \in mem : vs[k] # "F"})
       IN IF mem = {} THEN "V"             \* emptied by conditionals: counts as satisfied
          ELSE LET ok == (CASE n.t = "any" -> nhit >= 1
                                [] n.t = "one" -> nhit = 1
                                [] n.t = "amo" -> nhit <= 1)
               IN IF ok THEN "T" ELSE "F"

SatMode(ns, U, T, mode) == AllOf([k \in DOMAIN ns |-> Val(ns[k], U, T, mode)]) # "F"
Sat(ns, U, T)    == SatMode(ns, U, T, "reduce")
Unspec(ns, U, T) == SatMode(ns, U, T, "reduce") # SatMode(ns, U, T, "strict")

\* Only a structure with a conditional somewhere below a group / conditional that is a member of an
\* any-of style group can have an unspecified point (elsewhere the two readings coincide; DepSet_MC
\* checks this), so the second reading is evaluated for such structures only.
RECURSIVE Risky(_)
Risky(ns) == IF ns = <<>> THEN FALSE
             ELSE \/ /\ Head(ns).t \in {"any", "one", "amo"}
                     /\ \E k \in DOMAIN Head(ns).ch : Head(ns).ch[k].t # "leaf" /\ HasCond(Head(ns).ch[k].ch)
                  \/ Risky(Head(ns).ch) \/ Risky(Tail(ns))
(* ------------------------------ evaluation ------------------------------ *)
(* reference: enabled conditionals are replaced by their contents (kept together as an all-of
   group unless the parent is one), disabled ones and everything emptied by them vanish *)
RECURSIVE EvSeq(_, _, _)
EvNode(n, U, parent) ==
  CASE n.t = "leaf" -> <<n>>
    [] n.t = "cond" -> IF ~CondOn(n, U) THEN <<>>
                       ELSE LET r == EvSeq(n.ch, U, "all") IN
                            IF parent = "all" \/ Len(r) <= 1 THEN r ELSE <<Grp("all", r)>>
    [] OTHER        -> LET r == EvSeq(n.ch, U, n.t) IN IF r = <<>> THEN <<>> ELSE <<Grp(n.t, r)>>
EvSeq(ns, U, parent) == IF ns = <<>> THEN <<>> ELSE EvNode(Head(ns), U, parent) \o EvSeq(Tail(ns), U, parent)
Evaluate(ns, U) == EvSeq(ns, U, "all")

(* ------------------------------ comparing meanings ------------------------------ *)
\* Sat(a, U, T) looks only at the leaves that are reachable under U, i.e. Leaves(Evaluate(a, U))
\* (checked by DepSet_MC), so T ranges over those.
\* same meaning wherever the reference structure a is specified
SameMeaning(a, b, flags) ==
  LET risky == Risky(a) IN
  \A U \in SUBSET flags : \A T \in SUBSET (Leaves(Evaluate(a, U)) \cup Leaves(Evaluate(b, U))) :
     (risky /\ Unspec(a, U, T)) \/ Sat(a, U, T) = Sat(b, U, T)
\* b is a evaluated under U
EvaluatedMeaning(a, U, b) ==
  LET risky == Risky(a) IN
  \A T \in SUBSET (Leaves(Evaluate(a, U)) \cup Leaves(b)) : (risky /\ Unspec(a, U, T)) \/ Sat(b, {}, T) = Sat(a, U, T)

(* ------------------------------ corruptions ------------------------------ *)
\* one-token corruptions of a token sequence: drop, duplicate, insert a foreign token
ExtraToks == {LP, RP, ARROW, Tok("op", "||", FALSE), Tok("cond", "u", FALSE), Tok("leaf", "zz/zz", FALSE)}
DropTok(s, k)   == SubSeq(s, 1, k - 1) \o SubSeq(s, k + 1, Len(s))
InsTok(s, k, x) == SubSeq(s, 1, k) \o <<x>> \o SubSeq(s, k + 1, Len(s))
Corruptions(s)  == {DropTok(s, k) : k \in DOMAIN s} \cup {InsTok(s, k, s[k]) : k \in DOMAIN s}
                   \cup {InsTok(s, k, x) : <<k, x>> \in (0..Len(s)) \X ExtraToks}

(* ------------------------------ enumeration ------------------------------ *)
\* every well-formed structure with exactly / at most n nodes over leaves L, group kinds K, flags C
RECURSIVE ForestsN(_, _, _, _), NodesN(_, _, _, _)
NodesN(L, K, C, n) == IF n = 1 THEN L
                      ELSE {Grp(x[1], x[2]) : x \in K \X ForestsN(L, K, C, n - 1)}
                           \cup {Cond(x[1][1], x[1][2], x[2]) : x \in (C \X BOOLEAN) \X ForestsN(L, K, C, n - 1)}
ForestsN(L, K, C, n) == IF n = 0 THEN {<<>>}
                        ELSE UNION {{<<x[1]>> \o x[2] : x \in NodesN(L, K, C, k) \X ForestsN(L, K, C, n - k)} : k \in 1..n}
ForestsUpTo(L, K, C, m) == UNION {ForestsN(L, K, C, n) : n \in 0..m}
=========================================================================
