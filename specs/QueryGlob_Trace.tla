---------------------------- MODULE QueryGlob_Trace ----------------------------
(* Judge of recorded parse_match() observations.
   {tid, i:0, ev:"universe" (sets the universe for the following events), pkgs:[{cat,pkg,ver,slot,sub,repo : [chars]}]}
   other  = {tid, i, ev:"query", text:[chars], raised:BOOL, sel:[BOOL per package of the universe]}
   Clauses: RejectBlocker (a text with "!" was accepted), Accept (an in-grammar query was refused),
   Extra_<field> (a selected package whose <field> does not satisfy the query), Missing (a matching
   package was not selected).  Informational: "~unspec" (text outside the specified grammar,
   counted, not judged), "~reject", "~query".                                                 *)
EXTENDS QueryGlob, TraceLib
VARIABLES l, uni
AsUniverse(e) == [k \in DOMAIN e.pkgs |-> [cat |-> e.pkgs[k].cat, pkg |-> e.pkgs[k].pkg, ver |-> ParseVer(e.pkgs[k].ver),
                                          slot |-> e.pkgs[k].slot, sub |-> e.pkgs[k].sub, repo |-> e.pkgs[k].repo]]
UniverseOK(u) == \A k \in DOMAIN u : u[k].ver.ok /\ PlainVer(u[k].ver)
Judge(e, u) ==
    LET q == ParseQ(e.text) IN
    IF q.kind = "reject" THEN {"~reject"} \cup (IF e.raised THEN {} ELSE {"RejectBlocker"})
    ELSE IF q.kind = "unspec" THEN {"~unspec"}
    ELSE IF e.raised THEN {"~query", "Accept"}
    ELSE LET ff == [k \in DOMAIN u |-> FieldFails(q, u[k])]      \* Selects(q, u[k]) <=> ff[k] = {}
             extra == {k \in DOMAIN u : e.sel[k] /\ ff[k] # {}}
             missing == {k \in DOMAIN u : ~e.sel[k] /\ ff[k] = {}}
         IN {"~query"} \cup {"Extra_" \o f : f \in UNION {ff[k] : k \in extra}}
            \cup (IF missing = {} THEN {} ELSE {"Missing"})
TraceInit == l = 0 /\ uni = <<>>
TraceNext == /\ l < Len(Tr)
             /\ l' = l + 1
             /\ LET e == Tr[l'] IN
                IF e.ev = "universe"
                THEN /\ uni' = AsUniverse(e)
                     /\ Report(e.tid, e.i, IF UniverseOK(uni') THEN {} ELSE {"OutsideDomain"})
                ELSE /\ uni' = uni
                     /\ Report(e.tid, e.i, IF Len(e.sel) = Len(uni) THEN Judge(e, uni) ELSE {"OutsideDomain"})
             /\ EndMark(l')
TraceSpec == TraceInit /\ [][TraceNext]_<<l, uni>>
=========================================================================
