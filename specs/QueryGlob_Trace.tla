---------------------------- MODULE QueryGlob_Trace ----------------------------
(* Judge of recorded parse_match() observations.
   Tr[1] = {tid:-1, i:0, ev:"universe", pkgs:[{cat,pkg,ver,slot,sub,repo : [chars]}]}
   other  = {tid, i, ev:"query", text:[chars], raised:BOOL, sel:[BOOL per package of the universe]}
   Clauses: RejectBlocker (a text with "!" was accepted), Accept (an in-grammar query was refused),
   Extra_<field> (a selected package whose <field> does not satisfy the query), Missing (a matching
   package was not selected).  Informational: "~unspec" (text outside the specified grammar,
   counted, not judged), "~reject", "~query".                                                 *)
EXTENDS QueryGlob, TraceLib
VARIABLE l
H == Tr[1]
UPk == [k \in DOMAIN H.pkgs |-> [cat |-> H.pkgs[k].cat, pkg |-> H.pkgs[k].pkg, ver |-> ParseVer(H.pkgs[k].ver),
                                 slot |-> H.pkgs[k].slot, sub |-> H.pkgs[k].sub, repo |-> H.pkgs[k].repo]]
UniverseOK == \A k \in DOMAIN UPk : UPk[k].ver.ok /\ PlainVer(UPk[k].ver)
Judge(e) ==
    LET q == ParseQ(e.text) IN
    IF ~UniverseOK THEN {"OutsideDomain"}
    ELSE IF q.kind = "reject" THEN {"~reject"} \cup (IF e.raised THEN {} ELSE {"RejectBlocker"})
    ELSE IF q.kind = "unspec" THEN {"~unspec"}
    ELSE IF e.raised THEN {"~query", "Accept"}
    ELSE LET extra == {k \in DOMAIN UPk : e.sel[k] /\ ~Selects(q, UPk[k])}
             missing == {k \in DOMAIN UPk : ~e.sel[k] /\ Selects(q, UPk[k])}
         IN {"~query"} \cup {"Extra_" \o f : f \in UNION {FieldFails(q, UPk[k]) : k \in extra}}
            \cup (IF missing = {} THEN {} ELSE {"Missing"})
TraceInit == l = 1
TraceNext == /\ l < Len(Tr)
             /\ l' = l + 1
             /\ Report(Tr[l'].tid, Tr[l'].i, Judge(Tr[l']))
             /\ EndMark(l')
TraceSpec == TraceInit /\ [][TraceNext]_l
=========================================================================
