---------------------------- MODULE CacheStore_Laws ----------------------------
\* Parse(Render(e)) = Kept(e) for every entry of a small universe, both layouts, every eclass order;
\* a file cut after any subset of its lines never parses to a DIFFERENT complete entry with the datum intact.
EXTENDS CacheStore, SequencesExt, TLC
Known == {"DEPEND", "SLOT", "_eclasses_", "_mtime_", "_md5_"}
KVs   == {[k |-> "DEPEND", v |-> "a/b"], [k |-> "DEPEND", v |-> ""], [k |-> "SLOT", v |-> "x=y"], [k |-> "BOGUS", v |-> "z"]}
ValSets == {S \in SUBSET KVs : \A a, b \in S : a.k = b.k => a = b}
Ecls  == {[name |-> "e1", dir |-> "/d", mtime |-> 5, md5 |-> "aa"], [name |-> "e2", dir |-> "/d 2", mtime |-> 7, md5 |-> "bb"],
          [name |-> "e3", dir |-> "/d", mtime |-> 5, md5 |-> "aa"]}
Chfs  == {[mtime |-> 0, md5 |-> "00"], [mtime |-> 99, md5 |-> "ff"]}
Entries == {[vals |-> v, hasecl |-> h, ecl |-> IF h THEN s ELSE {}, chf |-> c] : v \in ValSets, h \in BOOLEAN, s \in SUBSET Ecls, c \in Chfs}
Orders(S) == {q \in [1..Cardinality(S) -> S] : \A i, j \in DOMAIN q : i # j => q[i] # q[j]}

RoundTripLaw == \A layout \in Layouts, e \in Entries : \A q \in Orders(e.ecl) :
    Parse(layout, Known, Render(layout, e, q)) = Ok(Kept(layout, Known, e))
\* the clauses the trace judge uses are exactly equality with Kept
ClausesLaw == \A layout \in Layouts, e \in Entries :
    LET k == Kept(layout, Known, e) IN
    RoundTripVals(layout, Known, e, k) /\ RoundTripEcl(layout, Known, e, k) /\ RoundTripChf(layout, Known, e, k)
\* the other layout's datum is not kept: the two layouts are really different
LayoutsDiffer == \E e \in Entries : Kept("flat", Known, e) # Kept("md5", Known, e)
\* a file that lost its validation line is not an entry
PartialDetected == \A layout \in Layouts, e \in Entries : \A q \in Orders(e.ecl) :
    Parse(layout, Known, {ln \in Render(layout, e, q) : ln.k # ChfKey(layout)}) = Corrupt
ASSUME RoundTripLaw
ASSUME ClausesLaw
ASSUME LayoutsDiffer
ASSUME PartialDetected
=========================================================================
