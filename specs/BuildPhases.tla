------------------------------ MODULE BuildPhases ------------------------------
(* G02 (growth area) - the phase state machine of package building / merging operations.

   What a caller of pkgcore's build / install / uninstall / replace operation objects relies on
   (operations/format.py stage_depends + snakeoil ForcedDepends, ebuild/ebd.py ebd / buildable /
   install_op / uninstall_op / replace_op / binpkg_localize, run_generic_phase, scripts/pebuild.py):

     * Chain        every public stage method first runs the stages before it, in the order PMS
                    prescribes (pkg_setup, src_unpack, src_prepare, src_configure, src_compile,
                    src_test, src_install; pkg_preinst, pkg_postinst; pkg_prerm, pkg_postrm; for an
                    upgrade pkg_preinst(new), pkg_prerm(old), pkg_postrm(old), pkg_postinst(new));
     * AtMostOnce   a stage that completed is never run again by the same object, and - because
                    every completed stage leaves a stamp `.<stage>` in the build directory which
                    `_reload_state` reads back - not by a later process that resumes either;
     * OnlyAfter    a stage runs only when all its predecessors completed: a failure stops the
                    walk, the failed stage is neither recorded nor stamped, a retry starts at it;
     * Skips        which ebuild phases are really sent to the ebuild processor (PhaseOf: phases
                    the ebuild / the EAPI defaults do not define are skipped, src_prepare and
                    src_configure exist from EAPI 2, src_test needs FEATURES/USE/RESTRICT,
                    pkg_preinst is forced by selinux / suidctl), with which privileges (UPh / SBh);
     * Failure      what each way a phase can end does to the processor (Handle: a processor that
                    failed is shut down before it is released, which exception the caller sees),
                    src_prepare without eapply_user (EAPI 6+) fails the stage after the phase ran;
     * Cleanup      cleanup() removes the build directory (and with it every stamp, the saved
                    environment and the eapply_user marker) iff forced or start() ran on this
                    object - in particular after a failure; start() of an object built with
                    clean=True wipes what an earlier failed build left;
     * Fetch        distfiles are fetched (once per object) when src_unpack is about to run, not
                    before pkg_setup;
     * Api          the operations API (operations/__init__.py base): an operation is offered iff
                    it is standalone or implemented, its support check does not refuse it, and the
                    overrides say so; only offered operations exist as attributes; PkgcoreExceptions
                    leave an operation as OperationError, everything else unchanged.

   Deviations of the implementation that are modelled as such (named operators, not flagged):
     * LocalizeSetupSkipped: binpkg_localize asks for phase "setup-binpkg", which is never a
       member of pkg.mandatory_phases, so pkg_setup is not run for binary packages;
     * ReloadKeepsMemory: _reload_state on a missing build directory leaves the in-memory stage
       set as it is (it does not reset it);
     * LeakOn: an IpcInternalError or a KeyboardInterrupt leaves the processor un-released.

   This module has no variables: BuildPhases_MC / _Sim build the state machine from these
   operators, BuildPhases_Trace judges recorded executions of the real classes with them.
   StopOnFailure / StampFailed are the vacuity switches (intended TRUE / FALSE).              *)
EXTENDS Naturals, Sequences, FiniteSets
CONSTANTS StopOnFailure, StampFailed

(* ------------------------------------------------------------------ stage chains *)
Chain(kind) ==
  CASE kind = "build"     -> <<"start", "setup", "unpack", "prepare", "configure", "compile", "test", "install", "finalize">>
    [] kind = "install"   -> <<"start", "preinst", "postinst", "finalize">>
    [] kind = "uninstall" -> <<"start", "prerm", "postrm", "finalize">>
    [] kind = "replace"   -> <<"start", "preinst", "prerm", "postrm", "postinst", "finalize">>
    [] kind = "localize"  -> <<"start", "setup", "finalize">>
Kinds == {"build", "install", "uninstall", "replace", "localize"}
StagesOf(kind) == {Chain(kind)[k] : k \in 1..Len(Chain(kind))}
Pos(kind, s) == CHOOSE k \in 1..Len(Chain(kind)) : Chain(kind)[k] = s
DepsSeq(kind, s) == SubSeq(Chain(kind), 1, Pos(kind, s))
DepsSet(kind, s) == {Chain(kind)[k] : k \in 1..Pos(kind, s)}
DepClosed(kind, set) == \A s \in set \cap StagesOf(kind) : DepsSet(kind, s) \subseteq set

(* ------------------------------------------------------------------ which phase a stage runs *)
PhaseNames == {"setup", "unpack", "prepare", "configure", "compile", "test", "install",
               "preinst", "postinst", "prerm", "postrm"}
ScriptKeys == PhaseNames \cup {"fetch"}
\* phases the package manager runs even when the ebuild does not define them (pkgcore:
\* eapi.default_phases - the PMS default implementations plus pkg_setup, which initialises the env)
DefaultPhases(eapi) == {"setup", "unpack", "compile", "test"}
                         \cup (IF eapi >= 2 THEN {"prepare", "configure"} ELSE {})
                         \cup (IF eapi >= 4 THEN {"install"} ELSE {})
Mandatory(cfg) == cfg.defined \cup DefaultPhases(cfg.eapi)
RunTest(cfg) == "test" \notin cfg.restrict /\ (cfg.forceTest \/ ("test" \in cfg.features /\ cfg.useTest))
FailOk(cfg) == "test-fail-continue" \in cfg.features
PreinstForced(cfg) == cfg.features \cap {"selinux", "suidctl"} # {}
LocalizeSetupSkipped == TRUE
PhaseOf(lk, cfg, s) ==
  CASE s \in {"start", "finalize"} -> ""
    [] s = "setup"   -> IF lk = "localize" /\ LocalizeSetupSkipped THEN "" ELSE IF "setup" \in Mandatory(cfg) THEN "setup" ELSE ""
    [] s \in {"prepare", "configure"} -> IF cfg.eapi >= 2 /\ s \in Mandatory(cfg) THEN s ELSE ""
    [] s = "test"    -> IF RunTest(cfg) /\ "test" \in Mandatory(cfg) THEN "test" ELSE ""
    [] s = "preinst" -> IF "preinst" \in Mandatory(cfg) \/ PreinstForced(cfg) THEN "preinst" ELSE ""
    [] OTHER         -> IF s \in Mandatory(cfg) THEN s ELSE ""
TopLeafKind(kind) == IF kind = "replace" THEN "install" ELSE kind
\* the phases a complete run of the operation sends to the processor, in order
PhaseSeq(cfg) == SelectSeq(Chain(cfg.kind), LAMBDA s : PhaseOf(TopLeafKind(cfg.kind), cfg, s) # "")

\* privileges asked for (effective when the FEATURE is on and not RESTRICTed; uid 0 assumed)
UPh(ph) == ph \in {"unpack", "prepare", "configure", "compile", "test"}
SBh(ph) == ph \in {"setup", "unpack", "prepare", "configure", "compile", "test", "install"}
Userpriv(cfg) == "userpriv" \in cfg.features /\ "userpriv" \notin cfg.restrict
Sandbox(cfg)  == "sandbox" \in cfg.features /\ "sandbox" \notin cfg.restrict
\* REPLACING_VERSIONS / REPLACED_BY_VERSION are exported from EAPI 4 on
Repl(cfg, which) == IF cfg.eapi >= 4 THEN which ELSE "none"

(* ------------------------------------------------------------------ how a phase can end *)
Outcomes == {"ok", "ok_nomark", "false", "die", "ipc", "ipcint", "crash", "runtime", "intr"}
OkH == [exc |-> "", shut |-> "no", rel |-> TRUE, wrote |-> FALSE]
Handle(out, fa) ==
  CASE out \in {"ok", "ok_nomark"} -> OkH
    [] out = "false"   -> IF fa THEN OkH ELSE [exc |-> "GenericBuildError", shut |-> "normal", rel |-> TRUE, wrote |-> FALSE]
    [] out = "die"     -> [exc |-> "ProcessorError", shut |-> "normal", rel |-> TRUE, wrote |-> FALSE]
    [] out = "ipc"     -> [exc |-> "GenericBuildError", shut |-> "normal", rel |-> TRUE, wrote |-> TRUE]
    [] out = "ipcint"  -> [exc |-> "Cause", shut |-> "force", rel |-> FALSE, wrote |-> TRUE]
    [] out = "crash"   -> [exc |-> "GenericBuildError", shut |-> "normal", rel |-> TRUE, wrote |-> FALSE]
    [] out = "runtime" -> [exc |-> "RuntimeError", shut |-> "normal", rel |-> TRUE, wrote |-> FALSE]
    [] out = "intr"    -> [exc |-> "KeyboardInterrupt", shut |-> "no", rel |-> FALSE, wrote |-> FALSE]
LeakOn == {"ipcint", "intr"}
FailureAllowed(cfg, s) == (s = "test" /\ FailOk(cfg)) \/ s = "postrm"

Entry(cfg, ph, repl, h) == [ph |-> ph, up |-> Userpriv(cfg) /\ UPh(ph), sb |-> Sandbox(cfg) /\ SBh(ph), repl |-> repl,
                            shut |-> h.shut, rel |-> h.rel, wrote |-> h.wrote]
FetchEntry == [ph |-> "fetch", up |-> FALSE, sb |-> FALSE, repl |-> "none", shut |-> "no", rel |-> FALSE, wrote |-> FALSE]

(* ------------------------------------------------------------------ one ebd object ("leaf")
   done    stages recorded in memory (_stage_state)       dir     build directory exists
   stamps  `.<stage>` files in the build directory        cn      clean_needed
   env     T/environment: "absent" | "pkg" (the package's saved environment) | "other" (a phase saved it)
   cas     built with clean=True                          vf      verified distfiles known
   mark    T/.user_patches_applied exists                                               *)
Leaf0 == [done |-> {}, dir |-> FALSE, stamps |-> {}, cn |-> FALSE, env |-> "absent", cas |-> FALSE, vf |-> FALSE, mark |-> FALSE]
HasEnvSource(lk) == lk # "build"
Wipe(leaf) == [leaf EXCEPT !.dir = FALSE, !.stamps = {}, !.env = "absent", !.mark = FALSE]
CleanEffective(leaf, force) == (force \/ leaf.cn) /\ leaf.dir
CleanupLeaf(leaf, force) == IF CleanEffective(leaf, force) THEN Wipe(leaf) ELSE leaf
StartLeaf(leaf, lk) ==
  LET l1 == IF leaf.cas THEN CleanupLeaf([leaf EXCEPT !.cn = TRUE], FALSE) ELSE leaf
  IN [l1 EXCEPT !.dir = TRUE, !.cn = TRUE, !.env = IF HasEnvSource(lk) THEN "pkg" ELSE l1.env]
MarkDone(leaf, s) == [leaf EXCEPT !.done = @ \cup {s}, !.stamps = IF leaf.dir THEN @ \cup {s} ELSE @]
FreshLeaf(leaf, cfg, cas) == [leaf EXCEPT !.done = {}, !.cn = FALSE, !.cas = cas, !.vf = cfg.prefetched]
ReloadKeepsMemory == TRUE
ReloadLeaf(leaf) == IF leaf.dir THEN [leaf EXCEPT !.done = leaf.stamps]
                    ELSE IF ReloadKeepsMemory THEN leaf ELSE [leaf EXCEPT !.done = {}]

\* observer notifications: stage methods wrapped by decorate_build_method
Decorated(lk, s) == \/ lk = "build" /\ s \in {"setup", "compile", "test", "install"}
                    \/ lk = "install" /\ s \in {"preinst", "postinst"}
                    \/ lk = "uninstall" /\ s \in {"prerm", "postrm"}
Note(s, ok) == [st |-> s, ok |-> ok]

\* result of running the body of one stage: [leaf, ran, notes, exc]
PhaseRun(leaf, lk, cfg, repl, s, script) ==
  LET ph == PhaseOf(lk, cfg, s) IN
  IF ph = "" THEN [leaf |-> leaf, ran |-> <<>>, exc |-> ""]
  ELSE LET out == script[ph]
           h == Handle(out, FailureAllowed(cfg, s))
           \* the daemon saves the environment into T after every phase that completed (not after pkg_postrm)
           l0 == IF out \in {"ok", "ok_nomark"} /\ ph # "postrm" THEN [leaf EXCEPT !.env = "other"] ELSE leaf
           l1 == IF s = "prepare" /\ out = "ok" THEN [l0 EXCEPT !.mark = TRUE] ELSE l0
           unmarked == s = "prepare" /\ cfg.eapi >= 6 /\ ~l1.mark
       IN [leaf |-> l1, ran |-> <<Entry(cfg, ph, repl, h)>>,
           exc |-> IF h.exc # "" THEN h.exc ELSE IF unmarked THEN "GenericBuildError" ELSE ""]
StageBody(leaf, lk, cfg, repl, s, script) ==
  CASE s = "start" -> [leaf |-> StartLeaf(leaf, lk), ran |-> <<>>, exc |-> "",
                       notes |-> IF leaf.cas /\ leaf.dir THEN <<Note("cleanup", TRUE)>> ELSE <<>>]
    [] s = "unpack" ->
         LET need == ~leaf.vf
             ffail == need /\ script["fetch"] # "ok"
             l1 == IF need /\ ~ffail THEN [leaf EXCEPT !.vf = TRUE] ELSE leaf
             r == PhaseRun(l1, lk, cfg, repl, s, script)
         IN IF ffail THEN [leaf |-> leaf, ran |-> <<FetchEntry>>, exc |-> "FetchError", notes |-> <<>>]
            ELSE [leaf |-> r.leaf, ran |-> (IF need THEN <<FetchEntry>> ELSE <<>>) \o r.ran, exc |-> r.exc, notes |-> <<>>]
    [] OTHER -> LET r == PhaseRun(leaf, lk, cfg, repl, s, script)
                IN [leaf |-> r.leaf, ran |-> r.ran, exc |-> r.exc,
                    notes |-> IF Decorated(lk, s) THEN <<Note(s, r.exc = "")>> ELSE <<>>]

Acc0 == [ran |-> <<>>, notes |-> <<>>, oks |-> <<>>]
\* ForcedDepends: walk the chain, skip recorded stages, stop at the first failure
RECURSIVE LeafWalk(_, _, _, _, _, _, _, _)
LeafWalk(leaf, lk, cfg, repl, chain, k, script, acc) ==
  IF k > Len(chain) THEN [leaf |-> leaf, ran |-> acc.ran, notes |-> acc.notes, oks |-> acc.oks, exc |-> ""]
  ELSE LET s == chain[k] IN
       IF s \in leaf.done THEN LeafWalk(leaf, lk, cfg, repl, chain, k + 1, script, acc)
       ELSE LET r == StageBody(leaf, lk, cfg, repl, s, script)
                failed == r.exc # ""
                acc2 == [ran |-> acc.ran \o r.ran, notes |-> acc.notes \o r.notes,
                         oks |-> IF ~failed /\ PhaseOf(lk, cfg, s) # "" THEN Append(acc.oks, s) ELSE acc.oks]
                l2 == IF ~failed \/ StampFailed THEN MarkDone(r.leaf, s) ELSE r.leaf
            IN IF failed /\ StopOnFailure
               THEN [leaf |-> l2, ran |-> acc2.ran, notes |-> acc2.notes, oks |-> acc2.oks, exc |-> r.exc]
               ELSE LeafWalk(l2, lk, cfg, repl, chain, k + 1, script, acc2)
LeafCall(leaf, lk, cfg, repl, stage, ignore, script) ==
  LeafWalk(leaf, lk, cfg, repl, IF ignore THEN <<stage>> ELSE DepsSeq(lk, stage), 1, script, Acc0)

(* ------------------------------------------------------------------ operation objects
   S = [top, a, b]: for the leaf kinds the object is a (top unused, b blank); a replace_op has its
   own recorded stages (top) and two halves: a = install_op(new), b = uninstall_op(old).       *)
Blank == [top |-> {}, a |-> Leaf0, b |-> Leaf0]
NewSession(S, cfg, cas) == [top |-> {}, a |-> FreshLeaf(S.a, cfg, cas),
                            b |-> IF cfg.kind = "replace" THEN FreshLeaf(S.b, cfg, FALSE) ELSE S.b]

ReplBody(S, cfg, s, script) ==
  LET viaA(st) == LET r == LeafCall(S.a, "install", cfg, Repl(cfg, "replacing"), st, FALSE, script)
                  IN [s |-> [S EXCEPT !.a = r.leaf], ran |-> r.ran, notes |-> r.notes, oks |-> r.oks, exc |-> r.exc]
      viaB(st) == LET r == LeafCall(S.b, "uninstall", cfg, Repl(cfg, "replaced_by"), st, FALSE, script)
                  IN [s |-> [S EXCEPT !.b = r.leaf], ran |-> r.ran, notes |-> r.notes, oks |-> r.oks, exc |-> r.exc]
  IN CASE s = "start" -> LET ra == viaA("start")
                             rb == LeafCall(ra.s.b, "uninstall", cfg, Repl(cfg, "replaced_by"), "start", FALSE, script)
                         IN [s |-> [ra.s EXCEPT !.b = rb.leaf], ran |-> <<>>, notes |-> ra.notes \o rb.notes, oks |-> <<>>, exc |-> ""]
       [] s \in {"preinst", "postinst"} -> viaA(s)
       [] s \in {"prerm", "postrm"} -> viaB(s)
       [] s = "finalize" -> [s |-> [S EXCEPT !.b = CleanupLeaf(S.b, FALSE)], ran |-> <<>>, oks |-> <<>>, exc |-> "",
                             notes |-> IF CleanEffective(S.b, FALSE) THEN <<Note("cleanup", TRUE)>> ELSE <<>>]
RECURSIVE ReplWalk(_, _, _, _, _, _)
ReplWalk(S, cfg, chain, k, script, acc) ==
  IF k > Len(chain) THEN [s |-> S, ran |-> acc.ran, notes |-> acc.notes, oks |-> acc.oks, exc |-> ""]
  ELSE LET st == chain[k] IN
       IF st \in S.top THEN ReplWalk(S, cfg, chain, k + 1, script, acc)
       ELSE LET r == ReplBody(S, cfg, st, script)
                failed == r.exc # ""
                acc2 == [ran |-> acc.ran \o r.ran, notes |-> acc.notes \o r.notes, oks |-> acc.oks \o r.oks]
                S2 == IF ~failed \/ StampFailed THEN [r.s EXCEPT !.top = @ \cup {st}] ELSE r.s
            IN IF failed /\ StopOnFailure
               THEN [s |-> S2, ran |-> acc2.ran, notes |-> acc2.notes, oks |-> acc2.oks, exc |-> r.exc]
               ELSE ReplWalk(S2, cfg, chain, k + 1, script, acc2)

\* public calls; every result is [s, ran, notes, oks, exc]
Call(S, cfg, stage, ignore, script) ==
  IF cfg.kind = "replace" THEN ReplWalk(S, cfg, DepsSeq("replace", stage), 1, script, Acc0)
  ELSE LET r == LeafCall(S.a, cfg.kind, cfg, "none", stage, ignore, script)
       IN [s |-> [S EXCEPT !.a = r.leaf], ran |-> r.ran, notes |-> r.notes, oks |-> r.oks, exc |-> r.exc]
Quiet0 == [ran |-> <<>>, oks |-> <<>>, exc |-> ""]
Cleanup(S, force, quiet) ==
  [s |-> [S EXCEPT !.a = CleanupLeaf(S.a, force)], ran |-> <<>>, oks |-> <<>>, exc |-> "",
   notes |-> IF CleanEffective(S.a, force) /\ ~quiet THEN <<Note("cleanup", TRUE)>> ELSE <<>>]
Reload(S) == [s |-> [S EXCEPT !.a = ReloadLeaf(S.a)], ran |-> <<>>, oks |-> <<>>, exc |-> "", notes |-> <<>>]
\* uninstall_op.finish: cleanup, then nothing
Finish(S) == Cleanup(S, FALSE, FALSE)

\* the calls the specification speaks about (everything else is outside its domain)
CallInDomain(S, cfg, stage, ignore) ==
  /\ stage \in StagesOf(cfg.kind)
  /\ IF cfg.kind = "replace" THEN ~ignore
     ELSE IF ignore THEN S.a.dir ELSE ("start" \in S.a.done => S.a.dir)

(* ------------------------------------------------------------------ pebuild: one process *)
\* phases as given on the command line ("clean" is a pseudo phase); the operations main() must
\* perform on the build object, before the first one that raises
PebuildOps(phases, noauto) ==
  LET real == SelectSeq(phases, LAMBDA p : p # "clean")
      cln == \E k \in DOMAIN phases : phases[k] = "clean"
  IN (IF cln THEN <<[op |-> "cleanup", stage |-> "-", ignore |-> FALSE, force |-> TRUE]>> ELSE <<>>)
     \o <<[op |-> "reload", stage |-> "-", ignore |-> FALSE, force |-> FALSE]>>
     \o [k \in DOMAIN real |-> [op |-> "call", stage |-> real[k], ignore |-> noauto, force |-> FALSE]]

(* ------------------------------------------------------------------ operations API *)
\* descriptor of one _cmd_api_<name>: [name, standalone, impl, check] with check in {"none","yes","no"}
ApiSupported(d) == (d.standalone \/ d.impl) /\ d.check # "no"
ApiEnabled(descs, en, dis) == ({d.name : d \in {x \in descs : ApiSupported(x)}} \cup en) \ dis
\* what the caller of an offered operation sees when the implementation raises
\*   "none" | "operr" (an OperationError) | "pkgcore" (another PkgcoreException) | "other"
ApiRecast(raised) == CASE raised = "none" -> "returns" [] raised = "operr" -> "same"
                       [] raised = "pkgcore" -> "wrapped" [] raised = "other" -> "same"
=============================================================================
