---------------------------- MODULE AtomVer ----------------------------
(* Package versions as PMS 3.2/3.3 describes them, for the atom checks C03/C04/C05
   (self-contained: C01 has its own module).

   A version is the record  [nums, letter, sufs, rev]  that keeps the text AS WRITTEN:
     nums   : non-empty sequence of digit strings (Seq(0..9)), the dot separated components
     letter : 0 (none) or 1..26 (a..z)
     sufs   : sequence of [k \in {"alpha","beta","pre","rc","p"}, n : digit string, <<>> = omitted]
     rev    : digit string, <<>> = no "-rN" written
   so two records are equal exactly when the two version texts are equal.

   VerCmp is a transcription of PMS Algorithms 3.1 - 3.7.                                  *)
EXTENDS Integers, Sequences, FiniteSets

AvSgn(x) == IF x < 0 THEN -1 ELSE IF x > 0 THEN 1 ELSE 0
AvLeast(S) == CHOOSE i \in S : \A j \in S : i <= j
AvMost(S)  == CHOOSE i \in S : \A j \in S : i >= j
AvShort(a, b) == IF Len(a) < Len(b) THEN Len(a) ELSE Len(b)

(* ---------------- digit strings ---------------- *)
StripLZ(d) == LET nz == {i \in 1..Len(d) : d[i] # 0} IN IF nz = {} THEN <<>> ELSE SubSeq(d, AvLeast(nz), Len(d))
StripTZ(d) == LET nz == {i \in 1..Len(d) : d[i] # 0} IN IF nz = {} THEN <<>> ELSE SubSeq(d, 1, AvMost(nz))
\* ASCII string comparison of two digit strings
LexCmp(a, b) == LET df == {i \in 1..AvShort(a, b) : a[i] # b[i]} IN
                IF df = {} THEN AvSgn(Len(a) - Len(b))
                ELSE LET i == AvLeast(df) IN IF a[i] < b[i] THEN -1 ELSE 1
\* comparison as (arbitrary precision) integers; the empty string counts as 0
NatCmp(a, b) == LET x == StripLZ(a)  y == StripLZ(b) IN
                IF Len(x) # Len(y) THEN AvSgn(Len(x) - Len(y)) ELSE LexCmp(x, y)
\* d + 1 on digit strings (used to build the next revision)
RECURSIVE DigInc(_)
DigInc(d) == IF d = <<>> THEN <<1>>
             ELSE IF d[Len(d)] < 9 THEN [d EXCEPT ![Len(d)] = @ + 1]
             ELSE Append(DigInc(SubSeq(d, 1, Len(d) - 1)), 0)

(* ---------------- PMS Algorithm 3.2 / 3.3 : numeric components ---------------- *)
CompCmp(i, a, b) == IF i = 1 THEN NatCmp(a, b)
                    ELSE IF a[1] = 0 \/ b[1] = 0 THEN LexCmp(StripTZ(a), StripTZ(b))
                    ELSE NatCmp(a, b)
NumsCmp(a, b) == LET df == {i \in 1..AvShort(a, b) : CompCmp(i, a[i], b[i]) # 0} IN
                 IF df # {} THEN LET i == AvLeast(df) IN CompCmp(i, a[i], b[i])
                 ELSE AvSgn(Len(a) - Len(b))
(* ---------------- 3.4 letter ---------------- *)
LetterCmp(a, b) == AvSgn(a - b)
(* ---------------- 3.5 / 3.6 suffixes ---------------- *)
SufKinds == {"alpha", "beta", "pre", "rc", "p"}
SufRank(k) == CASE k = "alpha" -> 1 [] k = "beta" -> 2 [] k = "pre" -> 3 [] k = "rc" -> 4 [] k = "p" -> 5
SufCmp1(s, t) == IF s.k = t.k THEN NatCmp(s.n, t.n) ELSE AvSgn(SufRank(s.k) - SufRank(t.k))
SufsCmp(a, b) == LET m == AvShort(a, b)
                     df == {i \in 1..m : SufCmp1(a[i], b[i]) # 0} IN
                 IF df # {} THEN LET i == AvLeast(df) IN SufCmp1(a[i], b[i])
                 ELSE IF Len(a) > m THEN (IF a[m + 1].k = "p" THEN 1 ELSE -1)
                 ELSE IF Len(b) > m THEN (IF b[m + 1].k = "p" THEN -1 ELSE 1)
                 ELSE 0
(* ---------------- 3.7 revision, 3.1 the whole ---------------- *)
RevCmp(a, b) == NatCmp(a, b)
NoRev(v) == [v EXCEPT !.rev = <<>>]
BaseCmp(v, w) == LET c1 == NumsCmp(v.nums, w.nums) IN IF c1 # 0 THEN c1 ELSE
                 LET c2 == LetterCmp(v.letter, w.letter) IN IF c2 # 0 THEN c2 ELSE
                 SufsCmp(v.sufs, w.sufs)
VerCmp(v, w) == LET c == BaseCmp(v, w) IN IF c # 0 THEN c ELSE RevCmp(v.rev, w.rev)

(* ---------------- version operators of a dependency (PMS 8.3.1) ----------------
   OpHolds(op, p, a): package version p satisfies "op a".                            *)
RangeOps == {"<", "<=", "=", "~", ">=", ">"}
OpHolds(op, p, a) ==
    CASE op = "<"  -> VerCmp(p, a) < 0
      [] op = "<=" -> VerCmp(p, a) <= 0
      [] op = "="  -> VerCmp(p, a) = 0
      [] op = "~"  -> BaseCmp(p, a) = 0            \* equal, ignoring the revision
      [] op = ">=" -> VerCmp(p, a) >= 0
      [] op = ">"  -> VerCmp(p, a) > 0

(* ---------------- "=...*" : the written components are a prefix on component boundaries ----
   Strong truncations of p: cuts where the text of p continues with ".", "_", "-" or ends.
   Weak truncations: cuts between the last number and the letter, or between a suffix name
   and its number (PMS does not say whether these are component boundaries).
     "T"  some strong truncation of p is textually the glob version g
     "F"  no truncation (strong or weak) even compares equal to g     (e.g. =1* against 10)
     "U"  otherwise: only a weak / differently spelled truncation is equal (1* vs 1a,
          1_alpha* vs 1_alpha1, 1.0* vs 1.00, 1-r0* vs 1) - left open, not judged.      *)
Bare(nums, letter, sufs) == [nums |-> nums, letter |-> letter, sufs |-> sufs, rev |-> <<>>]
StrongTruncs(p) ==
    {Bare(SubSeq(p.nums, 1, k), 0, <<>>) : k \in 1..(Len(p.nums) - 1)}
    \cup {Bare(p.nums, p.letter, SubSeq(p.sufs, 1, j)) : j \in 0..Len(p.sufs)}
    \cup {p}
WeakTruncs(p) ==
    (IF p.letter # 0 THEN {Bare(p.nums, 0, <<>>)} ELSE {})
    \cup {Bare(p.nums, p.letter, [SubSeq(p.sufs, 1, j) EXCEPT ![j] = [k |-> p.sufs[j].k, n |-> <<>>]]) :
            j \in {i \in 1..Len(p.sufs) : p.sufs[i].n # <<>>}}
Glob(g, p) ==
    IF g \in StrongTruncs(p) THEN "T"
    ELSE IF \E t \in StrongTruncs(p) \cup WeakTruncs(p) : VerCmp(t, g) = 0 THEN "U"
    ELSE "F"

(* ---------------- text of a version (code points), used by the atom grammar ---------------- *)
DigText(d) == [i \in 1..Len(d) |-> 48 + d[i]]
SufKindText(k) == CASE k = "alpha" -> <<97, 108, 112, 104, 97>> [] k = "beta" -> <<98, 101, 116, 97>>
                    [] k = "pre" -> <<112, 114, 101>> [] k = "rc" -> <<114, 99>> [] k = "p" -> <<112>>
RECURSIVE NumsText(_)
NumsText(nums) == IF Len(nums) = 1 THEN DigText(nums[1])
                  ELSE NumsText(SubSeq(nums, 1, Len(nums) - 1)) \o <<46>> \o DigText(nums[Len(nums)])
RECURSIVE SufsText(_)
SufsText(sufs) == IF sufs = <<>> THEN <<>>
                  ELSE SufsText(SubSeq(sufs, 1, Len(sufs) - 1)) \o <<95>> \o SufKindText(sufs[Len(sufs)].k)
                       \o DigText(sufs[Len(sufs)].n)
VerText(v) == NumsText(v.nums) \o (IF v.letter = 0 THEN <<>> ELSE <<96 + v.letter>>) \o SufsText(v.sufs)
              \o (IF v.rev = <<>> THEN <<>> ELSE <<45, 114>> \o DigText(v.rev))

(* ---------------- a bounded grammar of versions (for model checking and export) -------------
   Gram(N, L, S, SN, R): nums from N (1..2 components, first from NFirst), letters L,
   at most one suffix from S x SN (two when Two), revisions R.                                *)
VersOf(NFirst, NRest, MaxComps, Letters, SufK, SufN, MaxSufs, Revs) ==
    LET numseqs == UNION {[1..k -> NFirst \cup NRest] : k \in 1..MaxComps}
        okn == {ns \in numseqs : ns[1] \in NFirst /\ \A i \in 2..Len(ns) : ns[i] \in NRest}
        suf1 == {[k |-> k, n |-> n] : k \in SufK, n \in SufN}
        sufseqs == UNION {[1..j -> suf1] : j \in 0..MaxSufs}
    IN {[nums |-> ns, letter |-> l, sufs |-> ss, rev |-> r] : ns \in okn, l \in Letters, ss \in sufseqs, r \in Revs}
=========================================================================
