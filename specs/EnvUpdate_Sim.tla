---------------------------- MODULE EnvUpdate_Sim ----------------------------
(* spec -> code: TLC (simulation mode) chooses histories of EnvUpdate_MC; only the INPUTS of
   the actions are printed (one behaviour per walk, when it reaches D steps) and replayed by
   drivers/g06_envupdate.py on a real root with a real MergeEngine carrying the real
   env_update / ldconfig / InfoRegen triggers; what the code then does is judged by
   EnvUpdate_Trace.                                                                     *)
EXTENDS EnvUpdate_MC
CONSTANT D
VARIABLES hist, fin
A(ev, a, b, n) == [ev |-> ev, a |-> a, b |-> b, n |-> n]
Rec(e) == Len(hist) < D /\ ~fin /\ hist' = Append(hist, e) /\ fin' = fin
SimInit == Init /\ hist = <<>> /\ fin = FALSE
SimNext ==
    \/ \E m \in Modes : Begin(m) /\ Rec(A("begin", m, "-", 0))
    \/ \E rc \in {0, 0, 1} : Hook(rc) /\ Rec(A("hook", "-", "-", rc))
    \/ End /\ Rec(A("end", "-", "-", 0))
    \/ \E d \in InfoDirs, f \in TogNames : Toggle(d, f) /\ Rec(A("toggle", d, f, 0))
    \/ \E d \in InfoDirs : MkRmDir(d) /\ Rec(A("mkrmdir", d, "-", 0))
    \/ \E i \in EnvIds : SetEnv(i) /\ Rec(A("setenv", i, "-", 0))
    \/ RmConf /\ Rec(A("rmconf", "-", "-", 0))
    \/ Tick /\ Rec(A("tick", "-", "-", 0))
    \/ /\ Len(hist) = D /\ ~fin /\ fin' = TRUE /\ PrintT(<<"BEH", w.bin, hist>>) /\ UNCHANGED <<vars, hist>>
SimSpec == SimInit /\ [][SimNext]_<<vars, hist, fin>>
=========================================================================
