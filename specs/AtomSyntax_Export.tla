---------------------------- MODULE AtomSyntax_Export ----------------------------
(* spec -> code for C03: every structure of the bounded universe rendered to text, under every
   EAPI; every catalogued violation of the mutation bases; the open cases.  The driver hands
   each text to the real atom(text, eapi=...).                                           *)
EXTENDS AtomSyntax_Gen, Json, IOUtils, SequencesExt
Valid == {[text |-> Render(g), eapi |-> e, kind |-> "valid"] : g \in Gen \cup MutBases, e \in Eapis}
Opens == {[text |-> Render(o.g), eapi |-> e, kind |-> "open"] : o \in OpenCases, e \in Eapis}
Bad   == {[text |-> Mut(g, m), eapi |-> e, kind |-> m] : g \in MutBases, m \in Mutations, e \in Eapis}
Cases == Valid \cup Opens \cup Bad
ASSUME PrintT(<<"sizes", Cardinality(Valid), Cardinality(Opens), Cardinality(Bad)>>)
ASSUME ndJsonSerialize(IOEnv.OUT, SetToSeq(Cases))
=========================================================================
