SPECIFICATION MCSpec
CONSTANT Vals = {"a", "b", "c"}
INVARIANT TypeOK
INVARIANT CombinedEqualsSequential
