---------------------------- MODULE BugQuery_Export ----------------------------
(* spec -> code: search expressions (named constructors, any_of nested up to two deep, & chains up to
   three, paging) and batching cases chosen by TLC, replayed on the real BugQuery.               *)
EXTENDS BugQuery, Json, IOUtils
CONSTANT BatchLen        \* longest value list of a batching case
ECtor(name, args) == [e |-> "ctor", name |-> name, args |-> args, subs |-> <<>>, limit |-> 0, offset |-> 0]
EAnd(a, b)        == [e |-> "and", name |-> "", args |-> <<>>, subs |-> <<a, b>>, limit |-> 0, offset |-> 0]
EAnyOf(s)         == [e |-> "anyof", name |-> "", args |-> <<>>, subs |-> s, limit |-> 0, offset |-> 0]
EPaged(a, l, o)   == [e |-> "paged", name |-> "", args |-> <<>>, subs |-> <<a>>, limit |-> l, offset |-> o]

LeafS == {ECtor("ids", <<"7">>), ECtor("ids", <<"7", "12">>), ECtor("product", <<"Gentoo Linux">>),
          ECtor("component", <<"Keywording", "Stabilization">>), ECtor("category", <<"Stabilization">>),
          ECtor("unresolved", <<>>), ECtor("resolution", <<"FIXED">>), ECtor("status", <<"CONFIRMED", "IN_PROGRESS">>),
          ECtor("cc", <<"amd64@gentoo.org">>), ECtor("assigned_to", <<"m+x@gentoo.org">>)}
LeafC == {ECtor("keywords", <<"ALLARCHES">>), ECtor("keywords", <<"ALLARCHES", "SECURITY">>),
          ECtor("flag", <<"sanity-check", "+">>), ECtor("flag", <<"sanity-check", "+", "-">>),
          ECtor("without_tags", <<"nattka:skip">>), ECtor("package_list_any", <<"dev-libs/a-1", "dev-libs/b-2">>)}
C3 == {ECtor("keywords", <<"ALLARCHES">>), ECtor("flag", <<"sanity-check", "+">>), ECtor("without_tags", <<"nattka:skip">>)}
S2 == {ECtor("ids", <<"7", "12">>), ECtor("unresolved", <<>>)}
Conj2 == {EAnd(a, b) : a \in C3, b \in C3}
Any1 == {EAnyOf(s) : s \in BoundedSeq(LeafC \cup Conj2, 2) \ {<<>>}}
Any1s == {EAnyOf(<<a, b>>) : a \in C3, b \in {ECtor("keywords", <<"SECURITY">>), EAnd(ECtor("keywords", <<"SECURITY">>), ECtor("without_tags", <<"x">>))}}
Any2 == {EAnyOf(<<a, b>>) : a \in Any1s, b \in C3} \cup {EAnyOf(<<b, a>>) : a \in Any1s, b \in C3}
        \cup {EAnyOf(<<EAnd(a, b)>>) : a \in Any1s, b \in C3}
AnyBad == {EAnyOf(<<s, c>>) : s \in S2, c \in C3} \cup {EAnyOf(<<c, s>>) : s \in S2, c \in C3}
          \cup {EAnyOf(<<EAnd(s, c)>>) : s \in S2, c \in C3}
Mid == LeafS \cup LeafC \cup Any1s
Small == S2 \cup C3 \cup {EAnyOf(<<ECtor("keywords", <<"SECURITY">>), ECtor("flag", <<"sanity-check", "-">>)>>),
                          EAnyOf(<<EAnd(ECtor("keywords", <<"SECURITY">>), ECtor("without_tags", <<"x">>)), ECtor("keywords", <<"ALLARCHES">>)>>)}
PagedOnes == {EPaged(a, l, o) : a \in S2 \cup C3, l \in {25}, o \in {0, 50}}
Exprs == LeafS \cup LeafC \cup Any1 \cup Any2 \cup AnyBad
         \cup {EAnd(a, b) : a \in Mid, b \in Mid}
         \cup {EAnd(EAnd(a, b), c) : a \in Small, b \in Small, c \in Small}
         \cup {EAnd(a, EAnd(b, c)) : a \in Small, b \in Small, c \in Small}
         \cup PagedOnes
         \cup {EAnd(a, b) : a \in PagedOnes, b \in PagedOnes \cup C3}
         \cup {EAnd(b, a) : a \in PagedOnes, b \in C3}

\* batching: which axis, how many digits each id / how long each atom, what rides along, the slack
\* left for the values (the driver turns it into max_length)
BatchCases == {[kind |-> "batch", expr |-> ECtor("ids", <<>>), axis |-> ax, sizes |-> sz, ride |-> r, slack |-> sl] :
                 ax \in {"id", "pkg"}, sz \in BoundedSeq(1..3, BatchLen), r \in 0..2, sl \in {0, 3, 6, 9, 12, 18}}
Cases == {[kind |-> "render", expr |-> x, axis |-> "", sizes |-> <<>>, ride |-> 0, slack |-> 0] : x \in Exprs} \cup BatchCases
ASSUME ndJsonSerialize(IOEnv.OUT, SetToSeq(Cases))
=========================================================================
