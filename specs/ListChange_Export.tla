---------------------------- MODULE ListChange_Export ----------------------------
(* Export: every ordered pair of constructible changes over the alphabet, for
   replay into the real ListChange.__or__ .  Sets are written as sequences. *)
EXTENDS ListChange, TLC, Json, IOUtils, SequencesExt
J(c) == [kind |-> c.kind, add |-> SetToSeq(c.add), rem |-> SetToSeq(c.rem), set |-> SetToSeq(c.set)]
Cases == {[a |-> J(a), b |-> J(b)] : <<a, b>> \in Changes \X Changes}
ASSUME ndJsonSerialize(IOEnv.OUT, SetToSeq(Cases))
=========================================================================
