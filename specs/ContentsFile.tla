---------------------------- MODULE ContentsFile ----------------------------
(* C24: the installed-package CONTENTS file as a register of entries
   (src/pkgcore/vdb/contents.py).  An entry is
     [kind : {"obj","sym","dir","fif","dev"}, path, md5, mtime, target]
   (path/target/md5 are opaque text, mtime an integral number; unused fields are "-" / 0).
   What the format keeps of an entry:                                            *)
EXTENDS Integers, Sequences, FiniteSets

Kept(e) == CASE e.kind = "obj" -> [kind |-> "obj", path |-> e.path, md5 |-> e.md5, mtime |-> e.mtime, target |-> "-"]
             [] e.kind = "sym" -> [kind |-> "sym", path |-> e.path, md5 |-> "-", mtime |-> e.mtime, target |-> e.target]
             [] OTHER          -> [kind |-> e.kind, path |-> e.path, md5 |-> "-", mtime |-> 0, target |-> "-"]

\* Load(Flush(S)) = image of S under Kept
RoundTrip(written, loaded) == loaded = {Kept(e) : e \in written}
\* one entry per path survives (a contents set is keyed by path)
PathKeyed(loaded) == \A a, b \in loaded : a.path = b.path => a = b
=========================================================================
