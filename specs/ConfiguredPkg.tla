---------------------------- MODULE ConfiguredPkg ----------------------------
(* C14: a USE-configured package view (src/pkgcore/package/conditionals.py PackageWrapper over
   snakeoil's LimitedChangeSet; the wrapped attributes of ebuild/repository.py ConfiguredTree).

   Abstract state  s = [use |-> SUBSET flags, log |-> Seq([add, f, was])]:
     use : the package's current USE set (what `pkg.use` shows)
     log : the outstanding changes since the last commit, oldest first; `add` tells whether the
           change was an enable, `was` whether the flag was set before it.  A flag that is in
           the log, or is Locked, is pinned: it cannot be flipped until the next commit.

   The property: a READ of a wrapped attribute equals the raw attribute evaluated under `use`
   (DepSet!Evaluate), and a REFUSED request leaves `use` as it was.

   How `use` evolves is modelled as LimitedChangeSet does it (parameter exact = FALSE): its
   rollback undoes an entry by its kind (an `add` is undone by removing the flag even when the
   add changed nothing); exact = TRUE is the rollback that restores the earlier set, used by
   the model checker to show what the second half of the property needs.
   Open point: disabling a pinned flag that is already off (LimitedChangeSet raises KeyError):
   policy "skip" treats it as already satisfied, policy "refuse" refuses the whole request;
   either is accepted (the USE set is the same in both).                                    *)
EXTENDS DepSet
CONSTANTS Locked           \* flags the configuration may not change

Pinned(s, f) == f \in Locked \/ \E k \in DOMAIN s.log : s.log[k].f = f
Entry(add, f, was) == [add |-> add, f |-> f, was |-> was]

\* LimitedChangeSet.add / .remove of one flag: r \in {"ok", "refuse", "open"}
AddStep(s, f) == IF Pinned(s, f) THEN [r |-> IF f \in s.use THEN "ok" ELSE "refuse", s |-> s]
                 ELSE [r |-> "ok", s |-> [use |-> s.use \cup {f}, log |-> Append(s.log, Entry(TRUE, f, f \in s.use))]]
RemStep(s, f) == IF Pinned(s, f) THEN [r |-> IF f \in s.use THEN "refuse" ELSE "open", s |-> s]
                 ELSE [r |-> "ok", s |-> [use |-> s.use \ {f}, log |-> Append(s.log, Entry(FALSE, f, f \in s.use))]]

Undo(s, e, exact) == LET on == IF exact THEN e.was ELSE ~e.add IN
                     [use |-> IF on THEN s.use \cup {e.f} ELSE s.use \ {e.f},
                      log |-> SubSeq(s.log, 1, Len(s.log) - 1)]
RECURSIVE RollbackTo(_, _, _)
RollbackTo(s, n, exact) == IF Len(s.log) <= n THEN s ELSE RollbackTo(Undo(s, s.log[Len(s.log)], exact), n, exact)
DoCommit(s) == [use |-> s.use, log |-> <<>>]

(* request_enable / request_disable on the configurable attribute: the flags are processed in
   order; the first one that cannot be honoured refuses the request and rolls back to its entry *)
RECURSIVE ReqFrom(_, _, _, _, _, _, _)
ReqFrom(s0, cur, kind, vs, k, policy, exact) ==
  IF k > Len(vs) THEN [ret |-> TRUE, s |-> cur]
  ELSE LET st == IF kind = "enable" THEN AddStep(cur, vs[k]) ELSE RemStep(cur, vs[k])
           r  == IF st.r = "open" THEN (IF policy = "skip" THEN "ok" ELSE "refuse") ELSE st.r
       IN IF r = "refuse" THEN [ret |-> FALSE, s |-> RollbackTo(cur, Len(s0.log), exact)]
          ELSE ReqFrom(s0, st.s, kind, vs, k + 1, policy, exact)
Request(s, kind, vs, policy, exact) == ReqFrom(s, s, kind, vs, 1, policy, exact)
\* the outcomes an implementation may show
Outcomes(s, kind, vs, exact) == {Request(s, kind, vs, "skip", exact), Request(s, kind, vs, "refuse", exact)}

(* ---- the property ---- *)
\* a view (conditional-free structure) of the raw attribute under the current USE set
ViewOK(raw, use, view) ==
  /\ ~HasCond(view)
  /\ Leaves(view) = Leaves(Evaluate(raw, use))
  /\ EvaluatedMeaning(raw, use, view)
RefusedOK(pre, ret, post) == ret \/ post.use = pre.use

(* ---- invariants of the state ---- *)
LogOK(s) == /\ \A j, k \in DOMAIN s.log : j # k => s.log[j].f # s.log[k].f
            /\ \A k \in DOMAIN s.log : s.log[k].f \notin Locked
            /\ \A k \in DOMAIN s.log : s.log[k].add = (s.log[k].f \in s.use)
=========================================================================
