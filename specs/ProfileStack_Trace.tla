---------------------------- MODULE ProfileStack_Trace ----------------------------
(* G03 judge (code -> spec, and the replayed spec -> code behaviours).  Events of one history (tid):
     {ev:"init", tree:{strict,pset,nodes:{name:{eapi,f:{P:{st,v},K:..,M:..,U:..,V:..,E:..,A:..}}}}, objs:[..]}
     {ev:"open", o, leaf}
     {ev:"edit", node, file, c:{st,v}}
     {ev:"get",  o, attr, raised, exc:{cls,node,file}, val, logs:[{node,line,text}], loaded:[{n,s,f}]}
     {ev:"dropall", loaded:[{n,s,f}]}
   val is the projection of what the real attribute returned (sets as arrays; default_env as
   [{var,toks,tuple}]); loaded lists every (live node instance, file) whose parsed form is cached.
   The model state (disk, what every instance has read) is advanced with the operators of
   ProfileStack from the INPUTS only; the values an object handed out are remembered as OBSERVED
   (StableRead judges against them), so one deviation never hides the rest of a history.

   Clauses   OutsideDomain            generator error (never a verdict on the code)
             Raises_<attr>            the call raised although every file it needs is readable, or did not raise
             ErrorIsProfileError      an unreadable profile file surfaces as something else than ProfileError
             ErrorNamesFile           ... or names another node / file than the first unreadable one
             Value_<attr>             the value differs from the value of the virtual tree (every file as first read)
             StableRead_<attr>        an attribute the object handed out before came back different
             BadParentReport          the parent lines reported as naming nothing (file, line, text, order)
             ReadSet_<attr>           the files held by live node instances after the call (laziness, read-once,
                                      what survives a failure)
             DropReleases             something is still held after every profile object is gone          *)
EXTENDS ProfileStack, TraceLib

VARIABLES l, s, og      \* og[o]: attribute -> value as OBSERVED from object o

ContentOf(c) == [st |-> c.st, v |-> c.v]
TreeOf(t) == [strict |-> t.strict, pset |-> t.pset,
              nodes |-> [n \in DOMAIN t.nodes |-> [eapi |-> t.nodes[n].eapi,
                                                   f |-> [x \in Files |-> ContentOf(t.nodes[n].f[x])]]]]
NoVals == [u \in {} |-> 0]

LoadedSet(e) == {<<e.loaded[k].n, e.loaded[k].s, e.loaded[k].f>> : k \in DOMAIN e.loaded}
LogSeq(e) == [k \in DOMAIN e.logs |-> [node |-> e.logs[k].node, line |-> e.logs[k].line, text |-> e.logs[k].text]]
ObsPairs(v) == [k \in DOMAIN v |-> [neg |-> AsSet(v[k].neg), pos |-> AsSet(v[k].pos)]]
ObsEnvOK(v, fe) ==
  /\ {v[k].var : k \in DOMAIN v} = DOMAIN fe
  /\ \A k \in DOMAIN v : LET x == fe[v[k].var] IN
        /\ v[k].tuple = (v[k].var \in Incrementals)
        /\ IF x.mode = "set" THEN AsSet(v[k].toks) = x.set /\ Len(v[k].toks) = Cardinality(x.set)
           ELSE v[k].toks = x.seq
ValueOK(a, obs, exp) ==
  CASE a = "stack" -> obs = exp
    [] a \in {"system", "profile_set", "masks", "unmasks", "provided", "use_expand"} -> AsSet(obs) = exp /\ Len(obs) = Cardinality(exp)
    [] a \in {"incr_masks", "incr_unmasks"} -> ObsPairs(obs) = exp
    [] a = "accept_keywords" -> [k \in DOMAIN obs |-> [a |-> obs[k].a, kws |-> obs[k].kws]] = exp
    [] a = "default_env" -> ObsEnvOK(obs, exp)
    [] a = "use" -> UseMatches(obs, exp)

InDomain(e) ==
  CASE e.ev = "open" -> CanOpen(s, e.o, e.leaf)
    [] e.ev = "edit" -> e.node \in DOMAIN s.disk.nodes /\ e.file \in Files /\ (e.file = "P" => e.c.st = "file")
    [] e.ev = "get"  -> e.o \in s.open /\ e.attr \in AllAttrs
    [] OTHER -> TRUE

JudgeGet(e, r) ==
  LET a == e.attr
      held == a \in DOMAIN og[e.o]
      exp == r.ret
  IN (IF held /\ (e.raised \/ e.val # og[e.o][a]) THEN {"StableRead_" \o a} ELSE {})
     \cup (IF e.raised # exp.raised THEN {"Raises_" \o a} ELSE {})
     \cup (IF e.raised /\ exp.raised /\ e.exc.cls # "ProfileError" THEN {"ErrorIsProfileError"} ELSE {})
     \cup (IF e.raised /\ exp.raised /\ e.exc.cls = "ProfileError" /\ (e.exc.node # exp.node \/ e.exc.file # exp.file)
           THEN {"ErrorNamesFile"} ELSE {})
     \cup (IF ~e.raised /\ ~exp.raised /\ ~ValueOK(a, e.val, exp.val) THEN {"Value_" \o a} ELSE {})
     \cup (IF LogSeq(e) # exp.logs THEN {"BadParentReport"} ELSE {})
     \cup (IF LoadedSet(e) # ReadKeys(r.s) THEN {"ReadSet_" \o a} ELSE {})

Judge(e, r) ==
  IF ~InDomain(e) THEN {"OutsideDomain"}
  ELSE CASE e.ev = "get" -> JudgeGet(e, r)
         [] e.ev = "dropall" -> IF e.loaded # <<>> THEN {"DropReleases"} ELSE {}
         [] OTHER -> {}

\* re-synchronise on what the live instances were SEEN to hold after the call (identity when the call conformed)
Resync(s2, held, before) ==
  [s2 EXCEPT !.seen = [k \in DOMAIN @ |-> IF k \notin held THEN Unread
                                          ELSE IF @[k].st # "unread" THEN @[k] ELSE before[k]]]
Step(e, r) ==
  IF e.ev = "init" THEN /\ s' = Fresh(TreeOf(e.tree), AsSet(e.objs))
                        /\ og' = [o \in AsSet(e.objs) |-> NoVals]
  ELSE IF ~InDomain(e) THEN UNCHANGED <<s, og>>
  ELSE CASE e.ev = "open"  -> /\ s' = DoOpen(s, e.o, e.leaf)
                              /\ og' = [og EXCEPT ![e.o] = NoVals]
         [] e.ev = "edit"  -> /\ s' = DoEdit(s, e.node, e.file, ContentOf(e.c))
                              /\ UNCHANGED og
         [] e.ev = "get"   -> /\ s' = Resync(r.s, LoadedSet(e), ViewOf(s))
                              /\ og' = IF e.raised \/ e.attr \in DOMAIN og[e.o] THEN og
                                       ELSE [og EXCEPT ![e.o] = [x \in DOMAIN @ \cup {e.attr} |-> IF x = e.attr THEN e.val ELSE @[x]]]
         [] e.ev = "dropall" -> /\ s' = DoDropAll(s)
                                /\ og' = [o \in DOMAIN og |-> NoVals]

TraceInit == l = 0 /\ s = [disk |-> [strict |-> TRUE, pset |-> FALSE, nodes |-> NoVals], seen |-> NoVals, open |-> {},
                          resolved |-> {}, got |-> NoVals, leaf |-> NoVals] /\ og = NoVals
TraceNext == /\ l < Len(Tr)
             /\ l' = l + 1
             /\ LET e == Tr[l']
                    r == IF e.ev = "get" /\ InDomain(e) THEN DoGet(s, e.o, e.attr) ELSE [s |-> s, ret |-> <<>>]
                IN /\ Report(e.tid, e.i, IF e.ev = "init" THEN {} ELSE Judge(e, r))
                   /\ Step(e, r)
             /\ EndMark(l')
TraceSpec == TraceInit /\ [][TraceNext]_<<l, s, og>>
=========================================================================
