---------------------------- MODULE PkgUpdates_Trace ----------------------------
(* Judges recorded calls of the real read_updates (drivers/c42_pkgupdates.py).
   {tid, i, names:[..], files:[{y, q, lines:[{k,a,b,s1,s2}]}], raised,
    got:[{n, cmds:[{k,a,b,s1,s2}]}]}
   files: what was written to profiles/updates (any order); got: the mapping returned,
   projected to package names and slots.                                              *)
EXTENDS PkgUpdates, TraceLib
VARIABLE l
Norm(c) == [k |-> c.k, a |-> c.a, b |-> c.b, s1 |-> c.s1, s2 |-> c.s2]
Count(seq, x) == Cardinality({k \in DOMAIN seq : seq[k] = x})
Judge(e) ==
    IF e.raised THEN {"Raised"}
    ELSE
    LET names == AsSet(e.names)
        lines == Lines(e.files)
        gotn  == {e.got[k].n : k \in DOMAIN e.got}
        Got(n) == LET k == CHOOSE k \in DOMAIN e.got : e.got[k].n = n IN [j \in DOMAIN e.got[k].cmds |-> Norm(e.got[k].cmds[j])]
        Want(n) == [j \in DOMAIN CommandsFor(lines, n) |-> Norm(CommandsFor(lines, n)[j])]
        rep   == Reported(lines, names)
        both  == rep \cap gotn
        wrong == {n \in both : Got(n) # Want(n)}
    IN (IF rep \ gotn # {} THEN {"Names_missing"} ELSE {})
       \cup (IF gotn \ rep # {} THEN {"Names_extra"} ELSE {})
       \cup (IF \E n \in wrong : \E k \in DOMAIN Want(n) : Count(Got(n), Want(n)[k]) < Count(Want(n), Want(n)[k])
             THEN {"Chain_incomplete"} ELSE {})
       \cup (IF \E n \in wrong : \E k \in DOMAIN Got(n) : Count(Want(n), Got(n)[k]) < Count(Got(n), Got(n)[k])
             THEN {"Chain_extra"} ELSE {})
       \cup (IF \E n \in wrong : \A x \in AsSet(Got(n)) \cup AsSet(Want(n)) : Count(Got(n), x) = Count(Want(n), x)
             THEN {"Chain_order"} ELSE {})
TraceInit == l = 0
TraceNext == /\ l < Len(Tr)
             /\ l' = l + 1
             /\ Report(Tr[l'].tid, Tr[l'].i, Judge(Tr[l']))
             /\ EndMark(l')
TraceSpec == TraceInit /\ [][TraceNext]_l
=========================================================================
