---------------------------- MODULE PkgUpdates_Trace ----------------------------
(* Judges recorded calls of the real read_updates (drivers/c42_pkgupdates.py).
   {tid, i, eapi8, names:[..], files:[{y, q, lines:[{k,a,b,s1,s2}]}], raised,
    gots:[ [{n, cmds:[{k,a,b,s1,s2}]}], ... ]}
   files: what was written to profiles/updates (any order); gots: the mappings returned by
   repeated reads of the same directory under different directory-listing orders, projected
   to package names and slots.
   eapi8 = FALSE: quarter-named files; every observation is judged against the chronological
   reference.  eapi8 = TRUE: free-form names (y, q unused): the observations must agree with
   each other (Listing_order_leaks) and with the reference under SOME order of the files
   (No_file_order_explains).                                                             *)
EXTENDS PkgUpdates, TraceLib
VARIABLE l
Norm(c) == [k |-> c.k, a |-> c.a, b |-> c.b, s1 |-> c.s1, s2 |-> c.s2]
Count(seq, x) == Cardinality({k \in DOMAIN seq : seq[k] = x})
\* one observation `got` against the line sequence `lines`
JudgeGot(names, lines, got) ==
    LET gotn  == {got[k].n : k \in DOMAIN got}
        Got(n) == LET k == CHOOSE k \in DOMAIN got : got[k].n = n IN [j \in DOMAIN got[k].cmds |-> Norm(got[k].cmds[j])]
        Want(n) == [j \in DOMAIN CommandsFor(lines, n) |-> Norm(CommandsFor(lines, n)[j])]
        rep   == Reported(lines, names)
        both  == rep \cap gotn
        wrong == {n \in both : Got(n) # Want(n)}
    IN (IF rep \ gotn # {} THEN {"Names_missing"} ELSE {})
       \cup (IF gotn \ rep # {} THEN {"Names_extra"} ELSE {})
       \cup (IF \E n \in wrong : \E k \in DOMAIN Want(n) : Count(Got(n), Want(n)[k]) < Count(Want(n), Want(n)[k])
             THEN {"Chain_incomplete"} ELSE {})
       \cup (IF \E n \in wrong : \E k \in DOMAIN Got(n) : Count(Want(n), Got(n)[k]) < Count(Got(n), Got(n)[k])
             THEN {"Chain_extra"} ELSE {})
       \cup (IF \E n \in wrong : \A x \in AsSet(Got(n)) \cup AsSet(Want(n)) : Count(Got(n), x) = Count(Want(n), x)
             THEN {"Chain_order"} ELSE {})
Judge(e) ==
    IF e.raised THEN {"Raised"}
    ELSE IF ~e.eapi8 THEN UNION {JudgeGot(AsSet(e.names), Lines(e.files), e.gots[g]) : g \in DOMAIN e.gots}
    ELSE (IF \E g \in DOMAIN e.gots : e.gots[g] # e.gots[1] THEN {"Listing_order_leaks"} ELSE {})
         \cup (IF \E p \in FileOrders(Len(e.files)) : JudgeGot(AsSet(e.names), LinesUnder(e.files, p), e.gots[1]) = {}
               THEN {} ELSE {"No_file_order_explains"})
TraceInit == l = 0
TraceNext == /\ l < Len(Tr)
             /\ l' = l + 1
             /\ Report(Tr[l'].tid, Tr[l'].i, Judge(Tr[l']))
             /\ EndMark(l')
TraceSpec == TraceInit /\ [][TraceNext]_l
=========================================================================
