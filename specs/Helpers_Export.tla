---------------------------- MODULE Helpers_Export ----------------------------
EXTENDS Helpers_Cases, TLC, Json, IOUtils, SequencesExt
ASSUME ndJsonSerialize(IOEnv.OUT, SetToSeq(Cases))
=========================================================================
