---------------------------- MODULE IpcReply_Export ----------------------------
(* spec -> code: every scripted request (template x nonfatal x fault) of IpcReply_Cases,
   and the request streams replayed through the real IpcCommand classes:
     Singles : <<a, canary>>            for every atom a
     Pairs   : <<a, b, canary>>         a = a nonfatal request that runs the external `install`
                                        or cannot succeed, b = any fault-free request
     Same    : <<a, b, canary>>         a = a nonfatal request hit by an injected fault, b = a valid request
                                        to the same helper (all of them are replayed in every tier)
   The canary is a plain successful doins into a directory nobody else uses: it shows that the channel (and the helper objects,
   which live as long as the build) are still in step after what came before.
   Output: the atoms once ([kind "atom", n, a]; n = 0 is the canary template), then the streams
   as sequences of atom numbers ([kind "single"/"pair", idx]); the canary takes the EAPI of
   the stream's first request.                                                           *)
EXTENDS IpcReply_Cases, TLC, Json, IOUtils, SequencesExt

CanaryAtom == [t |-> T("canary", "doins", "8", "--dest=\"/canary\" --insoptions=\"-m0644\" --diroptions=\"-m0755\"", <<"sub/deep/z.txt">>, TRUE,
                        <<P("I/canary/z.txt", "file", M644)>>, "-", {""}),
               nonfatal |-> FALSE, fault |-> ""]
AtomSeq == SetToSeq(Atoms)
Num(a) == CHOOSE n \in DOMAIN AtomSeq : AtomSeq[n] = a
Plain == {a \in Atoms : a.fault = ""}
External == {"doins-ext-C", "doins-ext-symmode", "doins-ext-two", "doins-ext-r", "doins-ext-badmode", "doins-ext-blocked",
             "dodir-ext", "dodir-ext-blocked2", "keepdir-ext",
             "doexe-ext-fail-ok", "doexe-ext-ok-fail", "doexe-ext-ok-fail-ok", "doexe-ext-fail-ok-ok", "doexe-ext-fail-fail",
             "doexe-ext-ok-ok-ok", "dolib.a-ext-fail-ok", "dolib.a-ext-ok-fail", "dodir-ext-fail-ok", "dodir-ext-ok-fail",
             "dodir-ext-ok-fail-ok", "dodir-ext-ok-ok", "keepdir-ext-fail-ok", "keepdir-ext-ok-fail"}
First == {a \in Plain : a.nonfatal /\ (a.t.id \in External \/ ~a.t.feasible)}
Singles == {<<Num(a), 0>> : a \in Atoms}
Pairs == {<<Num(x[1]), Num(x[2]), 0>> : x \in {y \in First \X Plain : y[1].t.eapi = y[2].t.eapi}}
\* the same helper OBJECT again after one of its requests failed half way (injected fault, nonfatal):
\* whatever the failure left behind in the object must not leak into the next, valid request
Same == {<<Num(x[1]), Num(x[2]), 0>> : x \in {y \in Atoms \X Plain :
            /\ y[1].fault # "" /\ y[1].nonfatal
            /\ y[2].t.helper = y[1].t.helper /\ y[2].t.eapi = y[1].t.eapi /\ y[2].t.feasible /\ y[2].nonfatal}}
Out == <<[kind |-> "atom", n |-> 0, a |-> CanaryAtom, idx |-> <<>>]>>
       \o [n \in DOMAIN AtomSeq |-> [kind |-> "atom", n |-> n, a |-> AtomSeq[n], idx |-> <<>>]]
       \o SetToSeq({[kind |-> "single", n |-> 0, a |-> CanaryAtom, idx |-> s] : s \in Singles})
       \o SetToSeq({[kind |-> "pair", n |-> 0, a |-> CanaryAtom, idx |-> s] : s \in Pairs})
       \o SetToSeq({[kind |-> "same", n |-> 0, a |-> CanaryAtom, idx |-> s] : s \in Same})
ASSUME ndJsonSerialize(IOEnv.OUT, Out)
=========================================================================
