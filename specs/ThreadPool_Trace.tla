---------------------------- MODULE ThreadPool_Trace ----------------------------
(* Judges recorded executions of the real map_async (drivers/c41_threadpool.py).
   Events of one run (tid), in the order they were logged (one global list, appended
   under the GIL):
     {ev:"call", n, threads, haslen, failing}       the call (i = 0)
     {ev:"feed", item}     the input iterator handed item to the feeder
     {ev:"take", w, item}  a functor received item from its queue iterator
     {ev:"emit", w, a, b}  a functor produced the non-empty result token <<a, b>>
     {ev:"end", w}         the functor of worker w returned
     {ev:"done", raised, hung, results:[[a,b],..]}   map_async returned / raised / did neither
   Unused fields are 0 / FALSE / <<>> (uniform records).
   The walk is the projection of ThreadPool_MC on these observations: an item can be
   taken only after it was fed and while nobody has taken it; at the return every item
   was taken exactly once and the returned bag is the bag of produced tokens.          *)
EXTENDS ThreadPool, TraceLib
VARIABLES l, st
Fresh(e) == [n |-> e.n, failing |-> e.failing, fed |-> {}, taken |-> [i \in 1..e.n |-> 0], emitted |-> EmptyBag,
             ended |-> {}]

Step(s, e) ==
  CASE e.ev = "call" -> [s |-> Fresh(e), bad |-> IF e.threads < 1 THEN {"OutsideDomain"} ELSE {}]
    [] e.ev = "feed" -> [s |-> [s EXCEPT !.fed = @ \cup {e.item}],
                         bad |-> IF e.item \in 1..s.n THEN {} ELSE {"OutsideDomain"}]
    [] e.ev = "take" ->
         IF e.item \notin 1..s.n THEN [s |-> s, bad |-> {"Item_unknown"}]
         ELSE [s |-> [s EXCEPT !.taken[e.item] = @ + 1],
               bad |-> (IF e.item \notin s.fed THEN {"Item_taken_before_fed"} ELSE {})
                       \cup (IF s.taken[e.item] > 0 THEN {"Item_taken_twice"} ELSE {})]
    [] e.ev = "emit" -> [s |-> [s EXCEPT !.emitted = BagAdd(@, <<e.a, e.b>>)], bad |-> {}]
    [] e.ev = "end"  -> [s |-> [s EXCEPT !.ended = @ \cup {e.w}], bad |-> {}]
    [] e.ev = "done" ->
         LET got == BagOf([k \in DOMAIN e.results |-> <<e.results[k][1], e.results[k][2]>>]) IN
         [s |-> s,
          bad |-> IF e.hung THEN {"Did_not_return"}
                  ELSE IF s.failing THEN {}     \* the input raised: only "at most once" is judged
                  ELSE (IF e.raised THEN {"Raised"} ELSE {})
                       \cup (IF NotProcessed(s.n, s.taken) # {} THEN {"Item_not_processed"} ELSE {})
                       \cup (IF Missing(s.emitted, got) # {} THEN {"Result_missing"} ELSE {})
                       \cup (IF Extra(s.emitted, got) # {} THEN {"Result_extra"} ELSE {})]
    [] OTHER -> [s |-> s, bad |-> {"UnknownEvent"}]

Blank == [n |-> 0, failing |-> FALSE, fed |-> {}, taken |-> [i \in 1..0 |-> 0], emitted |-> EmptyBag, ended |-> {}]
TraceInit == l = 0 /\ st = Blank
TraceNext == /\ l < Len(Tr)
             /\ l' = l + 1
             /\ LET r == Step(st, Tr[l']) IN
                  /\ Report(Tr[l'].tid, Tr[l'].i, r.bad)
                  /\ st' = r.s
             /\ EndMark(l')
TraceSpec == TraceInit /\ [][TraceNext]_<<l, st>>
=========================================================================
