---------------------------- MODULE RepoQuery_MC ----------------------------
(* C08 design check: for every restriction tree TLC can build (BoolTree_MC's wrappings) over
   leaves  1: category = 1   2: package = 1   3: something else (version = 1)   [4: category = 2]
   and the full repository {1,2} x {1,2} x {1,2}:
     InvPruneSound   pruning the search to Candidates(t) never loses a package of the answer
     InvStackUnion   the answer over a stack is the disjoint union of the per-repository answers
     InvPairs        an unversioned answer is exactly the pairs having a matching unversioned object
   ShippedUnsound (checked as an expected violation by the driver) shows the same for the
   collector of the snapshot tree, which drops negate flags and looks inside sub-nodes.          *)
EXTENDS RepoQuery, TLC
CONSTANTS NLeaves, MaxDepth, RichSiblings, FullDepth
VARIABLE t
INSTANCE BoolTree_MC

Attr == [i \in 1..4 |-> CASE i = 1 -> "c" [] i = 2 -> "p" [] i = 3 -> "o" [] i = 4 -> "c"]
Val  == [i \in 1..4 |-> IF i = 4 THEN 2 ELSE 1]
Pkgs == {[c |-> c, p |-> p, v |-> v, r |-> r] : c \in 1..2, p \in 1..2, v \in 1..2, r \in 1..2}
AllPairs == (1..2) \X (1..2)
Truth(x) == {i \in 1..NLeaves : (CASE Attr[i] = "c" -> x.c [] Attr[i] = "p" -> x.p [] OTHER -> x.v) = Val[i]}
\* an unversioned object has no version: version leaves do not match it
PairTruth(cp) == {i \in 1..NLeaves : Attr[i] # "o" /\ (IF Attr[i] = "c" THEN cp[1] ELSE cp[2]) = Val[i]}

InvPruneSound == \A x \in Answer(Pkgs, t, Truth) : <<x.c, x.p>> \in Candidates(Attr, Val, t, AllPairs)
InvShippedSound == t.k # "leaf" => \A x \in Answer(Pkgs, t, Truth) : <<x.c, x.p>> \in ShippedCandidates(Attr, Val, t, AllPairs)
InvStackUnion == /\ StackAnswer(Pkgs, {1, 2}, t, Truth) = Answer(Pkgs, t, Truth)
                 /\ Answer({x \in Pkgs : x.r = 1}, t, Truth) \cap Answer({x \in Pkgs : x.r = 2}, t, Truth) = {}
InvPairs == PairAnswer(AllPairs, t, PairTruth) = {cp \in AllPairs : Eval(t, PairTruth(cp))}
=========================================================================
