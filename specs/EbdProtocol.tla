---------------------------- MODULE EbdProtocol ----------------------------
(* C35 (and the framing half of C31 / the reply half of C32): the command protocol between
   pkgcore's EbuildProcessor (src/pkgcore/ebuild/processor.py, "Py") and the bash ebuild
   daemon (data/lib/pkgcore/ebd/ebuild-daemon*.bash, exit-handling.bash, "D").

   Two sequential processes, two FIFO pipes.  A pipe write never blocks; a read blocks on an
   empty pipe unless the peer is gone (then it returns EOF).  One message = one protocol line
     [cmd, arg, rid, need, have, data]
     cmd  : the command word both sides dispatch on
     arg  : rest of the line ("succeeded", "failed", ...), "-" if none
     rid  : GHOST - id of the top-level Python request in whose service the line was produced
     need/have : counted payload glued to the line: the reader consumes `need` units, the writer
            appended `have` units (0/0 when there is none)
     data : GHOST - TRUE for lines that are payload of a helper request (header / argument
            lines), i.e. not commands

   Both sides are pure transition operators over small records, so the same operators drive
   (a) the interleaving model EbdProtocol_MC and (b) the trace validators for real-daemon
   sessions and for TLC-chosen sessions replayed against the real EbuildProcessor.

   The constants select between the protocol AS INTENDED (all TRUE / agreeing literals: this is
   what the properties are checked on and what real traces are validated against) and known
   ways of getting it wrong (used as vacuity guards: TLC must find the violation).            *)
EXTENDS Integers, Sequences, FiniteSets

CONSTANTS
  PyClearReplyArg,   \* literal Python compares the clear_preloaded_eclasses reply with ("succeeded")
  DSandboxRequest,   \* command word bash uses to ask for the sandbox summary ("request_sandbox_summary")
  DrainAfterEnvFail, \* TRUE: after env_receiving_failed Python also consumes the daemon's "phases failed"
  KillUnresponsive,  \* TRUE: shutdown_processor() kills a daemon that does not answer "alive"
  RawHelperLines,    \* TRUE: helper header/argument lines are read without notice interpretation
  FramingExact,      \* TRUE: every counted payload has need = have
  NBashrc,           \* how many profile bashrcs Python transfers on request_bashrcs (>= 1)
  Budget             \* how many requests (inherit / helper / bashrc / key ...) one phase may emit

Msg(cmd, arg, rid) == [cmd |-> cmd, arg |-> arg, rid |-> rid, need |-> 0, have |-> 0, data |-> FALSE]
PMsg(cmd, arg, rid, need, have) == [cmd |-> cmd, arg |-> arg, rid |-> rid, need |-> need, have |-> have, data |-> FALSE]
DMsg(cmd, rid) == [cmd |-> cmd, arg |-> "-", rid |-> rid, need |-> 0, have |-> 0, data |-> TRUE]
EOF == Msg("EOF", "-", 0)

Notices == {"SIGINT", "SIGTERM", "dying"}
Helpers == {"doins"}                      \* stands for every IPC helper name
BaseHandlers == {"request_sandbox_summary", "prob", "env_receiving_failed", "failed",
                 "SIGINT", "SIGTERM", "dying", "phases"}
Stoppers == {"prob", "env_receiving_failed", "failed"}    \* mapped to chuck_UnhandledCommand

(* ====================================================================================
   Python side.  A top-level request is a script (sequence of steps):
     [op "w", m]                          write one line (+payload)
     [op "x", want, arg, async, fail]     expect(); fail = script to continue with on mismatch
     [op "consume"]                       _consume_async_expects()
     [op "handler", extra]                generic_handler(additional_commands = extra)
     [op "close"]                         close both pipe ends
     [op "wait"]                          os.waitpid(): blocks until the daemon is gone
     [op "kill"]                          killpg(SIGKILL)
     [op "ret", val]                      finish the request with value / exception name val
   py == [mode, script, pend, rid, out, sub, extra, got, closed]
     mode: "idle" | "run" | "expect1" | "consume" | "handler" | "helper" | "bashrc" | "dying"
           | "wait" | "done"                                                                *)
W(m) == [op |-> "w", m |-> m, want |-> "-", arg |-> "-", async |-> FALSE, fail |-> <<>>, extra |-> {}, val |-> "-"]
X(cmd, arg, async, fail) == [op |-> "x", m |-> EOF, want |-> cmd, arg |-> arg, async |-> async, fail |-> fail, extra |-> {}, val |-> "-"]
Op(o) == [op |-> o, m |-> EOF, want |-> "-", arg |-> "-", async |-> FALSE, fail |-> <<>>, extra |-> {}, val |-> "-"]
Handler(extra) == [Op("handler") EXCEPT !.extra = extra]
Ret(v) == [Op("ret") EXCEPT !.val = v]

\* shutdown_processor(force=False)
Shutdown(r, final) ==
  <<W(Msg("alive", "-", r)),
    X("yep!", "-", FALSE, (IF KillUnresponsive THEN <<Op("kill")>> ELSE <<>>) \o <<Op("wait"), Op("close"), Ret(final)>>),
    W(Msg("shutdown_daemon", "-", r)), Op("close"), Op("wait"), Ret(final)>>
\* shutdown_processor(force=True)
\* (either way the instance is marked dead -- pid = None -- and is never handed a request again)
ForceShutdown(final) == <<Op("kill"), Op("wait"), Op("close"), Ret(final)>>

EnvFail == <<Ret("False")>>
\* the daemon reports a failed environment transfer with TWO lines (the subshell's
\* "env_receiving_failed", then the main loop's "phases failed ..."): the second one belongs to
\* the same request and has to be consumed with it
EnvFailDrain == <<X("phases", "failed", FALSE, <<Ret("False")>>), Ret("False")>>

Script(kind, r, need, have) ==
  CASE kind = "is_responsive"   -> <<W(Msg("alive", "-", r)), X("yep!", "-", FALSE, <<Ret("False")>>), Ret("True")>>
    [] kind = "preload_async"   -> <<W(Msg("preload_eclass", "f", r)), X("preload_eclass", "succeeded", TRUE, <<>>), Ret("True")>>
    [] kind = "preload_sync"    -> <<W(Msg("preload_eclass", "f", r)), X("preload_eclass", "succeeded", TRUE, <<>>),
                                     Op("consume"), Ret("True")>>
    [] kind = "clear_preloaded" -> <<W(Msg("alive", "-", r)), X("yep!", "-", FALSE, <<Ret("True")>>),
                                     W(Msg("clear_preloaded_eclasses", "-", r)),
                                     X("clear_preloaded_eclasses", PyClearReplyArg, FALSE, Shutdown(r, "False")), Ret("True")>>
    [] kind = "set_metadata_path" -> <<W(PMsg("set_metadata_path", "-", r, need, have)),
                                       X("metadata_path_received", "-", FALSE, <<Ret("None")>>), Ret("None")>>
    [] kind = "gen_metadata"    -> <<W(PMsg("gen_metadata", "-", r, need, have)), Handler({"request_inherit", "key"}), Ret("keys")>>
    [] kind = "gen_env"         -> <<W(PMsg("gen_ebuild_env", "-", r, need, have)), Handler({"request_inherit", "receive_env"}), Ret("env")>>
    [] kind = "run_phase"       -> <<W(Msg("process_ebuild", "phase", r)),
                                     W(PMsg("start_receiving_env", "bytes", r, need, have)),
                                     X("env_received", "-", FALSE, EnvFail),
                                     W(Msg("set_sandbox_state", "1", r)),
                                     W(Msg("start_processing", "-", r)),
                                     Handler(Helpers \cup {"request_bashrcs"}), Ret("True")>>
    [] kind = "run_phase_file"  -> <<W(Msg("process_ebuild", "phase", r)),
                                     W(Msg("start_receiving_env", "file", r)),
                                     X("env_received", "-", FALSE, EnvFail),
                                     W(Msg("set_sandbox_state", "1", r)),
                                     W(Msg("logging", "log", r)),
                                     X("logging_ack", "-", FALSE, <<Ret("False")>>),
                                     W(Msg("start_processing", "-", r)),
                                     Handler(Helpers \cup {"request_bashrcs"}), Ret("True")>>
    [] kind = "shutdown"        -> Shutdown(r, "closed")

RequestKinds == {"is_responsive", "preload_async", "preload_sync", "clear_preloaded", "set_metadata_path",
                 "gen_metadata", "gen_env", "run_phase", "run_phase_file", "shutdown"}

PyInit == [mode |-> "idle", script |-> <<>>, pend |-> <<>>, rid |-> 0, out |-> "-", sub |-> 0, extra |-> {},
           got |-> <<>>, closed |-> FALSE]

PyStart(py, kind, need, have) ==
  [py EXCEPT !.mode = "run", !.rid = py.rid + 1, !.script = Script(kind, py.rid + 1, need, have), !.out = "-", !.got = <<>>]

Next1(py) == [py EXCEPT !.script = Tail(py.script)]
Finish(py, outcome) == [py EXCEPT !.mode = IF py.closed THEN "done" ELSE "idle", !.script = <<>>, !.out = outcome, !.sub = 0]
\* an exception leaves the request; what the callers do with the processor afterwards:
\*   UnhandledCommand / InternalError -> run_generic_phase's handler: shutdown_processor()
\*   EbdError (die) / KeyboardInterrupt -> shutdown_processor(force=True)
Raise(py, exc) ==
  LET cleanup == IF exc \in {"EbdError", "KeyboardInterrupt"} THEN ForceShutdown(exc) ELSE Shutdown(py.rid, exc) IN
  [py EXCEPT !.mode = "run", !.script = cleanup, !.pend = <<>>, !.sub = 0, !.got = <<>>]

PyReading(py) == py.mode \in {"expect1", "consume", "handler", "helper", "bashrc", "dying"}
PyWriting(py) == py.mode = "run" /\ py.script # <<>> /\ Head(py.script).op = "w"
PyInternalReady(py) == py.mode = "run" /\ py.script # <<>> /\ Head(py.script).op \in {"x", "consume", "handler", "ret", "close", "kill"}
PyWaiting(py) == py.mode = "run" /\ py.script # <<>> /\ Head(py.script).op = "wait"

\* is_alive (waitpid WNOHANG) saw that the daemon process is gone: the responsiveness probe is not
\* even written, its failure branch is taken
AtAliveProbe(py) == PyWriting(py) /\ Head(py.script).m.cmd = "alive" /\ Len(py.script) >= 2 /\ py.script[2].op = "x"
NotAlive(py) == [py EXCEPT !.script = py.script[2].fail]

\* --- internal (non I/O) steps ---
PyInternal(py) ==
  LET s == Head(py.script) IN
  CASE s.op = "x" /\ s.async ->
         [Next1(py) EXCEPT !.pend = Append(py.pend, [cmd |-> s.want, arg |-> s.arg, rid |-> py.rid])]
    [] s.op = "x" /\ ~s.async /\ py.pend = <<>> -> [py EXCEPT !.mode = "expect1"]
    [] s.op = "x" /\ ~s.async /\ py.pend # <<>> ->
         [py EXCEPT !.mode = "consume", !.sub = 1,
                    !.pend = Append(py.pend, [cmd |-> s.want, arg |-> s.arg, rid |-> py.rid]), !.got = <<>>]
    [] s.op = "consume" ->
         IF py.pend = <<>> THEN Next1(py) ELSE [py EXCEPT !.mode = "consume", !.sub = 1, !.got = <<>>]
    [] s.op = "handler" ->
         IF py.pend = <<>> THEN [py EXCEPT !.mode = "handler", !.extra = s.extra]
         ELSE [py EXCEPT !.mode = "consume", !.sub = 1, !.got = <<>>]
    [] s.op = "close" -> [Next1(py) EXCEPT !.closed = TRUE]
    [] s.op = "kill"  -> Next1(py)             \* effect on the daemon is applied by the composition
    [] s.op = "ret"   -> Finish(py, s.val)

Matches(e, m) == m.cmd = e.cmd /\ (e.arg = "-" \/ m.arg = e.arg)

(* PyRead(py, m): Python consumes line m in its current reading mode.  Result:
     py   : new state        w : lines written as an immediate reaction
     own  : FALSE iff m was consumed as the answer to an expectation of ANOTHER request  (OwnReply)
     mis  : TRUE iff a payload line was interpreted as a notice                           (NoMisread)
     unk  : TRUE iff m's command word is in no table and Python nevertheless carried on   (UnknownEndsSession) *)
RR(py, w, own, mis) == [py |-> py, w |-> w, own |-> own, mis |-> mis]

NoticeReaction(py, m, mis) ==
  CASE m.cmd = "SIGINT"  -> RR(Raise(py, "KeyboardInterrupt"), <<>>, TRUE, mis)
    [] m.cmd = "dying"   -> RR([py EXCEPT !.mode = "dying"], <<>>, TRUE, mis)
    \* chuck_TermInterrupt shuts the processor down and returns: the session is over
    [] m.cmd = "SIGTERM" -> RR(Raise(py, "TermInterrupt"), <<>>, TRUE, mis)

ExpectFail(py, s) == [py EXCEPT !.mode = "run", !.script = s.fail]
ExpectFailOn(py, s, m) ==
  IF DrainAfterEnvFail /\ s.want = "env_received" /\ m.cmd = "env_receiving_failed"
  THEN [py EXCEPT !.mode = "run", !.script = EnvFailDrain]
  ELSE ExpectFail(py, s)

PyRead(py, m) ==
  IF py.mode = "dying" THEN
      IF m.cmd \in {"dead", "EOF"} THEN RR(Raise(py, "EbdError"), <<>>, TRUE, FALSE) ELSE RR(py, <<>>, TRUE, FALSE)
  ELSE IF m.cmd \in Notices /\ ~(RawHelperLines /\ py.mode = "helper") THEN NoticeReaction(py, m, m.data)
  ELSE CASE py.mode = "expect1" ->
              LET s == Head(py.script)
                  e == [cmd |-> s.want, arg |-> s.arg, rid |-> py.rid] IN
              IF Matches(e, m) THEN RR([Next1(py) EXCEPT !.mode = "run"], <<>>, m.rid = py.rid, FALSE)
              ELSE RR(ExpectFailOn(py, s, m), <<>>, m.cmd = "EOF" \/ m.rid = py.rid, FALSE)
         [] py.mode = "consume" ->
              LET k == py.sub
                  got == Append(py.got, Matches(py.pend[k], m))
                  own == m.cmd = "EOF" \/ m.rid = py.pend[k].rid IN
              IF k < Len(py.pend) THEN RR([py EXCEPT !.sub = k + 1, !.got = got], <<>>, own, FALSE)
              ELSE LET ok == \A j \in DOMAIN got : got[j]
                       s == Head(py.script)
                       base == [py EXCEPT !.pend = <<>>, !.sub = 0, !.got = <<>>] IN
                   IF s.op = "handler" THEN
                       IF ok THEN RR([base EXCEPT !.mode = "handler", !.extra = s.extra], <<>>, own, FALSE)
                       ELSE RR(Raise(base, "UnhandledCommand"), <<>>, own, FALSE)
                   ELSE IF s.op = "x" THEN
                       IF ok THEN RR([Next1(base) EXCEPT !.mode = "run"], <<>>, own, FALSE)
                       ELSE RR(ExpectFailOn(base, s, m), <<>>, own, FALSE)
                   ELSE RR([base EXCEPT !.mode = "run", !.script = IF ok THEN Tail(py.script) ELSE <<Ret("False")>>], <<>>, own, FALSE)
         [] py.mode = "handler" ->
              IF m.cmd = "EOF" THEN RR(Raise(py, "InternalError"), <<>>, TRUE, FALSE)
              ELSE IF m.cmd = "phases" THEN
                  IF m.arg = "succeeded" THEN
                      \* get_ebuild_environment: "receive_env was never invoked" (py.got marks a received dump)
                      IF "receive_env" \in py.extra /\ py.got = <<>> THEN RR(Raise(py, "InternalError"), <<>>, m.rid = py.rid, FALSE)
                      ELSE RR([Next1(py) EXCEPT !.mode = "run"], <<>>, m.rid = py.rid, FALSE)
                  ELSE RR([py EXCEPT !.mode = "run", !.script = <<Ret("ProcessorError")>>], <<>>, m.rid = py.rid, FALSE)
              ELSE IF m.cmd \in Stoppers \/ m.cmd \notin (BaseHandlers \cup py.extra) THEN
                  RR(Raise(py, "UnhandledCommand"), <<>>, TRUE, FALSE)
              ELSE (CASE m.cmd = "request_inherit" ->
                          RR(py, <<Msg("path", "-", py.rid), Msg("eclassfile", "-", py.rid)>>, TRUE, FALSE)
                     [] m.cmd = "key" -> RR(py, <<>>, TRUE, FALSE)
                     [] m.cmd = "receive_env" -> (IF py.got # <<>> THEN RR(Raise(py, "InternalError"), <<>>, TRUE, FALSE)   \* "invoked twice"
                                                  ELSE RR([py EXCEPT !.got = <<TRUE>>], <<>>, TRUE, FALSE))
                     [] m.cmd \in Helpers -> RR([py EXCEPT !.mode = "helper", !.sub = 5], <<>>, TRUE, FALSE)
                     [] m.cmd = "request_bashrcs" ->
                          RR([py EXCEPT !.mode = "bashrc", !.sub = NBashrc], <<Msg("path", "-", py.rid), Msg("bashrcfile", "-", py.rid)>>, TRUE, FALSE)
                     [] m.cmd = "request_sandbox_summary" ->
                          RR(py, <<Msg("end_sandbox_summary", "-", py.rid)>>, TRUE, FALSE))
         [] py.mode = "helper" ->      \* 5 header/argument lines, then exactly ONE reply line
              IF m.cmd = "EOF" THEN RR(Raise(py, "InternalError"), <<>>, TRUE, FALSE)
              ELSE IF py.sub > 1 THEN RR([py EXCEPT !.sub = py.sub - 1], <<>>, TRUE, FALSE)
              ELSE RR([py EXCEPT !.mode = "handler", !.sub = 0], <<Msg("ipcreply", "0", py.rid)>>, TRUE, FALSE)
         [] py.mode = "bashrc" ->      \* expect("next") after the bashrc, then end_request
              IF m.cmd = "next" THEN
                  IF py.sub > 1 THEN RR([py EXCEPT !.sub = py.sub - 1], <<Msg("path", "-", py.rid), Msg("bashrcfile", "-", py.rid)>>, m.rid = py.rid, FALSE)
                  ELSE RR([py EXCEPT !.mode = "handler", !.sub = 0], <<Msg("end_request", "-", py.rid)>>, m.rid = py.rid, FALSE)
              ELSE RR(Raise(py, "UnhandledCommand"), <<>>, TRUE, FALSE)

(* ====================================================================================
   Daemon side.  d == [mode, rid, budget, kind, sub, resume]
     mode : "main" | "phasecfg" | "run" | "inherit1" | "inherit2" | "helper" | "bashrc" | "bashrc2"
            | "sandbox" | "payload" | "garbage" | "dead" | "exited"                          *)
DInit == [mode |-> "main", rid |-> 0, budget |-> 0, kind |-> "-", sub |-> 0, resume |-> "-"]
DGone(d) == d.mode \in {"dead", "exited"}

DR(d, out) == [d |-> d, out |-> out]
Die(d, rid) == DR([d EXCEPT !.mode = "dead"], <<Msg("dying", "-", rid), Msg("errline", "-", rid), Msg("dead", "-", rid)>>)

DWantsRead(d) == d.mode \in {"main", "phasecfg", "inherit1", "inherit2", "helper", "bashrc", "bashrc2", "sandbox", "payload"}

\* after a counted read: surplus units are parsed as the next line; a deficit swallows following lines
AfterPayload(d, m, nextd, out) ==
  IF m.need = m.have THEN {DR(nextd, out)}
  ELSE IF m.need < m.have THEN {DR([nextd EXCEPT !.resume = nextd.mode, !.mode = "garbage"], out)}
  ELSE {DR([nextd EXCEPT !.mode = "payload", !.sub = m.need - m.have, !.resume = nextd.mode], <<>>)}

\* DRead(d, m): SET of possible results (internal choices of the daemon: does the eclass parse, ...)
DRead(d, m) ==
  IF m.cmd = "EOF" THEN
      IF d.mode = "main" THEN {DR([d EXCEPT !.mode = "exited"], <<>>)} ELSE {DR([d EXCEPT !.mode = "dead"], <<>>)}
  ELSE
  CASE d.mode = "payload" ->          \* still owed d.sub units: this line is eaten as payload
         IF d.sub > 1 THEN {DR([d EXCEPT !.sub = d.sub - 1], <<>>)}
         ELSE LET nd == [d EXCEPT !.mode = d.resume, !.sub = 0] IN
              IF d.resume = "main" THEN {DR(nd, <<Msg("metadata_path_received", "-", d.rid)>>)}
              ELSE IF d.resume = "phasecfg" THEN {DR(nd, <<Msg("env_received", "-", d.rid)>>)}
              ELSE {DR(nd, <<>>)}
    [] d.mode = "main" ->
        (CASE m.cmd = "process_ebuild" -> {DR([d EXCEPT !.mode = "phasecfg", !.rid = m.rid, !.kind = "phase"], <<>>)}
           [] m.cmd = "shutdown_daemon" -> {DR([d EXCEPT !.mode = "exited"], <<>>)}
           [] m.cmd = "preload_eclass"  -> {DR(d, <<Msg("preload_eclass", "succeeded", m.rid)>>),
                                            DR(d, <<Msg("preload_eclass", "failed", m.rid)>>)}
           [] m.cmd = "clear_preloaded_eclasses" -> {DR(d, <<Msg("clear_preloaded_eclasses", "succeeded", m.rid)>>)}
           [] m.cmd = "set_metadata_path" ->
                AfterPayload(d, m, [d EXCEPT !.rid = m.rid], <<Msg("metadata_path_received", "-", m.rid)>>)
           [] m.cmd \in {"gen_metadata", "gen_ebuild_env"} ->
                AfterPayload(d, m, [d EXCEPT !.mode = "run", !.rid = m.rid, !.budget = Budget,
                                            !.kind = IF m.cmd = "gen_metadata" THEN "meta" ELSE "env"], <<>>)
           [] m.cmd = "alive" -> {DR(d, <<Msg("yep!", "-", m.rid)>>)}
           [] OTHER -> {Die(d, m.rid)})                     \* "unknown ebd com"
    [] d.mode = "phasecfg" ->
        (CASE m.cmd = "start_receiving_env" ->
                (IF m.arg = "bytes" THEN AfterPayload(d, m, d, <<Msg("env_received", "-", m.rid)>>)
                 ELSE {DR(d, <<Msg("env_received", "-", m.rid)>>)})
                \* the environment does not evaluate: subshell exits 1, main loop reports the failed phase
                \cup {DR([d EXCEPT !.mode = "main"], <<Msg("env_receiving_failed", "-", m.rid), Msg("phases", "failed", m.rid)>>)}
           [] m.cmd = "logging" -> {DR(d, <<Msg("logging_ack", "-", m.rid)>>)}
           [] m.cmd = "set_sandbox_state" -> {DR(d, <<>>)}
           [] m.cmd = "start_processing" -> {DR([d EXCEPT !.mode = "run", !.budget = Budget], <<>>)}
           [] m.cmd = "alive" -> {DR(d, <<Msg("yep!", "-", m.rid)>>)}
           [] m.cmd = "shutdown_daemon" -> {DR([d EXCEPT !.mode = "main"], <<Msg("phases", "succeeded", d.rid)>>)}
           [] OTHER -> {Die(d, d.rid)})                     \* "unknown phase processing com"
    [] d.mode = "inherit1" ->
         IF m.cmd \in {"path", "transfer"} THEN {DR([d EXCEPT !.mode = "inherit2"], <<>>)} ELSE {Die(d, d.rid)}
    [] d.mode = "inherit2" -> {DR([d EXCEPT !.mode = "run"], <<>>)}
    [] d.mode = "helper"   -> {DR([d EXCEPT !.mode = "run"], <<>>)}            \* __ebd_read_array ret
    [] d.mode = "bashrc"   ->
        (CASE m.cmd = "end_request" -> {DR([d EXCEPT !.mode = "run"], <<>>)}
           [] m.cmd \in {"path", "transfer"} -> {DR([d EXCEPT !.mode = "bashrc2"], <<>>)}
           [] OTHER -> {DR([d EXCEPT !.mode = "dead"], <<Msg("failed", "-", d.rid), Msg("dying", "-", d.rid),
                                                            Msg("errline", "-", d.rid), Msg("dead", "-", d.rid)>>)})
    [] d.mode = "bashrc2"  -> {DR([d EXCEPT !.mode = "bashrc"], <<Msg("next", "-", d.rid)>>)}
    [] d.mode = "sandbox"  ->
         IF m.cmd = "end_sandbox_summary" THEN {DR([d EXCEPT !.mode = "main"], <<Msg("phases", "failed", d.rid)>>)}
         ELSE {DR(d, <<>>)}                                 \* echoed to stderr, keeps waiting

\* internal actions of the daemon (choices of the running ebuild, or the pending garbage line)
DActs(d) ==
  IF d.mode = "garbage" THEN {"garbage"}
  ELSE IF d.mode # "run" THEN {}
  ELSE {"finish_ok", "finish_fail", "die"}
       \cup (IF d.budget > 0 THEN {"inherit"} ELSE {})
       \cup (IF d.budget > 0 /\ d.kind = "meta" THEN {"key"} ELSE {})
       \cup (IF d.budget > 0 /\ d.kind = "env" THEN {"receive_env"} ELSE {})
       \cup (IF d.budget > 0 /\ d.kind = "phase" THEN {"helper", "helper_notice_arg", "bashrcs"} ELSE {})
       \cup (IF d.kind = "phase" THEN {"sandbox_fail"} ELSE {})

HelperReq(r, argword) == <<Msg("doins", "-", r), DMsg("h_nonfatal", r), DMsg("h_cwd", r), DMsg("h_phase", r),
                           DMsg("h_opts", r), DMsg(argword, r)>>

DAct(d, a) ==
  LET r == d.rid
      less == [d EXCEPT !.budget = d.budget - 1] IN
  CASE a = "garbage"     -> Die(d, r)                      \* leftover bytes read as a command line
    [] a = "finish_ok"   -> DR([d EXCEPT !.mode = "main"], <<Msg("phases", "succeeded", r)>>)
    [] a = "finish_fail" -> DR([d EXCEPT !.mode = "main"], <<Msg("phases", "failed", r)>>)
    [] a = "die"         -> Die(d, r)
    [] a = "inherit"     -> DR([less EXCEPT !.mode = "inherit1"], <<Msg("request_inherit", "e", r)>>)
    [] a = "key"         -> DR(less, <<Msg("key", "k=v", r)>>)
    [] a = "receive_env" -> DR(less, <<Msg("receive_env", "n", r)>>)
    [] a = "helper"      -> DR([less EXCEPT !.mode = "helper"], HelperReq(r, "h_args"))
    \* a helper argument whose first word happens to be a notice word (dodoc "dying gasp.txt")
    [] a = "helper_notice_arg" -> DR([less EXCEPT !.mode = "helper"], HelperReq(r, "dying"))
    [] a = "bashrcs"     -> DR([less EXCEPT !.mode = "bashrc"], <<Msg("request_bashrcs", "-", r)>>)
    \* the phase failed and a sandbox log exists: bash asks Python to print the summary
    [] a = "sandbox_fail" -> DR([d EXCEPT !.mode = "sandbox"], <<Msg(DSandboxRequest, "-", r)>>)

\* a signal delivered to the daemon: it announces it and exits
DSignal(d, sig) == DR([d EXCEPT !.mode = "dead"], <<Msg(sig, "-", d.rid)>>)
=========================================================================
