---------------------------- MODULE Commandline_Sim ----------------------------
(* spec -> code: TLC (simulation mode) draws histories of D calls of one Tool over the driver's
   universe (command line x failing hook); hist holds only the INPUTS.  Each history is replayed on
   a real pkgcore Tool by drivers/g08_commandline.py and judged by Commandline_Trace.          *)
EXTENDS Commandline_MC
CONSTANT D
VARIABLES hist, done
simvars == <<st, x, c, n, hist, done>>
SimCalls == TLCEval(ArgCalls \cup FaultCalls)
SimInit == Init /\ hist = <<>> /\ done = FALSE
SimStep == /\ ~done /\ Len(hist) < D
           /\ \E cc \in {RandomElement(SimCalls)} :
                 /\ st' = After(st, RunCall(st, cc))
                 /\ hist' = Append(hist, cc)
           /\ done' = FALSE /\ UNCHANGED <<x, c, n>>
SimFinish == /\ ~done /\ Len(hist) = D
             /\ PrintT(<<"BEH", hist>>)
             /\ done' = TRUE /\ UNCHANGED <<st, x, c, n, hist>>
SimSpec == SimInit /\ [][SimStep \/ SimFinish]_simvars
=========================================================================
