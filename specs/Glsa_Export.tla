---------------------------- MODULE Glsa_Export ----------------------------
(* spec -> code: the package pool and every advisory entry of the bounded space.  Versions are
   exported as text (rendered by the spec), sets as sequences.                               *)
EXTENDS Glsa_Cases, TLC, Json, IOUtils, SequencesExt
JR(r) == [op |-> r.op, ver |-> RenderVer(r.ver), glob |-> r.glob, slot |-> r.slot]
JRs(rs) == [k \in DOMAIN rs |-> JR(rs[k])]
Cases == {[kind |-> "pkg", name |-> p.name, ver |-> RenderVer(p.ver), slot |-> p.slot, keywords |-> SetToSeq(p.keywords)] : p \in Pool}
         \cup {[kind |-> "entry", name |-> e.name, arches |-> SetToSeq(e.arches), vuln |-> JRs(e.vuln), unaff |-> JRs(e.unaff)] : e \in Entries}
ASSUME ndJsonSerialize(IOEnv.OUT, SetToSeq(Cases))
=========================================================================
