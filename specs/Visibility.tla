---------------------------- MODULE Visibility ----------------------------
(* C13: package visibility through a configured domain
   (src/pkgcore/ebuild/domain.py: filter_repo / generate_filter, _make_keywords_filter,
    _apply_keywords_filter, _apply_license_filter;  repository/filtered.py).

   Visible(p) == MaskOK(p) /\ KeywordOK(p) /\ LicenseOK(p)

   Universe (the driver renders names into atoms / packages, as for C11):
     packages  a1 = cat/a-1  a2 = cat/a-2  b1 = cat/b-1  c1 = dog/c-1
     scopes    glob cat_cat cat_dog any_a eq_a1 ge_a2 any_b any_c
     keywords  amd64 x86 (stable)  ~amd64 ~x86 (testing)  -amd64 -* (broken markers of a package)
               accept tokens additionally  **  *  ~*
   A configuration cfg:
     arch, nodes (profile nodes, the last one is the configured profile):
              [parents: indices of earlier nodes in `parent` file order,
               akw: ACCEPT_KEYWORDS tokens, alic: ACCEPT_LICENSE tokens,
               mask, unmask: [neg: scope names, pos: scope names]  (package.mask / package.unmask),
               pakw: entries [sc, toks] of package.accept_keywords]
     conf [akw, alic]                         the user's make.conf
     user [mask, unmask: scope names, pakw: entries [sc, toks], plic: entries [sc, toks]]
     repo [masks: scope names, defs: licence group definitions]
     pkgs : package id -> [kws: set of keyword texts, lic: licence tree]
   Token streams are Incremental token sequences (keyword / licence texts are the bodies).    *)
EXTENDS Incremental, TLC

Pkgs == {"a1", "a2", "b1", "c1"}
ScopeTable == [glob |-> Pkgs, cat_cat |-> {"a1", "a2", "b1"}, cat_dog |-> {"c1"},
               any_a |-> {"a1", "a2"}, eq_a1 |-> {"a1"}, ge_a2 |-> {"a2"}, any_b |-> {"b1"}, any_c |-> {"c1"}]
ScopeNames == DOMAIN ScopeTable
Hits(scs, p) == \E sc \in scs : p \in ScopeTable[sc]

Stable  == {"amd64", "x86"}
Testing == {"~amd64", "~x86"}
StableOf  == ("~amd64" :> "amd64") @@ ("~x86" :> "x86")
TestingOf == ("amd64" :> "~amd64") @@ ("x86" :> "~x86")

(* ------------------------------------ masks ------------------------------------ *)
\* a profile node removes the atoms it negates from what its parents (and, for masks, the
\* repository) contributed, then adds its own
\* (the nodes are taken in STACK order, Incremental!StackSeq: a node inherited along several
\*  paths is applied once per path)
NodeFold(cfg, start, Pick(_)) ==
    LET st == StackSeq(cfg.nodes)
        f[k \in 0..Len(st)] == IF k = 0 THEN start
                               ELSE (f[k - 1] \ Pick(cfg.nodes[st[k]]).neg) \cup Pick(cfg.nodes[st[k]]).pos
    IN f[Len(st)]
Masks(cfg)   == NodeFold(cfg, cfg.repo.masks, LAMBDA n : n.mask) \cup cfg.user.mask
Unmasks(cfg) == NodeFold(cfg, {}, LAMBDA n : n.unmask) \cup cfg.user.unmask
MaskOK(cfg, p) == ~Hits(Masks(cfg), p) \/ Hits(Unmasks(cfg), p)

(* ----------------------------------- keywords ----------------------------------- *)
NodeStream(cfg, Pick(_)) ==
    LET st == StackSeq(cfg.nodes)
        f[k \in 0..Len(st)] == IF k = 0 THEN <<>> ELSE f[k - 1] \o Pick(cfg.nodes[st[k]])
    IN f[Len(st)]
\* ACCEPT_KEYWORDS: one incremental stream, profile first then the user's; ARCH is always
\* accepted and accepting ~k accepts k as well
AcceptGlobal(cfg) == LET A == Fold(NodeStream(cfg, LAMBDA n : n.akw) \o cfg.conf.akw, {})
                     IN {cfg.arch} \cup A \cup {StableOf[k] : k \in A \cap Testing}
StableSystem(cfg) == TestingOf[cfg.arch] \notin AcceptGlobal(cfg)
KwEntries(cfg) == cfg.user.pakw \o NodeStream(cfg, LAMBDA n : n.pakw)
\* what one matching entry accepts: its tokens; an empty entry means ~ARCH on a stable system
EntryAccepts(cfg, e) == IF e.toks = <<>> THEN (IF StableSystem(cfg) THEN {TestingOf[cfg.arch]} ELSE {})
                        ELSE {Body(e.toks[k]) : k \in DOMAIN e.toks}
AcceptedKw(cfg, p) == AcceptGlobal(cfg) \cup
                    UNION {EntryAccepts(cfg, KwEntries(cfg)[k]) : k \in {j \in DOMAIN KwEntries(cfg) : p \in ScopeTable[KwEntries(cfg)[j].sc]}}
KeywordOK(cfg, p) ==
    LET acc == AcceptedKw(cfg, p)
        kws == cfg.pkgs[p].kws
    IN \/ "**" \in acc
       \/ "*" \in acc /\ kws \cap Stable # {}
       \/ "~*" \in acc /\ kws \cap Testing # {}
       \/ kws \cap acc # {}

(* ----------------------------------- licences ----------------------------------- *)
\* licence tree: [k: "lic" | "all" | "any", name, kids]; Alternatives = its DNF
Prod(A, B) == {a \cup b : a \in A, b \in B}
RECURSIVE Alternatives(_)
Alternatives(t) ==
    CASE t.k = "lic" -> {{t.name}}
      [] t.k = "any" -> UNION {Alternatives(t.kids[i]) : i \in DOMAIN t.kids}
      [] OTHER       -> LET f[i \in 0..Len(t.kids)] == IF i = 0 THEN {{}} ELSE Prod(f[i - 1], Alternatives(t.kids[i]))
                        IN f[Len(t.kids)]
\* direct reading of the tree against a fixed accepted set (used by the laws)
RECURSIVE Satisfied(_, _)
Satisfied(t, acc) ==
    CASE t.k = "lic" -> t.name \in acc
      [] t.k = "any" -> \E i \in DOMAIN t.kids : Satisfied(t.kids[i], acc)
      [] OTHER       -> \A i \in DOMAIN t.kids : Satisfied(t.kids[i], acc)

LicStream(cfg, p) ==
    LET es == cfg.user.plic
        app == [k \in DOMAIN es |-> [scope |-> ScopeTable[es[k].sc], toks |-> es[k].toks]]
    IN NodeStream(cfg, LAMBDA n : n.alic) \o cfg.conf.alic \o Flatten(Applicable(app, p))
\* "*" stands for the licences of the alternative under consideration
LicenseOK(cfg, p) ==
    \E alt \in Alternatives(cfg.pkgs[p].lic) :
        alt \subseteq FoldLicense(LicStream(cfg, p), Flat(cfg.repo.defs), alt)

Visible(cfg, p) == MaskOK(cfg, p) /\ KeywordOK(cfg, p) /\ LicenseOK(cfg, p)

(* domain of the property (what the generators must respect) *)
NoBroken(ts) == ~HasIncomplete(ts, LicIncomplete)
InDomain(cfg) ==
    /\ cfg.arch \in Stable
    /\ WellStacked(cfg.nodes)
    /\ \A k \in DOMAIN cfg.nodes : cfg.nodes[k].mask.neg \cap cfg.nodes[k].mask.pos = {}
                                  /\ cfg.nodes[k].unmask.neg \cap cfg.nodes[k].unmask.pos = {}
    /\ \A p \in Pkgs : NoBroken(LicStream(cfg, p)) /\ LicStream(cfg, p) # <<>>
    /\ \A k \in DOMAIN KwEntries(cfg) : \A j \in DOMAIN KwEntries(cfg)[k].toks : ~KwEntries(cfg)[k].toks[j].neg
=========================================================================
