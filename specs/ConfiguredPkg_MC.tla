---------------------------- MODULE ConfiguredPkg_MC ----------------------------
(* Design check for C14: every history of enable / disable requests (one or two flags, locked
   ones included), rollbacks, commits and reads over MCFlags, together with the MECHANISM of
   PackageWrapper: a generation counter `pt` and a per-attribute cache tagged with the
   generation it was computed in (a cached value is abstracted to the USE set it was computed
   under - the raw attributes of the conformance runs reveal exactly that).
     BumpOnDisable : request_disable advances the generation
     CommitResets  : commit() sets the generation back to 0
     Exact         : rollback restores the earlier USE set exactly
   TLC shows ViewFresh / RefusedLeavesUse for (TRUE, FALSE, TRUE) and finds the counterexample
   for each deviation (the driver runs those and expects the violation).                      *)
EXTENDS ConfiguredPkg, TLC
CONSTANTS MCFlags, BumpOnDisable, CommitResets, Exact, OpenPolicy, MaxPt, Attrs

VARIABLES s, pt, cache, last
vars == <<s, pt, cache, last>>
NoVal == [tag |-> MaxPt + 1, use |-> {}]        \* nothing cached (a tag no generation has)

Vs == {<<f>> : f \in MCFlags} \cup {<<f, g>> : <<f, g>> \in {x \in MCFlags \X MCFlags : x[1] # x[2]}}
Init == /\ s \in {[use |-> u, log |-> <<>>] : u \in SUBSET MCFlags}
        /\ pt = 0 /\ cache = [a \in Attrs |-> NoVal]
        /\ last = [ret |-> TRUE, pre |-> s.use]
Bump == IF pt < MaxPt THEN pt + 1 ELSE pt
Req(kind, vs) ==
  LET o == Request(s, kind, vs, OpenPolicy, Exact) IN
  /\ pt < MaxPt
  /\ s' = o.s
  /\ last' = [ret |-> o.ret, pre |-> s.use]
  \* request_enable bumps on success; a refusal goes through rollback(), which bumps
  /\ pt' = IF ~o.ret \/ kind = "enable" \/ BumpOnDisable THEN pt + 1 ELSE pt
  /\ UNCHANGED cache
Rollback(n) == /\ pt < MaxPt /\ n <= Len(s.log)
               /\ s' = RollbackTo(s, n, Exact) /\ pt' = pt + 1
               /\ last' = [ret |-> TRUE, pre |-> s.use] /\ UNCHANGED cache
Commit == /\ s' = DoCommit(s) /\ pt' = IF CommitResets THEN 0 ELSE pt
          /\ last' = [ret |-> TRUE, pre |-> s.use] /\ UNCHANGED cache
Read(a) == /\ cache[a].tag # pt
           /\ cache' = [cache EXCEPT ![a] = [tag |-> pt, use |-> s.use]]
           /\ UNCHANGED <<s, pt, last>>
Next == \/ \E kind \in {"enable", "disable"}, vs \in Vs : Req(kind, vs)
        \/ \E n \in 0..Cardinality(MCFlags) : Rollback(n)
        \/ Commit
        \/ \E a \in Attrs : Read(a)
Spec == Init /\ [][Next]_vars

TypeOK == /\ s.use \subseteq MCFlags /\ LogOK(s) /\ pt \in 0..MaxPt
\* whatever is read next is the raw attribute under the current USE set
ViewFresh == \A a \in Attrs : cache[a].tag = pt => cache[a].use = s.use
RefusedLeavesUse == last.ret \/ s.use = last.pre
LockedNeverChange == [][s'.use \cap Locked = s.use \cap Locked]_vars
=========================================================================
