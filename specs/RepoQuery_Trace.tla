---------------------------- MODULE RepoQuery_Trace ----------------------------
(* C08 judge.  A trace is a sequence of universes; each starts with its header event (Tr[1] is one):
     {tid:-1, i:0, ev:"universe",
      members:[{c, p, v, r, truth:[leaf ids matching this package]}, ...],        versioned packages
      pairs:  [{c, p, v:0, r, truth:[leaf ids matching the unversioned object]}],  one per repo x listed (cat, pkg)
      absent0:[member indices that are not in their repository initially (added later)]}
   {tid, i, ev:"add"|"remove", k, raised:BOOL}   the repository was told (notify_add_package / notify_remove_package)
                                    that member k was added / removed: the state variable absent follows
   Every other event is one real query:
     {tid, i, ev:"query", mode:"plain"|"asc"|"desc", unversioned:BOOL, stack:[repository indices],
      filt:{id, keep}   (id = 0: none; else the repository is filtered.tree: members whose leaf `id`
                         truth equals keep are its contents),
      t:<tree>, raised:BOOL, got:[indices into members (or pairs), in the order yielded]}
   Clauses (prefix Pairs_ for unversioned queries, Stack_ for queries over > 1 repository):
     Missing / Spurious / Duplicate   the yielded packages are not exactly the answer, each once
     SorterOrder                      a sorted query is not in sorter order
     Raised                           the query raised instead of answering
     Update_Raised                    notify_add_package of an absent member / notify_remove_package of a
                                      held member raised (the update still counts as done: the backend changed) *)
EXTENDS RepoQuery, TraceLib
VARIABLES l, absent, hd      \* hd: position of the header of the universe being replayed
H == Tr[hd]
Pool(e) == IF e.unversioned THEN H.pairs ELSE H.members
InRepo(e, m) == /\ \E k \in DOMAIN e.stack : e.stack[k] = m.r
                /\ (e.filt.id = 0 \/ ((e.filt.id \in AsSet(m.truth)) = e.filt.keep))
Held(e, k) == IF e.unversioned THEN PairHolds(H.members, absent, H.pairs[k]) ELSE k \notin absent
Expected(e) == LET pool == Pool(e) IN
    {k \in DOMAIN pool : Held(e, k) /\ InRepo(e, pool[k]) /\ Eval(e.t, AsSet(pool[k].truth))}
Keys(e) == LET pool == Pool(e) IN [k \in DOMAIN e.got |-> <<pool[e.got[k]].c, pool[e.got[k]].p, pool[e.got[k]].v>>]

Judge(e) ==
    IF e.ev = "universe" THEN {}
    ELSE IF e.ev = "add" THEN (IF e.k \notin absent THEN {"OutsideDomain"} ELSE IF e.raised THEN {"Update_Raised"} ELSE {})
    ELSE IF e.ev = "remove" THEN (IF e.k \notin DOMAIN H.members \/ e.k \in absent THEN {"OutsideDomain"}
                                  ELSE IF e.raised THEN {"Update_Raised"} ELSE {})
    ELSE IF e.ev # "query" THEN {"UnknownEvent"}
    ELSE IF ~WellFormed(e.t) \/ \E k \in DOMAIN e.got : e.got[k] \notin DOMAIN Pool(e) THEN {"OutsideDomain"}
    ELSE LET pre == (IF e.unversioned THEN "Pairs_" ELSE "") \o (IF Len(e.stack) > 1 THEN "Stack_" ELSE "")
             exp == Expected(e)
             got == AsSet(e.got)
         IN IF e.raised THEN {pre \o "Raised"}
            ELSE (IF exp \subseteq got THEN {} ELSE {pre \o "Missing"})
                 \cup (IF got \subseteq exp THEN {} ELSE {pre \o "Spurious"})
                 \cup (IF NoDuplicates(e.got) THEN {} ELSE {pre \o "Duplicate"})
                 \cup (IF e.mode = "plain" \/ InSorterOrder(Keys(e), e.mode) THEN {} ELSE {pre \o "SorterOrder"})

TraceInit == l = 1 /\ hd = 1 /\ absent = AsSet(Tr[1].absent0)
TraceNext == /\ l < Len(Tr)
             /\ l' = l + 1
             /\ Report(Tr[l'].tid, Tr[l'].i, Judge(Tr[l']))
             /\ hd' = IF Tr[l'].ev = "universe" THEN l' ELSE hd
             /\ absent' = CASE Tr[l'].ev = "universe" -> AsSet(Tr[l'].absent0)
                             [] Tr[l'].ev = "add" -> AfterAdd(absent, Tr[l'].k)
                             [] Tr[l'].ev = "remove" -> AfterRemove(absent, Tr[l'].k)
                             [] OTHER -> absent
             /\ EndMark(l')
TraceSpec == TraceInit /\ [][TraceNext]_<<l, absent, hd>>
=========================================================================
