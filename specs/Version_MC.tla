----------------------------- MODULE Version_MC -----------------------------
(* C01, design level: the PMS order on a bounded grammar is a total preorder, the
   version operators agree with it, and "growing" a version moves it the way PMS
   intends.  State = a triple of versions; every triple of the grammar is an
   initial state, so the invariants below are checked for ALL pairs and triples.
   The transitions grow the first version by one syntactic element (staying in
   the grammar); the action property Monotone states which way each kind of
   growth moves the version in the order.                                     *)
EXTENDS Version_Gram, TLC

CONSTANTS VA, VB, VC          \* the three grammars (VC a singleton = pairs only)
VARIABLES a, b, c
vars == <<a, b, c>>

OneVer == {[nums |-> <<<<1>>>>, letter |-> 0, sufs |-> <<>>, rev |-> <<>>]}

Init == a \in VA /\ b \in VB /\ c \in VC

(* ---- growth steps of a ---- *)
AppendComp(v, d) == [v EXCEPT !.nums = Append(v.nums, d)]
AppendSuf(v, s)  == [v EXCEPT !.sufs = Append(v.sufs, s)]
SetLetter(v, l)  == [v EXCEPT !.letter = l]
SetRev(v, r)     == [v EXCEPT !.rev = r]

GrowComp == \E d \in C9 : a' = AppendComp(a, d)
GrowSuf  == \E s \in VSuf(VSufKinds, N4) : a' = AppendSuf(a, s)
GrowLet  == a.letter = 0 /\ \E l \in 1..26 : a' = SetLetter(a, l)
GrowRev  == \E r \in R4 : VNatCmp(r, a.rev) = 1 /\ a' = SetRev(a, r)
Next == /\ (GrowComp \/ GrowSuf \/ GrowLet \/ GrowRev)
        /\ a' \in VA
        /\ UNCHANGED <<b, c>>
Spec == Init /\ [][Next]_vars

(* ---- invariants: pairs ---- *)
TypeOK    == IsVer(a) /\ IsVer(b) /\ IsVer(c)
RangeOK   == VerCmp(a, b) \in {-1, 0, 1}
Reflexive == VerCmp(a, a) = 0
\* antisymmetry of the preorder: swapping the arguments negates the result
Antisym   == VerCmp(a, b) = -VerCmp(b, a)
\* exactly one of < = > holds, and the compound / mirrored operators follow
OpsAgree ==
    LET lt == OpHolds("<", a, b)   le == OpHolds("<=", a, b)  eq == OpHolds("=", a, b)
        ge == OpHolds(">=", a, b)  gt == OpHolds(">", a, b)   ti == OpHolds("~", a, b)
    IN  /\ (IF lt THEN 1 ELSE 0) + (IF eq THEN 1 ELSE 0) + (IF gt THEN 1 ELSE 0) = 1
        /\ le = (lt \/ eq)
        /\ ge = (gt \/ eq)
        /\ lt = OpHolds(">", b, a)
        /\ le = OpHolds(">=", b, a)
        /\ eq = OpHolds("=", b, a)
        /\ (eq => ti)
        /\ ti = OpHolds("=", VNoRev(a), VNoRev(b))
        /\ ti = OpHolds("~", b, a)
\* the spelling identifies the version (so rendering cases for the code is faithful)
TextInjective == (VerText(a) = VerText(b)) => (a = b)
\* omitted numbers read as 0, leading zeros of integers do not matter
ZeroIsOmitted ==
    /\ VerCmp(a, SetRev(a, <<0>>)) = (IF VStripLead(a.rev) = <<>> THEN 0 ELSE 1)
    /\ \A i \in DOMAIN a.sufs : a.sufs[i].n = <<>> =>
           VerCmp(a, [a EXCEPT !.sufs[i].n = <<0>>]) = 0
    /\ VerCmp(a, [a EXCEPT !.nums[1] = <<0>> \o a.nums[1]]) = 0
    /\ VerCmp(a, SetRev(a, <<0>> \o a.rev)) = 0

(* ---- invariants: triples ---- *)
Transitive ==
    LET ab == VerCmp(a, b)  bc == VerCmp(b, c)  ac == VerCmp(a, c)
    IN  (ab <= 0 /\ bc <= 0) => (ac <= 0 /\ ((ab < 0 \/ bc < 0) => ac < 0))
\* the classes of "=" are congruences: equal versions compare alike with everything
Congruence == VerCmp(a, b) = 0 => /\ VerCmp(a, c) = VerCmp(b, c)
                                  /\ \A op \in VerOps : OpHolds(op, c, a) = OpHolds(op, c, b)

(* ---- action property: growth is monotone the way PMS says ---- *)
Monotone ==
    [][ /\ (GrowComp => VerCmp(a', a) = 1)
        /\ (GrowLet  => VerCmp(a', a) = 1)
        /\ (GrowRev  => VerCmp(a', a) = 1)
        /\ (\A s \in VSuf(VSufKinds, N4) : a' = AppendSuf(a, s) =>
               VerCmp(a', a) = (IF s.k = "p" THEN 1 ELSE -1)) ]_vars
=============================================================================
