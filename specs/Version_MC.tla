----------------------------- MODULE Version_MC -----------------------------
(* C01, design level: the PMS order on a bounded grammar is a total preorder and
   "growing" a version moves it the way PMS intends.

   The grammar Vers is enumerated once (VS) and the comparison of every ordered
   pair is tabulated with the specification operator (Tab[i][j] = VerCmp(VS[i],
   VS[j])).  A state is a triple <<ia, ib, ic>> of versions (by their index); every
   triple of the grammar is an initial state, so the invariants are checked for
   ALL pairs and triples.  The transitions grow the first version by one
   syntactic element (staying inside the grammar); the action property Monotone
   states which way each kind of growth must move the version in the order.

   (The pair laws that need versions outside the grammar live in Version_Laws.) *)
EXTENDS Version_Gram, TLC, SequencesExt

CONSTANT Vers
VARIABLES ia, ib, ic
vars == <<ia, ib, ic>>

VS  == SetToSeq(Vers)
N   == Len(VS)
\* (TLCEval: TLC keeps [x \in S |-> e] as a lazy function and re-evaluates e on every
\*  application; the tables are computed once)
Tab == TLCEval([x \in 1..N |-> TLCEval([y \in 1..N |-> VerCmp(VS[x], VS[y])])])

(* ---- growth of a version by one element ---- *)
\* (structural tests: w is v plus one trailing element / a letter / a larger revision)
VSameBut(v, w, f) == \A g \in {"nums", "letter", "sufs", "rev"} \ {f} : v[g] = w[g]
VExtends(s, t)    == Len(t) = Len(s) + 1 /\ \A x \in 1..Len(s) : t[x] = s[x]
GrowComp(v, w) == VSameBut(v, w, "nums") /\ VExtends(v.nums, w.nums)
GrowSufP(v, w) == VSameBut(v, w, "sufs") /\ VExtends(v.sufs, w.sufs) /\ w.sufs[Len(w.sufs)].k = "p"
GrowSufM(v, w) == VSameBut(v, w, "sufs") /\ VExtends(v.sufs, w.sufs) /\ w.sufs[Len(w.sufs)].k # "p"
GrowLet(v, w)  == VSameBut(v, w, "letter") /\ v.letter = 0 /\ w.letter # 0
GrowRev(v, w)  == VSameBut(v, w, "rev") /\ VNatCmp(w.rev, v.rev) = 1
Up(v, w)   == GrowComp(v, w) \/ GrowSufP(v, w) \/ GrowLet(v, w) \/ GrowRev(v, w)
Down(v, w) == GrowSufM(v, w)
\* successor tables, computed once
UpOf   == TLCEval([x \in 1..N |-> TLCEval({y \in 1..N : Up(VS[x], VS[y])})])
DownOf == TLCEval([x \in 1..N |-> TLCEval({y \in 1..N : Down(VS[x], VS[y])})])

Init == ia \in 1..N /\ ib \in 1..N /\ ic \in 1..N
StepUp   == ia' \in UpOf[ia]   /\ UNCHANGED <<ib, ic>>
StepDown == ia' \in DownOf[ia] /\ UNCHANGED <<ib, ic>>
Next == StepUp \/ StepDown
Spec == Init /\ [][Next]_vars

(* ---- invariants ---- *)
TypeOK    == ia \in 1..N /\ ib \in 1..N /\ ic \in 1..N /\ Tab[ia][ib] \in {-1, 0, 1}
Reflexive == Tab[ia][ia] = 0
\* antisymmetry of the preorder: swapping the arguments negates the result
Antisym   == Tab[ia][ib] = -Tab[ib][ia]
Transitive ==
    LET ab == Tab[ia][ib]  bc == Tab[ib][ic]  ac == Tab[ia][ic]
    IN  (ab <= 0 /\ bc <= 0) => (ac <= 0 /\ ((ab < 0 \/ bc < 0) => ac < 0))
\* the classes of "=" are congruences: equal versions compare alike with everything
Congruence == Tab[ia][ib] = 0 => Tab[ia][ic] = Tab[ib][ic]

(* ---- action property: growth is monotone the way PMS says:
        a further numeric component, a letter, a larger revision and a _p suffix
        make a version newer, any other suffix makes it older ---- *)
Monotone == [][ /\ (StepUp   => Tab[ia'][ia] = 1)
                /\ (StepDown => Tab[ia'][ia] = -1) ]_vars
=============================================================================
