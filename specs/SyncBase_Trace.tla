---------------------------- MODULE SyncBase_Trace ----------------------------
(* code -> spec: judges what the real syncer classes did (drivers/g05_syncbase.py), event by event,
   with the operators of SyncBase.  Every event carries its inputs, the relevant state before the
   call as observed, what the environment was scripted to do, and the observations; the expected
   values are computed HERE.  Events (all have tid, i, ev):

   select    uri (chars), bins, ssh, users (texts), uids [{name, uid}], usersync, base_exists, base_uid/gid,
             proc_uid/gid, portage_uid/gid                 -> got_cls, got_err, got_uri (chars), got_uid, got_gid
   detect    markers, bins, info, owner_named, owner_uid, info_url, usersync, base_*, proc_*, portage_*
                                                           -> got_cls, got_err, got_uri, got_uid, got_gid, spawns, res
   vcs       cls, tree, opts, v (9 = not given), force, code, bin, uri, basedir, sock, rsh, uid, gid
                                                           -> spawns [{argv, cwd, uid, gid, env}], res
   construct ts, disk                                      -> got_cached
   rsync     ts, force, v, retries, gate_retries, proxy, rsh, pre, host, post, opts, extra, compress, ct,
             excludes, includes, bin, basedir, sock, uid, gid, proc_uid, proc_gid, fwd, neg, has_ipv6,
             remote, disk_before, cached_before, dns [{ok, addrs [{ip, v6}]}], script [{code, wrote}]
                                                           -> spawns [{argv, uid, gid, env, cwd}], fams, res,
                                                              disk_after, cached_after
   Clauses: Select_error / Select_class / Select_uri / Select_ids,  Detect_class / Detect_uri / Detect_ids /
   Detect_updates,  Vcs_once / Vcs_command / Vcs_cwd / Vcs_result / Vcs_refused,  Spawn_ids / Spawn_env,
   Ts_construct,  Rsync_attempts / Rsync_address / Rsync_dest / Rsync_options / Rsync_family / Rsync_result,
   Ts_gate (gate fetch iff wanted, skip iff fresh), Ts_restore (stamp on disk after a failure), Ts_stamp (stamp on
   disk otherwise), Ts_cache (last_timestamp afterwards), OutsideDomain (generator error, never a verdict).  *)
EXTENDS SyncBase, TraceLib
VARIABLE l

If(c, name) == IF c THEN {} ELSE {name}

DefaultIds(e) == IF ~e.usersync THEN <<e.proc_uid, e.proc_gid>>
                 ELSE IF e.base_exists THEN <<e.base_uid, e.base_gid>> ELSE <<e.portage_uid, e.portage_gid>>

(* ---------------------------------------------------------------- select *)
UidOf(e, name) == LET hits == {k \in DOMAIN e.uids : e.uids[k].name = name} IN e.uids[CHOOSE k \in hits : TRUE].uid
JudgeSelect(e) ==
  LET x == Outcome(e.uri, AsSet(e.bins), e.ssh, AsSet(e.users)) IN
  IF x.err = "Unspecified" THEN {}
  ELSE IF e.got_err # x.err THEN {"Select_error"}
  ELSE IF x.err # "-" THEN {}
  ELSE LET ids == IF x.given THEN <<UidOf(e, x.user), e.proc_gid>> ELSE DefaultIds(e) IN
       If(e.got_cls = x.cls, "Select_class")
       \cup If(~x.exact \/ e.got_uri = x.uri, "Select_uri")
       \cup If(<<e.got_uid, e.got_gid>> = ids, "Select_ids")

(* ---------------------------------------------------------------- detect *)
DetectUri(c, url) == CASE c = "git" -> "git://" [] c = "git_svn" -> "svn://" [] c = "hg" -> "//" [] OTHER -> url
JudgeDetect(e) ==
  LET c == Detect(AsSet(e.markers), AsSet(e.bins), AsSet(e.info)) IN
  IF e.got_err # "-" THEN {"Detect_class"}
  ELSE IF c = "disabled" THEN If(e.got_cls = "disabled", "Detect_class") \cup If(e.res = "false" /\ e.spawns = <<>>, "Detect_updates")
  ELSE IF e.got_cls # c THEN {"Detect_class"}
  ELSE LET ids == IF e.owner_named /\ OwnerHonoured(c) THEN <<e.owner_uid, e.proc_gid>> ELSE DefaultIds(e)
           uri == DetectUri(c, e.info_url)
       IN If(c = "cvs" \/ e.got_uri = uri, "Detect_uri")
          \cup If(<<e.got_uid, e.got_gid>> = ids, "Detect_ids")
          \* it never clones: exactly the update command, inside the checkout, as that user
          \cup If(/\ Len(e.spawns) = 1
                  /\ e.spawns[1].argv = <<e.bin>> \o UpdateTail(c, uri)
                  /\ e.spawns[1].cwd = e.basedir
                  /\ <<e.spawns[1].uid, e.spawns[1].gid>> = ids, "Detect_updates")

(* ------------------------------------------------------------------- vcs *)
Veff(v, dflt) == IF v = 9 THEN dflt ELSE v
JudgeVcs(e) ==
  LET dec == VcsDecision(e.cls, e.tree) IN
  IF dec = "PathError" THEN If(e.res = "PathError" /\ e.spawns = <<>>, "Vcs_refused")
  ELSE If(Len(e.spawns) = 1, "Vcs_once")
       \cup (IF e.spawns = <<>> THEN {} ELSE
             LET s == e.spawns[1] IN
             If(s.argv = VcsArgv(e.cls, dec, e.bin, e.uri, e.basedir, e.opts, Veff(e.v, 0)), "Vcs_command")
             \cup If(s.cwd = VcsCwd(dec, e.basedir), "Vcs_cwd")
             \cup If(<<s.uid, s.gid>> = <<e.uid, e.gid>>, "Spawn_ids")
             \cup If(AsSet(s.env) = EnvKeys(e.cls, e.sock, e.rsh, FALSE), "Spawn_env"))
       \cup If(e.res = (IF e.code = 0 THEN "true" ELSE "false"), "Vcs_result")

(* ----------------------------------------------------------------- rsync *)
Codes(script, from, n) == [k \in 1..n |-> script[from + k - 1].code]
\* one phase (gate or full): which resolution it uses, how many attempts, how it ends
PhaseRun(e, dnsidx, from, retries) ==
  LET direct == e.proxy = "-"
      ok     == ~direct \/ retries <= 0 \/ e.dns[dnsidx].ok
      addrs  == IF ~direct THEN <<[ip |-> e.host, v6 |-> FALSE]>>
                ELSE IF retries <= 0 \/ ~e.dns[dnsidx].ok THEN <<>> ELSE e.dns[dnsidx].addrs
      b      == Budget(retries, Len(addrs))
      cs     == Codes(e.script, from, b)
      n      == IF ok THEN RunLen(cs, b) ELSE 0
  IN [addrs |-> addrs, n |-> n, ok |-> ok /\ b >= 1 /\ RunOk(cs, b)]
Wrote(e, from, n) == \E k \in 1..n : e.script[from + k - 1].wrote \/ e.script[from + k - 1].code = 0

FinalOpts(e) == (IF e.opts = <<>> THEN DefaultOpts ELSE e.opts) \o e.extra
FullArgs(e, a) == <<e.bin, AttemptUri(e.pre, a, e.post), e.basedir>>
                  \o RsyncOpts(e.opts, e.extra, e.compress, e.ct, e.rsh, e.excludes, e.includes, Veff(e.v, 1))
GateArgs(e, a) == <<e.bin, AttemptUri(e.pre, a, e.post \o "metadata/timestamp.chk"), "TMP">>
                  \o RsyncOpts(<<>>, <<>>, FALSE, "15", "-", <<>>, <<>>, Veff(e.v, 1))

JudgeRsync(e) ==
  LET gate  == GateWanted(e.ts, e.force, e.cached_before)
      g     == IF gate THEN PhaseRun(e, 1, 1, e.gate_retries) ELSE [addrs |-> <<>>, n |-> 0, ok |-> TRUE]
      full  == g.ok /\ (~gate \/ NeedFull(e.cached_before, e.remote, e.fwd, e.neg))
      f     == IF full THEN PhaseRun(e, IF gate THEN 2 ELSE 1, g.n + 1, e.retries) ELSE [addrs |-> <<>>, n |-> 0, ok |-> TRUE]
      good  == g.ok /\ f.ok
      exp   == [k \in 1..(g.n + f.n) |-> IF k <= g.n THEN GateArgs(e, g.addrs[k]) ELSE FullArgs(e, f.addrs[k - g.n])]
      same  == Len(e.spawns) = g.n + f.n
      both  == 1..Min2(Len(e.spawns), g.n + f.n)
      mid   == IF Wrote(e, g.n + 1, f.n) THEN e.remote ELSE e.disk_before
      edisk == IF good THEN (IF full THEN e.remote ELSE e.disk_before) ELSE IF e.ts THEN e.cached_before ELSE mid
      ecach == IF good /\ full /\ e.ts THEN e.remote ELSE e.cached_before
      fam   == IF ("--ipv6" \in AsSet(FinalOpts(e)) \/ "-6" \in AsSet(FinalOpts(e))) /\ e.has_ipv6 THEN "inet6" ELSE "inet"
      ngate == Cardinality({k \in DOMAIN e.spawns : e.spawns[k].argv[3] = "TMP"})
  IN IF e.ts /\ (e.proxy # "-" \/ e.rsh # "-" \/ e.uid # e.proc_uid) THEN {"OutsideDomain"}
     ELSE If(same, "Rsync_attempts")
          \cup If((\A k \in both : e.spawns[k].argv[2] = exp[k][2]), "Rsync_address")
          \cup If((\A k \in both : e.spawns[k].argv[1] = exp[k][1] /\ e.spawns[k].argv[3] = exp[k][3]), "Rsync_dest")
          \cup If((\A k \in both : Drop(e.spawns[k].argv, 3) = Drop(exp[k], 3)), "Rsync_options")
          \cup If((\A k \in both : <<e.spawns[k].uid, e.spawns[k].gid>>
                                      = (IF k <= g.n THEN <<e.proc_uid, e.proc_gid>> ELSE <<e.uid, e.gid>>)), "Spawn_ids")
          \cup If((\A k \in both : AsSet(e.spawns[k].env) = EnvKeys("rsync", e.sock, FALSE, k > g.n /\ e.proxy # "-")), "Spawn_env")
          \cup If((\A k \in DOMAIN e.fams : e.fams[k] = (IF gate /\ k = 1 THEN "inet" ELSE fam)), "Rsync_family")
          \cup If(e.res = (IF good THEN "true" ELSE "SyncError"), "Rsync_result")
          \cup (IF ~e.ts THEN If(e.disk_after = edisk, "Ts_stamp")
                ELSE If(ngate = g.n, "Ts_gate")
                     \cup If(good \/ e.disk_after = edisk, "Ts_restore")
                     \cup If(~good \/ e.disk_after = edisk, "Ts_stamp")
                     \cup If(e.cached_after = ecach, "Ts_cache"))

JudgeConstruct(e) == If(e.got_cached = (IF e.ts THEN e.disk ELSE e.got_cached), "Ts_construct")

Judge(e) == CASE e.ev = "select"    -> JudgeSelect(e)
              [] e.ev = "detect"    -> JudgeDetect(e)
              [] e.ev = "vcs"       -> JudgeVcs(e)
              [] e.ev = "rsync"     -> JudgeRsync(e)
              [] e.ev = "construct" -> JudgeConstruct(e)
              [] OTHER              -> {"UnknownEvent"}

TraceInit == l = 0
TraceNext == /\ l < Len(Tr)
             /\ l' = l + 1
             /\ Report(Tr[l'].tid, Tr[l'].i, Judge(Tr[l']))
             /\ EndMark(l')
TraceSpec == TraceInit /\ [][TraceNext]_l
=========================================================================
