---------------------------- MODULE Incremental_Trace ----------------------------
(* Judge of observations recorded from pkgcore's incremental expanders (C12).
   tok  = {neg, kind, name}
   {ev:"expand", toks:[tok], init:[body], defs:[{name, members:[{ref,name}]}], all:[licence],
                 plain:{rej,set:[str]}   incremental_expansion(texts, orig=init)
                 cond :{rej,set:[str]}   set(optimize_incrementals(texts))       (token TEXTS)
                 lic  :{rej,set:[str]}   incremental_expansion_license(.., all, Licenses(..).groups, texts)
                 unfin :{rej,set:[str]}  incremental_expansion(texts, finalize=False)                (token TEXTS)
                 stored:{rej,set:[str]}  collapsed_restrict_to_data(((AlwaysTrue, texts),), finalize_defaults=False).defaults}
   {ev:"groups", defs:[..], flat:[{name, lics:[..]}]}                   Licenses(..).groups
   {ev:"pull",   glob:[tok], entries:[{scope, toks:[tok]}], pkg, res:{rej,set}}
                 collapsed_restrict_to_data(((AlwaysTrue, glob),), entries).pull_data(pkg)      *)
EXTENDS Incremental, TraceLib
VARIABLE l

DefsOf(arr) == [g \in {arr[k].name : k \in DOMAIN arr} |->
                  AsSet(arr[CHOOSE k \in DOMAIN arr : arr[k].name = g].members)]

Cmp(tag, obs, exp) ==
    IF obs.rej # exp.rej THEN {tag \o "_rejection"}
    ELSE IF ~exp.rej /\ AsSet(obs.set) # exp.set THEN {tag \o "_set"} ELSE {}

\* an observed un-finalized set (token TEXTS) of the stream ts
Unfin(tag, o, ts, exp, U) ==
    LET texts == AsSet(o.set)
        C == {ts[k] : k \in {j \in DOMAIN ts : Text(ts[j]) \in texts}}
    IN IF ~UnfinalizedDomain(ts) THEN {}
       ELSE IF o.rej # exp.rej THEN {tag \o "_rejection"}
       ELSE IF exp.rej THEN {}
       ELSE (IF \E x \in texts : \A k \in DOMAIN ts : Text(ts[k]) # x THEN {tag \o "_foreign"} ELSE {})
            \cup (IF Unambiguous(C) THEN {} ELSE {tag \o "_ambiguous"})
            \cup (IF CondensedFor(C, ts, U) THEN {} ELSE {tag \o "_expand"})

JudgeExpand(e) ==
    LET ts    == e.toks
        exp   == Expand(ts, AsSet(e.init))
        texts == AsSet(e.cond.set)
        C     == {ts[k] : k \in {j \in DOMAIN ts : Text(ts[j]) \in texts}}
        foreign == \E s \in texts : \A k \in DOMAIN ts : Text(ts[k]) # s
        U     == {Body(ts[k]) : k \in DOMAIN ts} \cup {"~other"}
        lexp  == ExpandLicense(ts, Flat(DefsOf(e.defs)), AsSet(e.all))
    IN Cmp("Plain", e.plain, exp)
       \cup (IF e.cond.rej # exp.rej THEN {"Condensed_rejection"}
             ELSE IF exp.rej THEN {}
             ELSE (IF foreign THEN {"Condensed_foreign"} ELSE {})
                  \cup (IF CondensedFor(C, ts, U) THEN {} ELSE {"Condensed_expand"}))
       \cup Cmp("License", e.lic, lexp)
       \cup Unfin("Unfinalized", e.unfin, ts, exp, U)
       \cup Unfin("Stored", e.stored, ts, exp, U)

JudgeGroups(e) ==
    LET exp == Flat(DefsOf(e.defs))
        obs == [g \in {e.flat[k].name : k \in DOMAIN e.flat} |->
                  AsSet(e.flat[CHOOSE k \in DOMAIN e.flat : e.flat[k].name = g].lics)]
    IN IF obs = exp THEN {} ELSE {"Groups_flat"}

\* which packages an entry written for a scope applies to (the driver renders the scope name
\* into an atom: any_a = cat/a, eq_a1 = =cat/a-1, ge_a2 = >=cat/a-2, any_b = cat/b)
ScopeTable == [any_a |-> {"a1", "a2"}, eq_a1 |-> {"a1"}, ge_a2 |-> {"a2"}, any_b |-> {"b1"}]
JudgePull(e) ==
    LET es == [k \in DOMAIN e.entries |-> [scope |-> ScopeTable[e.entries[k].scope], toks |-> e.entries[k].toks]]
        stream == e.glob \o Flatten(Applicable(es, e.pkg))
    IN Cmp("Pull", e.res, Expand(stream, {}))

Judge(e) == CASE e.ev = "expand" -> JudgeExpand(e)
              [] e.ev = "groups" -> JudgeGroups(e)
              [] e.ev = "pull"   -> JudgePull(e)
              [] OTHER -> {"UnknownEvent"}
TraceInit == l = 0
TraceNext == /\ l < Len(Tr)
             /\ l' = l + 1
             /\ Report(Tr[l'].tid, Tr[l'].i, Judge(Tr[l']))
             /\ EndMark(l')
TraceSpec == TraceInit /\ [][TraceNext]_l
=========================================================================
