---------------------------- MODULE EbdProtocol_MC ----------------------------
(* Interleaving model: Python and the daemon run concurrently over two FIFO pipes; the
   environment issues up to MaxReq top-level requests; up to MaxSig signals hit the daemon.   *)
EXTENDS EbdProtocol, TLC
CONSTANTS MaxReq, MaxSig, MaxChan, Kinds

VARIABLES py, d, c2d, d2c, nreq, nsig, flags
vars == <<py, d, c2d, d2c, nreq, nsig, flags>>

Init == py = PyInit /\ d = DInit /\ c2d = <<>> /\ d2c = <<>> /\ nreq = 0 /\ nsig = 0 /\ flags = {}

Framings(kind) ==
  IF kind \in {"set_metadata_path", "gen_metadata", "gen_env", "run_phase"}
  THEN IF FramingExact THEN {<<1, 1>>} ELSE {<<1, 1>>, <<1, 2>>, <<2, 1>>}
  ELSE {<<0, 0>>}

PyStartReq == /\ py.mode = "idle" /\ nreq < MaxReq
              /\ \E kind \in Kinds : \E f \in Framings(kind) :
                     py' = PyStart(py, kind, f[1], f[2])
              /\ nreq' = nreq + 1 /\ UNCHANGED <<d, c2d, d2c, nsig, flags>>

PyWriteAct == /\ PyWriting(py)
              /\ c2d' = IF py.closed \/ DGone(d) THEN c2d ELSE Append(c2d, Head(py.script).m)
              /\ py' = Next1(py) /\ UNCHANGED <<d, d2c, nreq, nsig, flags>>

\* the probe is skipped when the daemon process has already exited
PySkipAliveAct == /\ AtAliveProbe(py) /\ DGone(d) /\ py' = NotAlive(py) /\ UNCHANGED <<d, c2d, d2c, nreq, nsig, flags>>

PyInternalAct ==
  /\ PyInternalReady(py)
  /\ py' = PyInternal(py)
  /\ LET op == Head(py.script).op IN
     /\ d' = IF op = "kill" /\ ~DGone(d) THEN [d EXCEPT !.mode = "dead"] ELSE d
     /\ c2d' = IF op = "close" THEN Append(c2d, EOF) ELSE c2d
  /\ UNCHANGED <<d2c, nreq, nsig, flags>>

PyReadAct ==
  /\ PyReading(py) /\ (d2c # <<>> \/ DGone(d))
  /\ LET m == IF d2c # <<>> THEN Head(d2c) ELSE EOF
         r == PyRead(py, m) IN
     /\ py' = r.py
     /\ c2d' = IF DGone(d) THEN c2d ELSE c2d \o r.w
     /\ d2c' = IF d2c # <<>> THEN Tail(d2c) ELSE d2c
     /\ flags' = flags \cup (IF r.own THEN {} ELSE {"NotOwnReply"}) \cup (IF r.mis THEN {"Misread"} ELSE {})
  /\ UNCHANGED <<d, nreq, nsig>>

\* expect("yep!", timeout=10): the only read that gives up on its own.  Assumption: the timeout
\* never fires on a daemon that is going to answer, only on one that is stuck waiting itself.
PyTimeoutAct == /\ py.mode = "expect1" /\ Head(py.script).want = "yep!" /\ d2c = <<>> /\ ~DGone(d)
                /\ DWantsRead(d) /\ c2d = <<>>
                /\ py' = ExpectFail(py, Head(py.script)) /\ UNCHANGED <<d, c2d, d2c, nreq, nsig, flags>>

PyWaitAct == /\ PyWaiting(py) /\ DGone(d) /\ py' = Next1(py) /\ UNCHANGED <<d, c2d, d2c, nreq, nsig, flags>>

DReadAct == /\ DWantsRead(d) /\ c2d # <<>>
            /\ \E r \in DRead(d, Head(c2d)) : d' = r.d /\ d2c' = d2c \o r.out
            /\ c2d' = Tail(c2d) /\ UNCHANGED <<py, nreq, nsig, flags>>

DInternalAct == /\ \E a \in DActs(d) : LET r == DAct(d, a) IN d' = r.d /\ d2c' = d2c \o r.out
                /\ UNCHANGED <<py, c2d, nreq, nsig, flags>>

DSignalAct == /\ ~DGone(d) /\ nsig < MaxSig
              /\ \E sig \in {"SIGINT", "SIGTERM"} : LET r == DSignal(d, sig) IN d' = r.d /\ d2c' = d2c \o r.out
              /\ nsig' = nsig + 1 /\ UNCHANGED <<py, c2d, nreq, flags>>

Next == PyStartReq \/ PySkipAliveAct \/ PyWriteAct \/ PyInternalAct \/ PyReadAct \/ PyTimeoutAct \/ PyWaitAct
        \/ DReadAct \/ DInternalAct \/ DSignalAct
Spec == Init /\ [][Next]_vars
FairSpec == Spec /\ WF_vars(PyWriteAct) /\ WF_vars(PyInternalAct) /\ WF_vars(PyReadAct) /\ WF_vars(PyTimeoutAct)
                 /\ WF_vars(PyWaitAct) /\ WF_vars(DReadAct) /\ WF_vars(DInternalAct)

ChanBound == Len(c2d) <= MaxChan /\ Len(d2c) <= MaxChan

(* ---------------- the properties of C35 ---------------- *)
TimeoutPossible == py.mode = "expect1" /\ Head(py.script).want = "yep!"
PyBlocked == \/ (PyReading(py) /\ d2c = <<>> /\ ~DGone(d) /\ ~TimeoutPossible)
             \/ (PyWaiting(py) /\ ~DGone(d))
DBlocked  == DWantsRead(d) /\ c2d = <<>>
NoDeadlock == ~(PyBlocked /\ DBlocked)
OwnReply == "NotOwnReply" \notin flags
NoMisread == "Misread" \notin flags
\* a command word in neither handler table always ends the session (cleanup script), it is never skipped
UnknownEndsSession ==
  [][(py.mode = "handler" /\ d2c # <<>> /\ Head(d2c).cmd \notin (BaseHandlers \cup py.extra \cup Notices) /\ py' # py
      /\ d2c' = Tail(d2c))
       => (py'.mode = "run" /\ py'.script # <<>> /\ py'.script[Len(py'.script)].val = "UnhandledCommand")]_vars
\* every request that was started ends (bounded sessions terminate)
Terminates == <>[](py.mode \in {"idle", "done"})
=========================================================================
