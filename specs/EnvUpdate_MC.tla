---------------------------- MODULE EnvUpdate_MC ----------------------------
(* One root file system, its env.d, the generated files and the info directories, driven by
   merge operations (install / uninstall / replace) whose hooks carry env_update, ldconfig and
   InfoRegen, with the environment (the merge itself, the administrator, the clock) acting in
   between.  One action per public call (Begin = engine + fresh triggers, Hook = execute_hook)
   and one per environment step.

   Checked exhaustively over the small universe below:
     InvGenerated   after a post hook on a healthy env.d the three files are the function of env.d
                    (ld.so.conf only when LDPATH is set); on a broken env.d they are untouched
     InvLdFresh     ldconfig runs exactly once per post hook and reads the ld.so.conf of THIS env.d
     InvPreQuiet    pre hooks write nothing, run nothing (a missing ld.so.conf is created empty)
     InvDetect      while a snapshot is pending, get_changes = exactly the directories touched since
     InvIndexFresh  when an operation ends (install-info present, env.d healthy) every info directory
                    touched during the operation has been regenerated after its last change
     InvIdem        an operation repeated at once with nothing changed writes the same text, and
                    feeds install-info only in directories that still have no index
     PastOnly       (action) a hook never moves an mtime forward except by regenerating
   Vacuity guards (must be refuted): ForcePast = FALSE breaks InvDetect; Resnap = TRUE (the
   second snapshot of a replace, as shipped) breaks InvIndexFresh.                        *)
EXTENDS EnvUpdate_Universe, TLC

CONSTANTS MaxClock, MaxOps, Modes, EnvIds, TogNames, InfoDirs

FileOf(i) == TableFile(HistTable, i)
EnvUniverse == {FileOf(i) : i \in EnvIds}

\* the digests of every env.d of the universe, computed once
DigestOf == TLCEval([S \in SUBSET EnvUniverse |-> TLCEval(Digest(S))])

VARIABLES envd, w, t, op, touched, dirty, nops
vars == <<envd, w, t, op, touched, dirty, nops>>
E == DigestOf[envd]
Idle == [mode |-> "none", pc |-> 0]

D0 == [ex |-> TRUE, mt |-> 0, files |-> {"a.info"}]
Init == /\ envd = {FileOf(i) : i \in EnvIds \cap {"f1"}}
        /\ w \in {[penv |-> Absent, pcsh |-> Absent, conf |-> Absent,
                   dirs |-> [d \in InfoDirs |-> IF d = "/opt/info" THEN [D0 EXCEPT !.files = {"bad.info"}] ELSE D0],
                   now |-> 2, bin |-> b] : b \in BOOLEAN}
        /\ t = [snapL |-> NoSnap, snapI |-> NoSnap]
        /\ op = Idle /\ touched = {} /\ dirty = {} /\ nops = 0

InOp == op.mode # "none"
NextHook == HookSeq(op.mode)[op.pc + 1]
Begin(m) == /\ ~InOp /\ nops < MaxOps
            /\ op' = [mode |-> m, pc |-> 0] /\ t' = [snapL |-> NoSnap, snapI |-> NoSnap]
            /\ dirty' = {} /\ nops' = nops + 1 /\ UNCHANGED <<envd, w, touched>>
Hook(rc) == /\ InOp /\ op.mode # "done"
            /\ LET h == NextHook
                   r == HookOut(E, w, t, h, op.mode, rc)
               IN /\ w' = r.w /\ t' = r.t
                  /\ touched' = IF ~E.broken /\ InfoActs(w, t, h, op.mode) = "snap" THEN {} ELSE touched
                  /\ dirty' = dirty \ r.o.regens
                  /\ op' = IF op.pc + 1 = Len(HookSeq(op.mode)) THEN [op EXCEPT !.mode = "done"] ELSE [op EXCEPT !.pc = @ + 1]
            /\ UNCHANGED <<envd, nops>>
End == op.mode = "done" /\ op' = Idle /\ UNCHANGED <<envd, w, t, touched, dirty, nops>>
\* the environment; inside an operation it stands for the merge / unmerge between the hooks
Mark(d) == /\ touched' = touched \cup {d}
           /\ dirty' = IF InOp /\ op.pc >= 1 THEN dirty \cup {d} ELSE dirty
Toggle(d, f) == /\ op.mode # "done" /\ w.dirs[d].ex
                /\ w' = [w EXCEPT !.dirs[d].files = IF f \in @ THEN @ \ {f} ELSE @ \cup {f}, !.dirs[d].mt = w.now]
                /\ Mark(d) /\ UNCHANGED <<envd, t, op, nops>>
MkRmDir(d) == /\ op.mode # "done" /\ d # "/usr/share/info"
              /\ w' = [w EXCEPT !.dirs[d] = IF @.ex THEN [ex |-> FALSE, mt |-> 0, files |-> {}] ELSE [ex |-> TRUE, mt |-> w.now, files |-> {}]]
              /\ Mark(d) /\ UNCHANGED <<envd, t, op, nops>>
\* env.d changes: healthy files any time outside "done"; the broken one only between operations
SetEnv(i) == /\ op.mode # "done" /\ (FileOf(i).kind = "bad" => ~InOp)
             /\ envd' = IF FileOf(i) \in envd THEN envd \ {FileOf(i)} ELSE envd \cup {FileOf(i)}
             /\ UNCHANGED <<w, t, op, touched, dirty, nops>>
RmConf == /\ ~InOp /\ w.conf.ex /\ w' = [w EXCEPT !.conf = Absent] /\ UNCHANGED <<envd, t, op, touched, dirty, nops>>
Tick == /\ op.mode # "done" /\ w.now < MaxClock /\ w' = [w EXCEPT !.now = @ + 1] /\ UNCHANGED <<envd, t, op, touched, dirty, nops>>

Next == \/ \E m \in Modes : Begin(m)
        \/ \E rc \in {0, 1} : Hook(rc)
        \/ End
        \/ \E d \in InfoDirs, f \in TogNames : Toggle(d, f)
        \/ \E d \in InfoDirs : MkRmDir(d)
        \/ \E i \in EnvIds : SetEnv(i)
        \/ RmConf \/ Tick
Spec == Init /\ [][Next]_vars

(* ---------------- "whatever hook comes next" invariants ---------------- *)
Healthy == ~E.broken
Res(h, m, rc) == HookOut(E, w, t, h, m, rc)
\* the file part of a post hook (InfoRegen touches none of the generated files)
FilePart(h) == LET a == EnvTrig(E, w, h)
                   b == LdTrig(a.w, t, h, 0)
               IN [w |-> b.w, o |-> Merge(a.o, b.o)]
InvGenerated == \A h \in {"post_merge", "post_unmerge"} :
    LET r == FilePart(h) IN
    IF Healthy THEN /\ r.w.penv = File(EnvHeader, ProfileLines(envd, "export"))
                    /\ r.w.pcsh = File(CshHeader, ProfileLines(envd, "setenv"))
                    /\ (LdDefined(envd) => r.w.conf = File(LdHeader, LdLines(envd)))
                    /\ (~LdDefined(envd) /\ w.conf.ex => r.w.conf = w.conf)
                    /\ r.o.writes = (IF LdDefined(envd) THEN <<"ld.so.conf">> ELSE <<>>) \o <<"profile.env", "profile.csh">>
    ELSE r.w.penv = w.penv /\ r.w.pcsh = w.pcsh /\ r.o.writes = <<>> /\ (w.conf.ex => r.w.conf = w.conf)
InvLdFresh == \A h \in {"post_merge", "post_unmerge"} :
    LET r == FilePart(h) IN
    /\ r.o.ldruns = 1
    /\ (Healthy /\ LdDefined(envd) => r.o.ldseen = SelectSeq(LdLines(envd), LAMBDA x : x # ""))
InvPreQuiet == \A h \in {"pre_merge", "pre_unmerge"}, m \in Modes :
    LET r == Res(h, m, 0) IN
    /\ r.o.writes = <<>> /\ r.o.ldruns = 0 /\ r.o.regens = {} /\ r.o.infos = {} /\ r.o.rms = {}
    /\ r.w.penv = w.penv /\ r.w.pcsh = w.pcsh
    /\ r.w.conf = IF w.conf.ex THEN w.conf ELSE File("", <<>>)
    /\ \A d \in DOMAIN w.dirs : r.w.dirs[d].files = w.dirs[d].files /\ r.w.dirs[d].mt <= w.dirs[d].mt

(* ---------------- history invariants ---------------- *)
Pending == InOp /\ op.mode # "done" /\ t.snapI.set /\ Healthy
InvDetect == Pending =>
    LET locs == E.info IN
    Changed(t.snapI, w.dirs, locs) = {d \in Live(w.dirs, locs) : d \in touched \/ \A p \in t.snapI.m : p[1] # d}
InvIndexFresh == (op.mode = "done" /\ w.bin /\ Healthy) =>
    \A d \in dirty : ~(d \in E.info /\ w.dirs[d].ex /\ ~Kept(w.dirs[d]))

(* ---------------- idempotence ---------------- *)
RECURSIVE RunHooks(_, _, _, _)
\* the hooks hs of one operation in a row, nothing happening in between: final world and the observations
RunHooks(ww, tt, hs, m) ==   \* (env.d as it is now)
    IF hs = <<>> THEN [w |-> ww, o |-> <<>>]
    ELSE LET r == HookOut(E, ww, tt, hs[1], m, 0)
             rest == RunHooks(r.w, r.t, Tail(hs), m)
         IN [w |-> rest.w, o |-> <<r.o>> \o rest.o]
RunOp(ww, m) == RunHooks(ww, [snapL |-> NoSnap, snapI |-> NoSnap], HookSeq(m), m)
InvIdem == (~InOp /\ Healthy) => \A m \in Modes :
    LET a == RunOp(w, m)
        b == RunOp(a.w, m)
    IN /\ b.w.penv = a.w.penv /\ b.w.pcsh = a.w.pcsh /\ b.w.conf = a.w.conf
       /\ \A i \in DOMAIN b.o :
            /\ \A p \in b.o[i].infos \cup b.o[i].rms : ~HasIndex(a.w.dirs, p[1])
            /\ b.o[i].regens \subseteq {d \in E.info : ~HasIndex(a.w.dirs, d)}

PastOnly == [][\A d \in InfoDirs : (w'.dirs[d].mt > w.dirs[d].mt /\ w'.now = w.now /\ w'.dirs[d].ex = w.dirs[d].ex /\ w.dirs[d].ex)
                  => (w'.dirs[d].mt = w.now)]_vars
=========================================================================
