---------------------------- MODULE PkgUpdates_Export ----------------------------
(* spec -> code: every line sequence of length <= MaxLines over the alphabet
   (all moves incl. self-moves, one slotmove per name and slot pair, malformed lines of the
   given kinds), cut into up to three update files in every way (sequences longer than
   FullSplits lines: unsplit and halved only, three lines also 1|1|1).  Files get quarter names whose
   lexicographic order is the reverse of their chronological order.
   A malformed line carries its kind in s1 (the driver renders it); a, b name the packages
   it mentions.                                                                            *)
EXTENDS PkgUpdates, TLC, Json, IOUtils
CONSTANTS Names, MaxLines, FullSplits, BadKinds
SlotPairs == {<<"0", "1">>}
BadLine(kind, a, b) == [k |-> "bad", a |-> a, b |-> b, s1 |-> kind, s2 |-> "-"]
NameA == CHOOSE n \in Names : TRUE
NameB == CHOOSE n \in Names : n # NameA
Alphabet == {Move(a, b) : a, b \in Names} \cup {SlotMove(a, s[1], s[2]) : a \in Names, s \in SlotPairs}
            \cup {BadLine(kd, NameA, NameB) : kd \in BadKinds}

Keys(m) == CASE m = 1 -> <<[y |-> 2020, q |-> 1]>>
             [] m = 2 -> <<[y |-> 2019, q |-> 2], [y |-> 2021, q |-> 1]>>
             [] OTHER -> <<[y |-> 2019, q |-> 4], [y |-> 2020, q |-> 3], [y |-> 2021, q |-> 1]>>
\* cuts: a set of positions after which a new file starts
CutSets(n) == IF n <= FullSplits THEN {c \in SUBSET (1..(n - 1)) : Cardinality(c) <= 2}
              ELSE {{}, {n \div 2}} \cup (IF n <= 3 THEN {{1, 2}} ELSE {})
Part(seq, cuts, j) ==      \* j-th part of seq under the cut set
    LET cs == SetToSortSeq(cuts, <)
        lo == IF j = 1 THEN 1 ELSE cs[j - 1] + 1
        hi == IF j > Len(cs) THEN Len(seq) ELSE cs[j]
    IN SubSeq(seq, lo, hi)
Files(seq, cuts) == LET m == Cardinality(cuts) + 1 IN
    [j \in 1..m |-> [y |-> Keys(m)[j].y, q |-> Keys(m)[j].q, lines |-> Part(seq, cuts, j)]]
Cases == {[files |-> <<>>]} \cup
         UNION {{[files |-> Files(seq, cuts)] : seq \in [1..n -> Alphabet], cuts \in CutSets(n)} : n \in 1..MaxLines}
ASSUME ndJsonSerialize(IOEnv.OUT, SetToSeq(Cases))
=========================================================================
