---------------------------- MODULE EnvTransfer ----------------------------
(* C31 -- the environment handed to the build daemon arrives exactly.

   Vocabulary
     text      a value is TEXT WITHOUT NUL: a sequence of bytes (its UTF-8 form), each in 1..255
     entry     [name, kind \in {"str","seq"}, val (text), elems (sequence of texts), exported]
     env       a set of entries with pairwise different names
     mode      "inline" (process_ebuild ; start_receiving_env bytes N + payload),
               "file"   (process_ebuild ; start_receiving_env file PATH),
               "meta"   (gen_metadata N + payload  -- the depend-like requests)
     unit      what the daemon's counted reader (read -N) counts: "byte" or "char"
               (bash counts characters of ITS locale; in the C locale that is bytes)

   Send(env, mode):   the payload is a counted block; the reader consumes exactly `declared`
   units of the stream, so the channel stays synchronised iff
                         declared = ReaderUnits(payload, unit)                      (Framing)
   afterwards the daemon's shell holds exactly env (ArrivedEntry / NoStray) and the next
   request on the command channel is answered (Dialogue: the protocol automaton below
   accepts the recorded sequence of lines, which ends with  alive -> yep!).

   This module is constant-level (no VARIABLES): it is shared by EnvTransfer_MC (design),
   EnvTransfer_Laws (quoting design), EnvTransfer_Export and EnvTransfer_Trace (judge).   *)
EXTENDS Naturals, Sequences, FiniteSets

Modes == {"inline", "file", "meta"}
Units == {"byte", "char"}

----------------------------------------------------------------------------
(* Framing: UTF-8 structure of a byte sequence.  A character starts at every byte
   that is not a continuation byte (10xxxxxx).                                    *)
IsCont(b) == b \in 128..191
NBytes(p) == Len(p)
NChars(p) == Cardinality({k \in DOMAIN p : ~IsCont(p[k])})
ReaderUnits(p, unit) == IF unit = "byte" THEN NBytes(p) ELSE NChars(p)

\* index of the last byte the counted reader takes when it is asked for n units
\* (0 = nothing; Len(p)+1 = it wants more than the payload holds and eats what follows / blocks)
TakeEnd(p, n, unit) ==
    IF n = 0 THEN 0
    ELSE IF unit = "byte" THEN (IF n <= Len(p) THEN n ELSE Len(p) + 1)
    ELSE LET starts == {k \in DOMAIN p : ~IsCont(p[k])} IN
         IF n > Cardinality(starts) THEN Len(p) + 1
         ELSE LET s == CHOOSE k \in starts : Cardinality({j \in starts : j <= k}) = n
                  later == {j \in starts : j > s} IN
              IF later = {} THEN Len(p) ELSE (CHOOSE j \in later : \A j2 \in later : j <= j2) - 1

FramingOK(declared, p, unit) == declared = ReaderUnits(p, unit)
\* what stays in the command channel in front of the next request (must be empty)
Leftover(declared, p, unit) ==
    LET e == TakeEnd(p, declared, unit) IN IF e >= Len(p) THEN <<>> ELSE SubSeq(p, e + 1, Len(p))
Starved(declared, p, unit) == TakeEnd(p, declared, unit) = Len(p) + 1

----------------------------------------------------------------------------
(* The dialogue on the command channel, as the processor's hook records it.
   A token is [d |-> "w" | "r", t |-> word].  DlgStep is the protocol automaton of
   one transfer followed by the next request; "BAD" is absorbing.               *)
Tok(d, t) == [d |-> d, t |-> t]

DlgStart(mode) == IF mode = "meta" THEN "m0" ELSE "p0"

DlgStep(mode, st, k) ==
    LET w(t) == k = Tok("w", t)
        r(t) == k = Tok("r", t)
        hdr  == IF mode = "inline" THEN "start_receiving_env bytes" ELSE "start_receiving_env file" IN
    CASE st = "p0" /\ w("process_ebuild")          -> "p1"
      [] st = "p1" /\ w(hdr)                       -> "p2"     \* header (+ counted payload)
      [] st = "p2" /\ r("env_received")            -> "p3"     \* the transfer is acknowledged
      [] st = "p3" /\ w("alive")                   -> "p4"     \* next request inside the phase shell
      [] st = "p4" /\ r("yep!")                    -> "p5"
      [] st = "p5" /\ w("set_sandbox_state")       -> "p6"
      [] st = "p6" /\ w("start_processing")        -> "p7"
      [] st = "p7" /\ r("phases succeeded")        -> "z0"
      [] st = "m0" /\ w("set_metadata_path")       -> "m1"     \* only the first metadata request
      [] st = "m1" /\ r("metadata_path_received")  -> "m2"
      [] st \in {"m0", "m2"} /\ w("gen_metadata")  -> "m3"     \* header + counted payload
      [] st = "m3" /\ r("phases succeeded")        -> "z0"
      [] st = "z0" /\ w("alive")                   -> "z1"     \* next request at the main loop
      [] st = "z1" /\ r("yep!")                    -> "ok"
      [] OTHER -> "BAD"

RECURSIVE DlgRun(_, _, _)
DlgRun(mode, st, toks) ==
    IF toks = <<>> THEN st ELSE DlgRun(mode, DlgStep(mode, st, Head(toks)), Tail(toks))

DialogueOK(mode, toks) == DlgRun(mode, DlgStart(mode), toks) = "ok"
\* the transfer itself was acknowledged / completed (a prefix property of the dialogue)
RECURSIVE DlgStates(_, _, _)
DlgStates(mode, st, toks) ==
    IF toks = <<>> THEN {st} ELSE {st} \cup DlgStates(mode, DlgStep(mode, st, Head(toks)), Tail(toks))
Acknowledged(mode, toks) ==
    (IF mode = "meta" THEN "z0" ELSE "p3") \in DlgStates(mode, DlgStart(mode), toks)

----------------------------------------------------------------------------
(* "Exported unless marked non-exported": a mapping may carry the marker
   PKGCORE_NONEXPORTED_VARS (blank separated names).  The marker belongs to THAT mapping:
   a mapping without the marker, or with an empty one, marks nothing -- whatever was sent
   to the same daemon / through the same processor object before.
     marker = [present |-> BOOLEAN, names |-> sequence of names]                          *)
MarkedNames(marker) == IF marker.present THEN {marker.names[k] : k \in DOMAIN marker.names} ELSE {}
ExpectedExported(marker, name) == name \notin MarkedNames(marker)

(* Sessions: several mappings sent one after the other through one processor object.  Every
   transfer is judged against ITS OWN mapping.  The state of one variable in one mapping: *)
NameStates == {"absent", "str_x", "str_p", "seq_x", "seq_p"}      \* _x exported, _p marked non-exported
MarkerKinds == {"named", "absent", "empty"}                      \* how the mapping carries the marker
\* a variable history fits a session iff it is marked only in steps whose mapping names variables
Fits(hist, mk) == \A j \in DOMAIN mk : (mk[j] # "named") => (hist[j] \notin {"str_p", "seq_p"})

----------------------------------------------------------------------------
(* Arrival: what the daemon's shell must hold for one name afterwards.
   sent : [present, kind, val, elems, exported]      (present = FALSE: name not in the mapping)
   obs  : [state \in {"unset","str","seq"}, val, elems, idx, exported]
          idx = the indices of the observed array, in order                         *)
ArrivalClauses(sent, obs) ==
    IF ~sent.present THEN (IF obs.state = "unset" THEN {} ELSE {"NoStray"})
    ELSE (IF obs.state = sent.kind THEN {} ELSE {"Kind"})
         \cup (IF sent.kind = "str" /\ obs.state = "str" /\ obs.val # sent.val THEN {"Value"} ELSE {})
         \cup (IF sent.kind = "seq" /\ obs.state = "seq" /\ obs.elems # sent.elems THEN {"Elements"} ELSE {})
         \cup (IF sent.kind = "seq" /\ obs.state = "seq" /\ obs.elems = sent.elems
                  /\ obs.idx # [k \in 1..Len(sent.elems) |-> k - 1] THEN {"Indices"} ELSE {})
         \cup (IF obs.state # "unset" /\ obs.exported # sent.exported THEN {"Exported"} ELSE {})
=============================================================================
