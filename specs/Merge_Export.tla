---------------------------- MODULE Merge_Export ----------------------------
(* spec -> code for C18/C19: every (old root, cset) pair of Merge_Cases in the driver's scenario
   vocabulary (paths as strings relative to the merge root; a file's content is its symbolic content id). *)
EXTENDS Merge_Cases, Json, IOUtils
OldRow(o) == [path |-> JoinPath(o.path), type |-> o.type, content |-> o.content, target |-> o.target,
              link_to |-> JoinPath(o.link_to), mode |-> o.mode, uid |-> o.uid, gid |-> o.gid, mtime |-> o.mtime]
EntRow(e) == [path |-> JoinPath(e.path), type |-> e.type, content |-> IF e.type = "file" THEN e.cid ELSE "",
              target |-> IF e.type = "sym" THEN e.target ELSE "", grp |-> e.grp, src |-> "local",
              mode |-> e.mode, uid |-> e.uid, gid |-> e.gid, mtime |-> e.mtime]
Cases == {[old |-> [i \in DOMAIN OldSpec(s) |-> OldRow(OldSpec(s)[i])],
           cset |-> [i \in DOMAIN CsetSpec(s) |-> EntRow(CsetSpec(s)[i])],
           mounts |-> SetToSeq({JoinPath(m) : m \in MountsOf(s)}),
           sel |-> s] : s \in Sel}
ASSUME ndJsonSerialize(IOEnv.OUT, SetToSeq(Cases))
=============================================================================
