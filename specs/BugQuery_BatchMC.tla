---------------------------- MODULE BugQuery_BatchMC ----------------------------
(* Design check of batching: the in-order greedy split, step by step, over every sequence of value
   costs and every budget: the batches partition the values in order, none is empty, and every
   batch fits whenever each single value fits.                                                   *)
EXTENDS BugQuery
CONSTANTS MaxVals, MaxCost, MinBudget, MaxBudget
VARIABLES costs, budget, i, cur, used, out, done
vars == <<costs, budget, i, cur, used, out, done>>
Init == /\ costs \in BoundedSeq(1..MaxCost, MaxVals)
        /\ budget \in MinBudget..MaxBudget
        /\ i = 1 /\ cur = <<>> /\ used = 0 /\ out = <<>> /\ done = FALSE
Take == /\ ~done /\ i <= Len(costs)
        /\ IF cur # <<>> /\ used + costs[i] > budget
           THEN out' = Append(out, cur) /\ cur' = <<i>> /\ used' = costs[i]
           ELSE out' = out /\ cur' = Append(cur, i) /\ used' = used + costs[i]
        /\ i' = i + 1
        /\ UNCHANGED <<costs, budget, done>>
Finish == /\ ~done /\ i > Len(costs)
          /\ out' = Append(out, cur) /\ cur' = <<>> /\ used' = 0 /\ done' = TRUE
          /\ UNCHANGED <<costs, budget, i>>
Next == Take \/ Finish
Spec == Init /\ [][Next]_vars

Cost(b) == FoldLeft(LAMBDA acc, k : acc + costs[k], 0, b)
InvUsed      == used = Cost(cur)
InvOpen      == cur # <<>> => (used <= budget \/ Len(cur) = 1)
InvPrefix    == FlattenSeq(out) \o cur = [k \in 1..(i - 1) |-> k]
InvPartition == done => FlattenSeq(out) = [k \in 1..Len(costs) |-> k]
InvNonEmpty  == done => Len(out) >= 1 /\ (costs # <<>> => \A b \in DOMAIN out : out[b] # <<>>)
InvBudget    == done /\ (\A k \in DOMAIN costs : costs[k] <= budget) => \A b \in DOMAIN out : Cost(out[b]) <= budget
InvIsGreedy  == done => out = GreedyBatches(costs, budget)
=========================================================================
