---------------------------- MODULE TarSync ----------------------------
(* C47 - tarball sync replaces a repository atomically and recovers from interruption.

   Abstract vocabulary shared by TarSync_MC (design check over FsModel) and TarSync_Trace (judge of
   what the real tar_syncer left on disk):
     tree view of the repository path:
        "absent"  nothing at the path          "empty"   a directory without content
        "old"     the complete previous tree   "new"     the complete tree of the served tarball
        "other"   anything else (partial, mixed)
     etag view : "none" | "old" | "new" | "other"  (content of <repo>/.etag resp. .modified)
   The clauses of the property:
     TreeOK       after a crash at any point / after any sync attempt the path holds the complete old
                  or the complete new tree (no previous tree: nothing or an empty directory)
     FaultKeeps   a failed download or unpack leaves the tree as it was
     RecoverOK    after an interruption the next sync completes and installs the new tree
     EtagSound    a stored validator never claims the new tarball while the tree is not the new one
                  (otherwise the next sync would wrongly skip the update)                            *)
EXTENDS Naturals

\* what can go wrong with one sync attempt besides a crash
Faults == {"none", "http_error", "trunc", "corrupt"}
\* attempt sequences exercised on the real syncer (spec -> code): a first attempt that is interrupted
\* (at every crash point) or meets a fault, a next attempt that is undisturbed or meets a fault
\* itself; a final undisturbed attempt always follows and must complete (Recover).
\* obj = "fresh": every attempt is a new process / a new syncer object, an interruption is a power cut
\* (exit handlers never run).   obj = "same": all attempts are made by ONE syncer object in one
\* process, an interruption is an in-process one (signal, KeyboardInterrupt: not an OSError the
\* syncer handles), the exit handlers run once, after the last attempt.  The syncer object carries no
\* protocol state, so TarSync_MC!NextRound (abandon the round anywhere, continue from the on-disk
\* state without cleanup) models both; the trace check runs both.
Plans == [first : (Faults \ {"none"}) \cup {"crash"}, next : Faults, obj : {"fresh", "same"}]

NoTree(t) == t \in {"absent", "empty"}
SameTree(a, b) == a = b \/ (NoTree(a) /\ NoTree(b))

TreeOK(hadOld, t)    == t = "new" \/ (hadOld /\ t = "old") \/ (~hadOld /\ NoTree(t))
FaultKeeps(t0, t1)   == SameTree(t0, t1)
RecoverOK(ok, t)     == ok /\ t = "new"
EtagSound(etag, t)   == etag = "new" => t = "new"
=========================================================================
