---------------------------- MODULE WorldFile_Laws ----------------------------
\* constant-level laws of the specification itself (TLC evaluates the ASSUMEs)
EXTENDS WorldFile_Cases, Naturals, TLC
Reqs == {Req(cs, rm) : cs \in SlotsFull, rm \in BOOLEAN}
Worlds == SUBSET EntriesFull
\* Apply does what the three clauses say, for every world and request
ApplyMeetsClauses == \A W \in Worlds, op \in Reqs :
    LET r == Apply(W, op) IN
    /\ RefusalOk(W, op, r.refused)
    /\ OthersIntact(W, r.w, op)
    /\ (~r.refused => Recorded(r.w, op))
\* ... and the clauses determine the result: any W2 satisfying them is Apply's
ClausesDetermine == \A W \in Worlds, op \in Reqs : \A W2 \in SUBSET (W \cup {Target(op)}) :
    (OthersIntact(W, W2, op) /\ Recorded(W2, op) /\ ~Apply(W, op).refused) => W2 = Apply(W, op).w
\* distinct slots give distinct entries; "0" and no slot give the bare name
TargetInjective == \A a, b \in Reqs : (Target(a) = Target(b)) <=>
    ((a.slot \in {NoSlot, "0"} /\ b.slot \in {NoSlot, "0"}) \/ a.slot = b.slot)
AddIdempotent == \A W \in Worlds, op \in Reqs : Add(Add(W, op), op) = Add(W, op)
AddThenRemove == \A W \in Worlds, op \in Reqs : Remove(Add(W, op), op) = W \ {Target(op)}
\* the character-wise reading agrees with Target exactly for slots of at most one character
CharwiseDiffers == \A cs \in SlotsFull :
    (CharwiseTargets(Key, cs) = {Target(Req(cs, FALSE))}) <=> (Len(cs) <= 1)
ASSUME ApplyMeetsClauses
ASSUME ClausesDetermine
ASSUME TargetInjective
ASSUME AddIdempotent
ASSUME AddThenRemove
ASSUME CharwiseDiffers
=========================================================================
