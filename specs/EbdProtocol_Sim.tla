---------------------------- MODULE EbdProtocol_Sim ----------------------------
(* spec -> code: TLC (simulation mode) chooses sessions; hist records the top-level requests and
   the daemon's own steps (reads, emissions, exits) so that a scripted fake daemon can reproduce
   the daemon side against the REAL EbuildProcessor.                                          *)
EXTENDS EbdProtocol_MC
CONSTANT D
VARIABLE hist
H(who, t, kind, need, have, out, gone) == [who |-> who, t |-> t, kind |-> kind, need |-> need, have |-> have, out |-> out, gone |-> gone]
Lines(q) == [k \in DOMAIN q |-> [cmd |-> q[k].cmd, arg |-> q[k].arg, data |-> q[k].data]]
SimInit == Init /\ hist = <<>>
SimNext ==
  \/ /\ py.mode = "idle" /\ nreq < MaxReq
     /\ \E kind \in Kinds : \E f \in Framings(kind) :
          /\ py' = PyStart(py, kind, f[1], f[2])
          /\ hist' = Append(hist, H("py", "req", kind, f[1], f[2], <<>>, FALSE))
     /\ nreq' = nreq + 1 /\ UNCHANGED <<d, c2d, d2c, nsig, flags>>
  \/ (PySkipAliveAct \/ PyWriteAct \/ PyInternalAct \/ PyReadAct \/ PyTimeoutAct \/ PyWaitAct) /\ UNCHANGED hist
  \/ /\ DWantsRead(d) /\ c2d # <<>>
     /\ \E r \in DRead(d, Head(c2d)) :
          /\ d' = r.d /\ d2c' = d2c \o r.out
          /\ hist' = Append(hist, H("d", "read", "-", 0, 0, Lines(r.out), DGone(r.d)))
     /\ c2d' = Tail(c2d) /\ UNCHANGED <<py, nreq, nsig, flags>>
  \/ /\ \E a \in DActs(d) : LET r == DAct(d, a) IN
          /\ d' = r.d /\ d2c' = d2c \o r.out
          /\ hist' = Append(hist, H("d", "act", a, 0, 0, Lines(r.out), DGone(r.d)))
     /\ UNCHANGED <<py, c2d, nreq, nsig, flags>>
  \/ /\ ~DGone(d) /\ nsig < MaxSig
     /\ \E sig \in {"SIGINT", "SIGTERM"} : LET r == DSignal(d, sig) IN
          /\ d' = r.d /\ d2c' = d2c \o r.out
          /\ hist' = Append(hist, H("d", "sig", sig, 0, 0, Lines(r.out), TRUE))
     /\ nsig' = nsig + 1 /\ UNCHANGED <<py, c2d, nreq, flags>>
SimSpec == SimInit /\ [][SimNext]_<<vars, hist>>
\* print a session when it is over (nothing enabled any more is approximated by: all requests
\* issued and Python idle/done), or when it reached the depth bound
Over == py.mode = "done" \/ (nreq = MaxReq /\ py.mode = "idle")
Emit == ~(Over \/ Len(hist) >= D) \/ PrintT(<<"BEH", hist>>)
SimBound == ChanBound /\ ~Over /\ Len(hist) < D
=========================================================================
