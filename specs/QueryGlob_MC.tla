---------------------------- MODULE QueryGlob_MC ----------------------------
(* Glob matching as a machine: the subject is read one character at a time while the set of
   reachable pattern positions is maintained; on EVERY prefix the machine's acceptance must equal
   the recursive definition GlobMatch used by the query spec (two independent formulations).   *)
EXTENDS QueryGlob, TLC
CONSTANTS MaxPat, MaxSubj
Alpha == {"a", "b", "-"}
Pats == UNION {[1..k -> Alpha \cup {"*"}] : k \in 0..MaxPat}
VARIABLES pat, subj, pos
vars == <<pat, subj, pos>>
Init == pat \in Pats /\ subj = <<>> /\ pos = StarClosure(pat, {1})
Next == \E c \in Alpha : /\ Len(subj) < MaxSubj
                         /\ subj' = Append(subj, c)
                         /\ pos' = GlobStep(pat, pos, c)
                         /\ pat' = pat
Spec == Init /\ [][Next]_vars
Accepting == (Len(pat) + 1) \in pos
AgreesWithDefinition == Accepting = GlobMatch(pat, subj)
LiteralIsEquality == HasStar(pat) \/ (Accepting = (subj = pat))
StarMatchesAll == (pat = <<"*">>) => Accepting
\* "p*" is a prefix test, "*p" a suffix test (for star-free p)
PrefixSuffix == \A k \in 1..Len(pat) :
    (pat[k] = "*" /\ ~HasStar(SubSeq(pat, 1, k - 1)) /\ k = Len(pat) => Accepting = StartsWith(subj, SubSeq(pat, 1, k - 1)))
=========================================================================
