---------------------------- MODULE RequiredUse ----------------------------
(* C10: solving a REQUIRED_USE constraint (src/pkgcore/restrictions/required_use.py
   find_constraint_satisfaction).  The constraint is a DepSet structure whose leaves
   are flags (`f` / `!f`); an assignment is the set `on` of enabled flags.

   Two readings of a constraint exist and both are defined:
     PMS / Portage (DepSet!Sat with U = T = on): a disabled conditional that is a
       member of an any-of / ^^ / ?? group is no member of it  (how pkgcore CHECKS
       REQUIRED_USE: evaluate_depset(use) then match);
     classical: a conditional is an implication wherever it stands (how the solver
       compiles it).
   They differ only for conditionals inside any-of style groups; an assignment on
   which the readings disagree has Status "unspec": it may or may not be produced.  *)
EXTENDS DepSet

RECURSIVE HoldsNode(_, _)
HoldsNode(n, on) ==
  LET hit == {k \in DOMAIN n.ch : HoldsNode(n.ch[k], on)} IN
  CASE n.t = "leaf" -> (n.v \in on) # n.neg
    [] n.t = "cond" -> CondOn(n, on) => hit = DOMAIN n.ch
    [] n.t = "all"  -> hit = DOMAIN n.ch
    [] n.t = "any"  -> hit # {}
    [] n.t = "one"  -> Cardinality(hit) = 1
    [] n.t = "amo"  -> Cardinality(hit) <= 1
HoldsClassical(ns, on) == \A k \in DOMAIN ns : HoldsNode(ns[k], on)

Status(ns, on) ==
  LET c == HoldsClassical(ns, on)
      r == SatMode(ns, on, on, "reduce")
      s == SatMode(ns, on, on, "strict")
  IN IF c = r /\ r = s THEN (IF c THEN "sat" ELSE "unsat") ELSE "unspec"

\* every flag the constraint names
RECURSIVE Named(_)
Named(ns) == IF ns = <<>> THEN {}
             ELSE (IF Head(ns).t \in {"leaf", "cond"} THEN {Head(ns).v} ELSE {}) \cup Named(Head(ns).ch) \cup Named(Tail(ns))

(* The assignments the caller's restrictions leave.  A flag outside IUSE is off - also when the
   caller forces it on (profile use.force names flags such as kernel_linux that a package does not
   have): "Any USE flag encountered not in this set, will be forced to a False value" is the
   documented contract of the iuse parameter, so forced-on binds the forced flags INSIDE IUSE.   *)
Candidates(iuse, ft, ff) == {on \in SUBSET iuse : (ft \cap iuse) \subseteq on /\ on \cap ff = {}}
Sols(ns, iuse, ft, ff)  == {on \in Candidates(iuse, ft, ff) : Status(ns, on) = "sat"}
\* preferred flags on, every other unforced flag off
Preferred(iuse, ft, ff, pt) == (ft \cap iuse) \cup ((pt \cap iuse) \ ff)
\* domain of the property: no flag is forced both ways (the forced sets may reach outside IUSE)
InDomain(iuse, ft, ff) == ft \cap ff = {}
=========================================================================
