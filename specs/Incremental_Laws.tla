---------------------------- MODULE Incremental_Laws ----------------------------
(* Constant-level laws of Incremental, evaluated by TLC over every stream of length <= N
   (<= N2 for the laws that quantify over two streams).                                   *)
EXTENDS Incremental_Alphabet, TLC
CONSTANTS N, N2

\* the reference condensation is a correct condensed form, on top of every earlier set
CondenseLaw == \A ts \in Streams(N) : CondensedFor(Condense(ts), ts, Bodies)
\* ... and never holds a body in both polarities (so "remove, then add" is unambiguous);
\* the one exception is the literal "*" next to the clearing "-*"
CondenseUnambiguous == \A ts \in Streams(N) : \A x, y \in Condense(ts) :
                          (Body(x) = Body(y) /\ x # y) => Body(x) = "*"
\* positives of the condensed form are exactly the expansion from nothing
CondensePositives == \A ts \in Streams(N) : PosBodies(Condense(ts)) = Fold(ts, {})

\* folding is compositional: however a stream is cut, folding the pieces in order is the same
FoldComposes == \A s, t \in Streams(N2) : \A init \in SUBSET {"a", "z"} :
                   Fold(s \o t, init) = Fold(t, Fold(s, init))
LicComposes  == \A s, t \in Streams(N2) :
                   FoldLicense(s \o t, Flat(Defs), All)
                     = LicFoldFrom(t, 1, FoldLicense(s, Flat(Defs), All), Flat(Defs), All)

\* nested group definitions mean their transitive members; unknown references add nothing
FlatLaw == Flat(Defs) = [g |-> {"b", "c"}, h |-> {"c"}]
CycleLaw == LET D == [x |-> {M(TRUE, "y"), M(FALSE, "l1")}, y |-> {M(TRUE, "x"), M(FALSE, "l2")}]
            IN Flat(D).x = {"l1", "l2"} /\ Flat(D).y = {"l1", "l2"}

\* on streams without groups and without "*", the licence reading is the plain reading
PlainTokens == {t \in Complete : t.kind = "flag" \/ (t.kind = "star" /\ t.neg)}
LicIsPlain == \A ts \in StreamsOver(PlainTokens, N) : FoldLicense(ts, Flat(Defs), All) = Fold(ts, {})

\* rejection is exactly "some token is incomplete", wherever it stands (also before a -*)
RejectLaw == \A ts \in Streams(N) :
               /\ Expand(ts, {}).rej = (\E k \in DOMAIN ts : ts[k] = Tok(TRUE, "flag", ""))
               /\ ExpandLicense(ts, Flat(Defs), All).rej = (\E k \in DOMAIN ts : ts[k] \in Broken)

\* chunked reading: a chunk built from a condensed form acts like the stream it condenses
NoCover(g, f) == FALSE
ChunkOf(C) == [neg |-> NegBodies(C), pos |-> PosBodies(C)]
ChunkLaw == \A ts \in Streams(N) : \A init \in SUBSET {"a", "b", "z"} :
               ~HasIncomplete(ts, PlainIncomplete)
                 => ChunkApply(init, ChunkOf(Condense(ts)), NoCover) = Fold(ts, init)

\* a set of signed tokens without -* : no body in both polarities <=> walking it in any order gives
\* one and the same result, and that result is the clear/remove-then-add reading
NoClear == {t \in Complete : ~IsClear(t) /\ ~(t.kind = "star")}
OrderLaw == \A C \in {X \in SUBSET NoClear : Cardinality(X) <= 4} : \A init \in SUBSET {"a", "b", "z"} :
               /\ Unambiguous(C) <=> Cardinality(AllOrders(C, init)) = 1
               /\ Unambiguous(C) => AllOrders(C, init) = {CondApply(C, init)}
\* the reference condensation is a correct un-finalized form
UnfinLaw == \A ts \in Streams(N) : UnfinalizedDomain(ts) => UnfinalizedFor(Condense(ts), ts, Bodies)

ASSUME OrderLaw
ASSUME UnfinLaw
ASSUME CondenseLaw
ASSUME CondenseUnambiguous
ASSUME CondensePositives
ASSUME FoldComposes
ASSUME LicComposes
ASSUME FlatLaw
ASSUME CycleLaw
ASSUME LicIsPlain
ASSUME RejectLaw
ASSUME ChunkLaw
=========================================================================
