---------------------------- MODULE RepoOps_Trace ----------------------------
(* code -> spec.  Event kinds:
   t = "api":   one class description + overrides + casting mode, what the constructor did,
                what supports() said, which support checks ran, and a list of calls with
                their observed outcome;
   t = "stage": one call of a stage method of a real install / uninstall / replace
                object: observed state before, script, observed result and state after. *)
EXTENDS RepoOps, TraceLib
VARIABLE l

JudgeCall(e, c) ==
  LET x == Invoke(e.cls, AsSet(e.en), AsSet(e.dis), e.casting, c.op, c.b, c.via) IN
     (IF x.kind # c.kind THEN {"Call_kind"} ELSE {})
  \cup (IF x.kind = "raise" /\ c.kind = "raise" /\ x.cls # c.cls THEN {"Call_exc"} ELSE {})
  \cup (IF x.kind = "raise" /\ c.kind = "raise" /\ x.wrapped # c.wrapped THEN {"Call_wrapped"} ELSE {})
  \cup (IF x.kind = "raise" /\ c.kind = "raise" /\ x.wrapped /\ c.wrapped /\ ~c.cause_ok THEN {"Call_cause"} ELSE {})
  \cup (IF c.op \in EnabledOps(e.cls, AsSet(e.en), AsSet(e.dis)) /\ c.reached /\ c.obs # GotObserver(c.via) THEN {"Call_observer"} ELSE {})
  \cup (IF (c.op \in EnabledOps(e.cls, AsSet(e.en), AsSet(e.dis))) # c.reached THEN {"Call_reached"} ELSE {})

JudgeApi(e) ==
  LET en == AsSet(e.en) dis == AsSet(e.dis) exp == CtorOutcome(e.cls, en, dis) IN
  IF exp # e.ctor THEN {"Ctor"}
  ELSE IF exp # "ok" THEN {}
  ELSE (IF AsSet(e.enabled) # EnabledOps(e.cls, en, dis) THEN {"Enabled"} ELSE {})
    \cup (IF AsSet(e.raw) # RawOps(e.cls) THEN {"Raw"} ELSE {})
    \cup (IF AsSet(e.checks) # CheckCalls(e.cls) \/ Len(e.checks) # Cardinality(CheckCalls(e.cls)) THEN {"CheckOnce"} ELSE {})
    \cup (IF AsSet(e.supp_yes) # EnabledOps(e.cls, en, dis) THEN {"Supports"} ELSE {})
    \cup (IF AsSet(e.supp_raw_yes) # RawOps(e.cls) THEN {"SupportsRaw"} ELSE {})
    \cup UNION {JudgeCall(e, e.calls[k]) : k \in DOMAIN e.calls}

ObsSt(o) == [done |-> AsSet(o.done), lock |-> o.lock, underway |-> o.underway, nadd |-> o.nadd, nrem |-> o.nrem]
JudgeStage(e) ==
  LET pre == ObsSt(e.pre) post == ObsSt(e.post)
      sc == [u \in UserStages |-> CASE u = "add_data" -> e.a [] u = "remove_data" -> e.r [] OTHER -> e.f]
      x == CallStage(e.kind, "shipped", pre, e.stage, sc, TRUE) IN
     (IF x.out # e.out THEN {"Out"} ELSE {})
  \cup (IF x.ran # e.ran THEN {"Ran"} ELSE {})
  \cup (IF x.st.done # post.done THEN {"Post_done"} ELSE {})
  \cup (IF x.st.lock # post.lock THEN {"Post_lock"} ELSE {})
  \cup (IF x.st.underway # post.underway THEN {"Post_underway"} ELSE {})
  \cup (IF x.st.nadd # post.nadd THEN {"Post_nadd"} ELSE {})
  \cup (IF x.st.nrem # post.nrem THEN {"Post_nrem"} ELSE {})
  \cup (IF ~Closed(e.kind, post) THEN {"Inv_closed"} ELSE {})
  \cup (IF ~LockOk(post) THEN {"Inv_lock"} ELSE {})
  \cup (IF ~UnderwayOk(post) THEN {"Inv_underway"} ELSE {})
  \cup (IF ~NotifyOnce(post) THEN {"Inv_notify_once"} ELSE {})
  \cup (IF ~NotifyAfterData(e.kind, post) THEN {"Inv_notify_after_data"} ELSE {})
  \cup (IF e.i > 0 /\ ~e.chained THEN {"Chain"} ELSE {})

JudgeSync(e) ==
  LET x == SyncRun(e.loc, e.disabled, e.o, e.via) IN
     (IF SyncOffered(e.loc, e.disabled) # e.offered THEN {"Sync_offered"} ELSE {})
  \cup (IF x.res.kind # e.kind THEN {"Sync_kind"} ELSE {})
  \cup (IF x.res.kind = "raise" /\ e.kind = "raise" /\ x.res.cls # e.cls THEN {"Sync_exc"} ELSE {})
  \cup (IF x.res.kind = "raise" /\ e.kind = "raise" /\ x.res.wrapped # e.wrapped THEN {"Sync_wrapped"} ELSE {})
  \cup (IF x.log # e.log THEN {"Sync_order"} ELSE {})
  \cup (IF x.res.kind = "ret" /\ e.kind = "ret" /\ x.val # e.val THEN {"Sync_value"} ELSE {})
  \cup (IF e.lazy /\ SyncOffered(e.loc, e.disabled) /\ e.kind # "or_return" /\ ~e.instantiated THEN {"Sync_lazy"} ELSE {})

JudgeProxy(e) ==
  LET x == ProxyInvoke(AsSet(e.rawen), AsSet(e.en), AsSet(e.dis), e.op, e.via) IN
     (IF AsSet(e.enabled) # ProxyEnabled(AsSet(e.rawen), AsSet(e.en), AsSet(e.dis)) THEN {"Proxy_enabled"} ELSE {})
  \cup (IF x.kind # e.kind THEN {"Proxy_kind"} ELSE {})
  \cup (IF x.kind = "raise" /\ e.kind = "raise" /\ x.cls # e.cls THEN {"Proxy_exc"} ELSE {})

Judge(e) == IF e.t = "api" THEN JudgeApi(e) ELSE IF e.t = "sync" THEN JudgeSync(e)
            ELSE IF e.t = "proxy" THEN JudgeProxy(e) ELSE JudgeStage(e)
TraceInit == l = 0
TraceNext == /\ l < Len(Tr) /\ l' = l + 1
             /\ Report(Tr[l'].tid, Tr[l'].i, Judge(Tr[l']))
             /\ EndMark(l')
TraceSpec == TraceInit /\ [][TraceNext]_l
=============================================================================
