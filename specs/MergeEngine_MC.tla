---------------------------- MODULE MergeEngine_MC ----------------------------
(* Exhaustive exploration of engine histories (SpecE: register / add_cset / replace_cset / csets[..] /
   hooks in ANY order, trigger bodies failing in every way) and of operation histories (SpecO:
   finish() with retries while triggers and format/repository calls fail); the engine mode is chosen
   in the initial state (RunModes).  Every step is one public call; MaxSteps bounds the history.

   Checked (SpecE): InvRun - whatever hook is called next, its run satisfies PriorityOrdered, TiesInOrder,
   ExactlyOnce, Bracketed, PhaseScoped, StopsAtFailure, Notices, AskedOnly, OncePerRun, ComputedThisRun,
   PreservedKept (InvOrder / InvBracket / InvLazy are the same statements grouped, used by the vacuity
   guards: StableSort = FALSE must break InvOrder, RegenPerHook = FALSE InvLazy, EndOnFailure = FALSE
   InvBracket); InvCoherent, InvPreservedOnce, InvRegistered; action properties PreservedStable,
   HooksGrowOnly, Regenerated, FailureFrame.
   Checked (SpecO): InvOp (OpOrdered, UnderLock, NoRerun), InvDonePrefix, InvLockHeld, InvAbandon;
   action properties DoneGrows, FinishCompletes, FailedStageNotDone.

   Universe: five triggers
     ta  priority 50, pre_merge/merge/pre_unmerge/unmerge/(bogus), required csets by mode (dict; the
         uninstall mode is missing = "all csets"), suppressed exceptions
     tb  priority 50 (a tie with ta), wants the whole mapping, reads user cset u1, exceptions propagate
     tc  priority 10, sanity_check/pre_merge/pre_unmerge, no csets, body calls replace_cset on the
         preserved cset of the mode, suppressed
     td  priority 90, installing modes only, wants `install`, body registers tc, exceptions propagate
     te  priority 50, wants user cset u1: cannot be registered before u1 was added
   and one user cset u1 that can be bound as a generator over the preserved cset, as an alias of the
   install/uninstall cset, preserved or not.                                                        *)
EXTENDS MergeEngine, TLC
CONSTANTS RunModes, MaxSteps, MaxReg

MCTrigs == {"ta", "tb", "tc", "td", "te"}
MCPrio  == [t \in MCTrigs |-> CASE t = "tc" -> 10 [] t = "td" -> 90 [] OTHER -> 50]
MCHooks == [t \in MCTrigs |->
   CASE t = "ta" -> <<"pre_merge", "merge", "pre_unmerge", "unmerge", "bogus">>
     [] t = "tb" -> <<"pre_merge", "pre_unmerge", "final">>
     [] t = "tc" -> <<"sanity_check", "pre_merge", "pre_unmerge">>
     [] t = "td" -> <<"merge", "post_merge", "unmerge">>
     [] OTHER    -> <<"pre_merge", "pre_unmerge">>]
MCModes == [t \in MCTrigs |-> IF t = "td" THEN {"install", "replace"} ELSE Modes]
NoBy == [m \in Modes |-> [has |-> FALSE, names |-> <<>>]]
MCReq == [t \in MCTrigs |->
   CASE t = "ta" -> [kind |-> "dict", names |-> <<>>,
                     bymode |-> [NoBy EXCEPT !["install"] = [has |-> TRUE, names |-> <<"new_cset", "install">>],
                                             !["replace"] = [has |-> TRUE, names |-> <<"install", "uninstall">>]]]
     [] t = "tb" -> [kind |-> "all", names |-> <<>>, bymode |-> NoBy]
     [] t = "tc" -> [kind |-> "tuple", names |-> <<>>, bymode |-> NoBy]
     [] t = "td" -> [kind |-> "tuple", names |-> <<"install">>, bymode |-> NoBy]
     [] OTHER    -> [kind |-> "tuple", names |-> <<"u1">>, bymode |-> NoBy]]
MCSupp == [t \in MCTrigs |-> t \in {"ta", "tc", "te"}]
MainCset(m) == IF m = "uninstall" THEN "old_cset" ELSE "new_cset"
WorkCset(m) == IF m = "uninstall" THEN "uninstall" ELSE "install"
ByMode(f(_)) == [m \in Modes |-> f(m)]
Same(n) == [m \in Modes |-> n]
MCAct == [t \in MCTrigs |->
   CASE t = "tb" -> [k |-> "read", n |-> Same("u1"), t |-> ""]
     [] t = "tc" -> [k |-> "replace", n |-> ByMode(MainCset), t |-> ""]
     [] t = "td" -> [k |-> "register", n |-> Same("nosuch"), t |-> "tc"]
     [] OTHER    -> [k |-> "none", n |-> Same("nosuch"), t |-> ""]]
MCUserNames == {"u1"}
MCPlugins == <<>>
\* the bindings a caller may give u1
MCUserDefs(m) == {[n |-> "u1", d |-> Gen(<<MainCset(m)>>), pres |-> FALSE],
                  [n |-> "u1", d |-> Gen(<<MainCset(m)>>), pres |-> TRUE],
                  [n |-> "u1", d |-> Ali(WorkCset(m)), pres |-> FALSE]}
\* the way each trigger's body fails in the exhaustive runs (the simulated and recorded histories use every kind):
\* a suppressed exception, one that propagates, a modification error, a never-suppressed RuntimeError
MCFailKind == [t \in MCTrigs |-> CASE t = "tc" -> "modify" [] t = "td" -> "runtime" [] OTHER -> "plain"]
MCFmtTrigs == <<"tc">>
MCDomTrigs == <<"ta", "tb", "td">>

VARIABLES eng, fail, last, steps, op, env
vars == <<eng, fail, last, steps, op, env>>
L(o, a, r) == [op |-> o, arg |-> a, res |-> r]
Toggle(t) == IF fail[t] = "ok" THEN MCFailKind[t] ELSE "ok"
AllOk == [t \in Trigs |-> "ok"]
EnvOk == [c \in EnvCalls |-> "ok"]
TotalReg(s) == LET RECURSIVE Sum(_)
                   Sum(hs) == IF hs = {} THEN 0 ELSE LET h == CHOOSE x \in hs : TRUE IN Len(s.hooks[h]) + Sum(hs \ {h})
               IN Sum(DOMAIN s.hooks)
Registered(s, t) == \E h \in DOMAIN s.hooks : \E k \in DOMAIN s.hooks[h] : s.hooks[h][k] = t

(* ---------------- engine level ---------------- *)
Init == \E m \in RunModes :
        /\ eng = New(m) /\ fail = AllOk /\ last = L("new", "", "ok") /\ steps = 0
        /\ op = OpNew(m) /\ env = EnvOk
Mode == eng.mode
Step == steps < MaxSteps /\ steps' = steps + 1 /\ UNCHANGED <<op, env>>
Reg(t) == /\ Step /\ TotalReg(eng) < MaxReg
          /\ LET r == Register(eng, t) IN eng' = r.s /\ last' = L("register", t, r.res)
          /\ UNCHANGED fail
Add(u) == /\ Step
          /\ LET s2 == AddCset(eng, u.n, u.d, u.pres) IN
             /\ s2 # eng
             /\ eng' = s2
          /\ last' = L("addcset", u.n, "ok") /\ UNCHANGED fail
Repl(n) == /\ Step /\ n \in eng.pres
           /\ eng' = ReplaceCset(eng, n).s /\ last' = L("replace", n, "ok") /\ UNCHANGED fail
PeekA(n) == /\ Step /\ eng.src[n].def /\ CachedVal(eng, n) = NoVal
            /\ eng' = Peek(eng, n).s /\ last' = L("peek", n, "ok") /\ UNCHANGED fail
Hook(h) == /\ Step
           /\ LET r == RunHook(eng, fail, h) IN eng' = r.s /\ last' = L("hook", h, r.res)
           /\ UNCHANGED fail
SetFail(t, k) == /\ Step /\ Registered(eng, t) /\ fail[t] # k
                 /\ fail' = [fail EXCEPT ![t] = k] /\ last' = L("setfail", t, k) /\ UNCHANGED eng
Next == \/ \E t \in Trigs : Reg(t)
        \/ \E u \in MCUserDefs(Mode) : Add(u)
        \/ \E n \in {MainCset(Mode), "u1"} : Repl(n)
        \/ \E n \in {WorkCset(Mode), "u1"} : PeekA(n)
        \/ \E h \in HookSet(Mode) : Hook(h)
        \/ \E t \in Trigs : SetFail(t, Toggle(t))
SpecE == Init /\ [][Next]_vars

RunOf(h) == RunHook(eng, fail, h)
\* whatever hook is called next, in whatever reachable state: the run satisfies what the user relies on
InvOrder == \A h \in HookSet(Mode) : LET r == RunOf(h) IN
              /\ PriorityOrdered(r.log) /\ TiesInOrder(r.log, eng.hooks[h]) /\ ExactlyOnce(r.log, eng.hooks[h], r.res)
InvBracket == \A h \in HookSet(Mode) : LET r == RunOf(h) IN
              /\ Bracketed(r.log) /\ PhaseScoped(r.log) /\ StopsAtFailure(r.log, fail, r.res) /\ Notices(r.log, fail)
InvLazy == \A h \in HookSet(Mode) : LET r == RunOf(h) IN
              /\ AskedOnly(eng, r.log) /\ OncePerRun(r.log) /\ ComputedThisRun(eng, r.log) /\ PreservedKept(eng, r.log)
InvRun == \A h \in HookSet(Mode) : eng.hooks[h] # <<>> => LET r == RunOf(h) IN RunClauses(eng, fail, h, r.log, r.res) = {}
InvCoherent == Coherent(eng)
InvPreservedOnce == PreservedOnce(eng)
\* a trigger sits only in hooks it named, in a mode it named, with csets the engine knows
InvRegistered == \A h \in DOMAIN eng.hooks : \A k \in DOMAIN eng.hooks[h] :
                   LET t == eng.hooks[h][k] IN
                   /\ Mode \in TModes[t] /\ \E j \in DOMAIN THooks[t] : THooks[t][j] = h /\ ~UnknownCset(eng, t)

ReplacedBy(n) == \/ last'.op = "replace" /\ last'.arg = n
                 \/ last'.op = "hook" /\ \E k \in DOMAIN RunOf(last'.arg).log :
                                            LET x == RunOf(last'.arg).log[k] IN x.k = "replaced" /\ x.n = n
\* a preserved cset, once computed, is the same object for the rest of the engine's life unless replace_cset
PreservedStable == [][\A n \in Names : (n \in eng.pres /\ eng.pv[n] # NoVal) => (eng'.pv[n] = eng.pv[n] \/ ReplacedBy(n))]_vars
\* registrations are never dropped or reordered
HooksGrowOnly == [][\A h \in DOMAIN eng.hooks : PrefixOf(eng.hooks[h], eng'.hooks[h])]_vars
\* nothing a non-preserved generator made survives a hook: what is cached afterwards was made during it
Regenerated == [][last'.op = "hook" =>
                   \A n \in Names : (n \notin eng.pres /\ eng'.hv[n] # NoVal /\ eng'.hv[n][1] = n) => eng'.hv[n][2] > eng.cnt[n]]_vars
\* a failed hook leaves the definitions alone
FailureFrame == [][(last'.op = "hook" /\ last'.res # "ok") => (eng'.src = eng.src /\ eng'.pres = eng.pres)]_vars

(* ---------------- operation level ---------------- *)
OInit == Init
OStep == steps < MaxSteps /\ steps' = steps + 1 /\ UNCHANGED eng
AllDone(o) == o.done = {Stages(o.mode)[i] : i \in DOMAIN Stages(o.mode)}
FinishOf == Finish(op, fail, env, MCFmtTrigs, MCDomTrigs)
OFinish == /\ OStep /\ ~AllDone(op)
           /\ LET r == FinishOf IN op' = r.s /\ last' = L("finish", "", r.res)
           /\ UNCHANGED <<fail, env>>
\* (one faulty trigger and one faulty format / repository call at a time, any sequence of them over the retries)
OSetFail(t, k) == /\ OStep /\ fail[t] # k /\ (\A u \in Trigs \ {t} : fail[u] = "ok") /\ fail' = [fail EXCEPT ![t] = k] /\ last' = L("setfail", t, k)
                  /\ UNCHANGED <<op, env>>
OSetEnv(c, v) == /\ OStep /\ env[c] # v /\ (\A d \in EnvCalls \ {c} : env[d] = "ok") /\ env' = [env EXCEPT ![c] = v] /\ last' = L("setenv", c, v)
                 /\ UNCHANGED <<op, fail>>
ONext == \/ OFinish
         \/ \E t \in {"ta", "tb", "tc", "td"} : OSetFail(t, Toggle(t))
         \/ \E c \in EnvCalls, v \in {"ok", "false", "raise"} : OSetEnv(c, v)
SpecO == OInit /\ [][ONext]_vars

InvOp == LET r == FinishOf IN
         /\ OpOrdered(op, r.log) /\ UnderLock(op, r.log) /\ NoRerun(op, r.log)
         /\ \A k \in DOMAIN r.log : r.log[k].k = "hook" => r.log[k].h \in HookSet(Mode)
InvDonePrefix == DonePrefix(op)
InvLockHeld == (op.live /\ ~AllDone(op)) => op.locks > 0
\* giving up an operation that went through `start` once leaves neither the lock nor a tempspace behind
InvAbandon == op.starts <= 1 => LET a == Abandon(op) IN a.locks = 0 /\ a.tmps = 0
\* a completed stage stays completed; a failed finish() completes nothing after the stage that failed
DoneGrows == [][op.done \subseteq op'.done]_vars
FinishCompletes == [][(last'.op = "finish" /\ last'.res = "ok") => AllDone(op')]_vars
FailedStageNotDone == [][(last'.op = "finish" /\ last'.res # "ok") => ~AllDone(op')]_vars
=========================================================================
