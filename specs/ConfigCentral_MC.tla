---------------------------- MODULE ConfigCentral_MC ----------------------------
(* Every history of public calls (up to MaxOps) on one manager over a small library of
   sources.  The universe is written by the driver (drivers/g04_configcentral.py UNIVERSES) as one
   JSON line {lib, auto, init, addable, names, types} and read through IOEnv.UNI_FILE, so the
   model checker, the simulator and the replay on the real ConfigManager use the very same data.

   Invariants (state) and action properties (step) are the ones named in ConfigCentral.tla.
   lsw remembers the switch at the time of the last load: StacksAreLoad says that what the
   manager lists is exactly what loading its sources gave -- queries, failed or not, and refused
   adds never change it.                                                                     *)
EXTENDS ConfigCentral, Json, IOUtils
CONSTANT MaxOps

Uni      == ndJsonDeserialize(IOEnv.UNI_FILE)[1]
ULib     == Uni.lib
SetOf(s) == {s[k] : k \in DOMAIN s}
UAuto    == SetOf(Uni.auto)
UNames   == SetOf(Uni.names)      \* names asked for (defined ones and one that is not)
UTypes   == SetOf(Uni.types)
UAddable == SetOf(Uni.addable)
UInit    == Uni.init

Ops == [op : {"collapse", "instantiate"}, n : UNames, t : {"-"}, s : {0}, k : {0}]
       \cup [op : {"objget", "contains"}, n : UNames, t : UTypes, s : {0}, k : {0}]
       \cup [op : {"objkeys", "getdefault"}, n : {"-"}, t : UTypes, s : {0}, k : {0}]
       \cup [op : {"force"}, n : UNames, t : {"-"}, s : {0}, k : {1, 2}]
       \cup [op : {"reload", "flip"}, n : {"-"}, t : {"-"}, s : {0}, k : {0}]
       \cup [op : {"add"}, n : {"-"}, t : {"-"}, s : UAddable, k : {0}]

VARIABLES m, lsw, last, nops
vars == <<m, lsw, last, nops>>
NoOp == [op |-> "init", n |-> "-", t |-> "-", s |-> 0, k |-> 0]
\* last = the operation that led here and its result (the manager inside the result is m itself)
Strip(r)     == [calls |-> r.calls, exc |-> r.exc, sec |-> r.sec, tok |-> r.tok, ty |-> r.ty, flag |-> r.flag, keys |-> r.keys]
WithM(r, mm) == Res(mm, r.calls, r.exc, r.sec, r.tok, r.ty, r.flag, r.keys)

Init == LET r == DoInit(UInit, FALSE, 0) IN
        /\ r.exc = ""
        /\ m = r.m /\ lsw = FALSE /\ nops = 0
        /\ last = [o |-> NoOp, r |-> Strip(r)]
Step(o) == /\ Enabled(m, o)
           /\ LET r == Apply(m, o) IN
              /\ m' = r.m
              /\ last' = [o |-> o, r |-> Strip(r)]
              /\ lsw' = IF o.op = "reload" \/ (o.op = "add" /\ (r.exc = "" \/ ~AddIsAtomic)) THEN m.sw ELSE lsw
           /\ nops' = nops + 1
Next == nops < MaxOps /\ \E o \in Ops : Step(o)
Spec == Init /\ [][Next]_vars

(* ---- invariants: every reachable state of a manager that is not broken ---- *)
Live == ~m.broken
InvNested           == Live => Nested(m)
InvCacheCoherent    == Live => CacheCoherent(m)
InvRenderedClosed   == Live => RenderedClosed(m)
InvSharedInstances  == Live => SharedInstances(m) /\ DistinctObjects(m)
InvOrderIndependent == Live => OrderIndependent(m, UNames)
InvLazyCacheSound   == Live => LazyCacheSound(m)
InvStacksAreLoad    == Live => LET x == LoadAll(m.orig, lsw, 0) IN x.err = "" /\ x.stk = m.stk
\* the calls of the initial load obey OnlyAfter too
InvInitOnlyAfter    == last.o.op = "init" => StepOnlyAfter(m, last.o, WithM(last.r, m))

(* ---- action properties: every step m --last'.o--> m' ---- *)
PropAtMostOnce == [][StepAtMostOnce(m, last'.o, WithM(last'.r, m'))]_vars
PropOnlyAfter  == [][StepOnlyAfter(m, last'.o, WithM(last'.r, m'))]_vars
PropNoResidue  == [][StepNoResidue(m, last'.o, WithM(last'.r, m'))]_vars
PropRepeatable == [][StepRepeatable(m, last'.o, WithM(last'.r, m'))]_vars
PropAddAtomic  == [][StepAddAtomic(m, last'.o, WithM(last'.r, m'))]_vars
\* between two loads the caches only grow and what is cached never changes
PropCachesGrow == [][IsQuery(last'.o) =>
                       /\ \A n \in DOMAIN m.ren : n \in DOMAIN m'.ren /\ m'.ren[n] = m.ren[n]
                       /\ \A n \in DOMAIN m.inst : n \in DOMAIN m'.inst /\ m'.inst[n] = m.inst[n]
                       /\ m.lzc \subseteq m'.lzc]_vars
\* a load throws every cached object away: nothing made before is handed out afterwards
PropLoadForgets == [][(last'.o.op \in {"reload", "add"} /\ (last'.r.exc = "" \/ last'.o.op = "reload")) =>
                        \A n \in DOMAIN m'.inst : m'.inst[n].tok > m.seq]_vars
=========================================================================
