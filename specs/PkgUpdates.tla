---------------------------- MODULE PkgUpdates ----------------------------
(* C42: profiles/updates (src/pkgcore/ebuild/pkg_updates.py read_updates).

   An update file is named <quarter>Q-<year> and holds lines
       move <old cat/pkg> <new cat/pkg>
       slotmove <atom> <old slot> <new slot>
   Files apply in chronological order (year, then quarter), lines in file order.
   Abstract line:  [k |-> "move" | "slotmove" | "bad", a, b, s1, s2]
       move a -> b;  slotmove of package a from slot s1 to s2;  "bad" = any malformed line.

   Sequential reference.  Walk the lines in order, remembering which names have been moved
   away: a malformed line is skipped; a line about an already moved name is redundant and
   ignored; everything else is *accepted*.  The commands reported for a name n are its own
   accepted commands in order; when the last of them is a move n -> m (nothing about n is
   accepted after that), the chain continues with what is accepted for m AFTER that move,
   and so on along the chain.  Earlier commands of m are not part of n's history.          *)
EXTENDS Naturals, Sequences, FiniteSets, SequencesExt

NoName == "-"
Move(a, b)         == [k |-> "move", a |-> a, b |-> b, s1 |-> "-", s2 |-> "-"]
SlotMove(a, s1, s2) == [k |-> "slotmove", a |-> a, b |-> NoName, s1 |-> s1, s2 |-> s2]
Bad                == [k |-> "bad", a |-> NoName, b |-> NoName, s1 |-> "-", s2 |-> "-"]

(* ---- file order ---- *)
Older(f, g) == f.y < g.y \/ (f.y = g.y /\ f.q < g.q)
Chrono(files) == SortSeq(files, Older)
RECURSIVE Concat(_, _)
Concat(files, k) == IF k > Len(files) THEN <<>> ELSE files[k].lines \o Concat(files, k + 1)
Lines(files) == Concat(Chrono(files), 1)

(* ---- EAPI 8: free-form file names.  PMS leaves the order of such files open, so no particular
   order is demanded -- but the files form A sequence: the result must be what some order of
   the files gives, the same one however the directory happens to list them.              ---- *)
FileOrders(n) == {p \in [1..n -> 1..n] : \A i, j \in 1..n : i # j => p[i] # p[j]}
LinesUnder(files, p) == Concat([k \in 1..Len(files) |-> files[p[k]]], 1)

(* ---- which lines are accepted ---- *)
RECURSIVE AccFrom(_, _, _)
AccFrom(lines, k, moved) ==
    IF k > Len(lines) THEN {}
    ELSE LET ln == lines[k] IN
         IF ln.k = "bad" \/ ln.a \in moved THEN AccFrom(lines, k + 1, moved)
         ELSE {k} \cup AccFrom(lines, k + 1, IF ln.k = "move" THEN moved \cup {ln.a} ELSE moved)
Accepted(lines) == AccFrom(lines, 1, {})

(* ---- chains ---- *)
RECURSIVE Follow(_, _, _, _)
Follow(lines, acc, n, t) ==
    LET own == SetToSortSeq({i \in acc : i > t /\ lines[i].a = n}, <) IN
    IF own = <<>> THEN <<>>
    ELSE LET last == own[Len(own)]
             cmds == [j \in DOMAIN own |-> lines[own[j]]]
         IN IF lines[last].k = "move" THEN cmds \o Follow(lines, acc, lines[last].b, last) ELSE cmds

CommandsFor(lines, n) == Follow(lines, Accepted(lines), n, 0)
Reported(lines, names) == {n \in names : CommandsFor(lines, n) # <<>>}
=========================================================================
