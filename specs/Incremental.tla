---------------------------- MODULE Incremental ----------------------------
(* C12 (and the base of C11 / C13): Gentoo "incremental" variables
   (src/pkgcore/ebuild/misc.py: incremental_expansion, optimize_incrementals,
   incremental_expansion_license, incremental_chunked, collapsed_restrict_to_data).

   A token is a record [neg, kind, name]:
       kind "flag"  : name            / -name        (name = "" and neg: the bare "-")
       kind "star"  : *               / -*
       kind "group" : @name           / -@name       (name = "": the bare "@" / "-@")
   Body(t) is the text after the optional "-", Text(t) the full token text: the spec
   compares the strings the implementation returns with Body/Text of the tokens it was
   given, it never looks inside a string.

   Three readings of a token stream, all strictly left to right:
     * plain   (USE, FEATURES, ACCEPT_KEYWORDS ...): "-*" clears, "-x" removes the body x,
       anything else adds its body ("*", "@g" are ordinary bodies here);
     * licence (ACCEPT_LICENSE): "*" adds every licence in question, "@g" / "-@g" add / remove
       the members of group g (an unknown group has no members), "-*" clears;
     * chunked (USE stacks, C11): a chunk [neg, pos] is "clear if * in neg, drop the flags of
       every negated prefix glob, remove neg, then add pos"; a stream of chunks is folded in order.
   A stream holding an incomplete token is rejected as a whole.                           *)
EXTENDS Naturals, Sequences, FiniteSets

Tok(neg, kind, name) == [neg |-> neg, kind |-> kind, name |-> name]

Body(t) == CASE t.kind = "star"  -> "*"
             [] t.kind = "group" -> "@" \o t.name
             [] OTHER            -> t.name
Text(t) == IF t.neg THEN "-" \o Body(t) ELSE Body(t)

Accepted(S) == [rej |-> FALSE, set |-> S]
Rejected    == [rej |-> TRUE,  set |-> {}]

(* ------------------------------ plain incrementals ------------------------------ *)
PlainIncomplete(t) == t.neg /\ Body(t) = ""

PlainStep(S, t) == IF t.neg THEN (IF Body(t) = "*" THEN {} ELSE S \ {Body(t)})
                   ELSE S \cup {Body(t)}

RECURSIVE FoldFrom(_, _, _)
FoldFrom(ts, k, S) == IF k > Len(ts) THEN S ELSE FoldFrom(ts, k + 1, PlainStep(S, ts[k]))
Fold(ts, init) == FoldFrom(ts, 1, init)

HasIncomplete(ts, Inc(_)) == \E k \in DOMAIN ts : Inc(ts[k])
Expand(ts, init) == IF HasIncomplete(ts, PlainIncomplete) THEN Rejected ELSE Accepted(Fold(ts, init))

(* ------- the condensed form: a SET of tokens, read as "clear / remove, then add" ------- *)
NegBodies(C) == {Body(t) : t \in {x \in C : x.neg}}
PosBodies(C) == {Body(t) : t \in {x \in C : ~x.neg}}
CondApply(C, init) == (IF "*" \in NegBodies(C) THEN {} ELSE init \ NegBodies(C)) \cup PosBodies(C)

\* C is a correct condensed form of the stream ts: it means the same on top of every earlier set
\* (U: the bodies that can occur in an earlier set)
CondensedFor(C, ts, U) == \A init \in SUBSET U : CondApply(C, init) = Fold(ts, init)

\* reference condensation: the last -* (if any) and, after it, the last token of every body
IsClear(t) == t.neg /\ Body(t) = "*"
LastClear(ts) == LET ks == {k \in DOMAIN ts : IsClear(ts[k])} IN
                 IF ks = {} THEN 0 ELSE CHOOSE k \in ks : \A j \in ks : j <= k
Condense(ts) ==
    LET k0 == LastClear(ts)
        last == {k \in (k0 + 1)..Len(ts) : \A j \in (k + 1)..Len(ts) : Body(ts[j]) # Body(ts[k])}
    IN {ts[k] : k \in last} \cup (IF k0 > 0 THEN {ts[k0]} ELSE {})

(* ------- the un-finalized form: a SET of signed tokens that keeps its negations ------- *)
\* (incremental_expansion(.., finalize=False); what collapsed_restrict_to_data stores as .defaults
\*  when asked not to finalize).  It is a set, so whoever expands it walks it in SOME order: it has
\*  a meaning only if it is unambiguous - no body in both polarities (the literal "*" next to the
\*  clearing "-*" excepted) - and then the meaning is CondApply (Incremental_Laws!OrderLaw: for a
\*  set without -*, unambiguous <=> every walk order gives one and the same result, CondApply).
Unambiguous(C) == \A x, y \in C : (Body(x) = Body(y) /\ x # y) => Body(x) = "*"
RECURSIVE AllOrders(_, _)
AllOrders(C, S) == IF C = {} THEN {S} ELSE UNION {AllOrders(C \ {t}, PlainStep(S, t)) : t \in C}
UnfinalizedFor(C, ts, U) == Unambiguous(C) /\ CondensedFor(C, ts, U)
\* the un-finalized mode is for USE-like streams: a positive literal "*" is outside its domain
UnfinalizedDomain(ts) == \A k \in DOMAIN ts : ~(~ts[k].neg /\ Body(ts[k]) = "*")

(* ------------------------------ licence incrementals ------------------------------ *)
LicIncomplete(t) == \/ t.kind = "group" /\ t.name = ""
                    \/ t.kind = "flag" /\ t.neg /\ t.name = ""

\* groups: a function  group name -> set of licences  (already flat)
GroupSet(groups, g) == IF g \in DOMAIN groups THEN groups[g] ELSE {}

LicStep(S, t, groups, all) ==
    CASE t.kind = "star"  -> IF t.neg THEN {} ELSE S \cup all
      [] t.kind = "group" -> IF t.neg THEN S \ GroupSet(groups, t.name) ELSE S \cup GroupSet(groups, t.name)
      [] OTHER            -> IF t.neg THEN S \ {t.name} ELSE S \cup {t.name}

RECURSIVE LicFoldFrom(_, _, _, _, _)
LicFoldFrom(ts, k, S, groups, all) ==
    IF k > Len(ts) THEN S ELSE LicFoldFrom(ts, k + 1, LicStep(S, ts[k], groups, all), groups, all)
FoldLicense(ts, groups, all) == LicFoldFrom(ts, 1, {}, groups, all)
ExpandLicense(ts, groups, all) ==
    IF HasIncomplete(ts, LicIncomplete) THEN Rejected ELSE Accepted(FoldLicense(ts, groups, all))

\* group definitions as written in profiles/license_groups: a function
\*   group name -> set of members [ref |-> BOOLEAN, name]; ref = TRUE is "@name".
\* A reference to an unknown group (or back to a group being expanded) contributes nothing.
RECURSIVE Members(_, _, _)
Members(defs, g, visiting) ==
    IF g \notin DOMAIN defs \/ g \in visiting THEN {}
    ELSE UNION {IF m.ref THEN Members(defs, m.name, visiting \cup {g}) ELSE {m.name} : m \in defs[g]}
Flat(defs) == [g \in DOMAIN defs |-> Members(defs, g, {})]

(* ---------------------------------- chunked (USE) ---------------------------------- *)
\* A chunk is [neg, pos]: sets of flag texts; "*" in neg clears; a glob in neg drops what it
\* covers.  Covers(glob, flag) is supplied by the user of this module (TLC cannot look inside
\* strings): for "p_*" it holds of every flag text starting with "p_".
ChunkApply(S, c, Covers(_, _)) ==
    LET kept == IF "*" \in c.neg THEN {} ELSE {f \in S : ~\E g \in c.neg : Covers(g, f)}
    IN (kept \ c.neg) \cup c.pos

ChunkFold(cs, init, Covers(_, _)) ==
    LET f[k \in 0..Len(cs)] == IF k = 0 THEN init ELSE ChunkApply(f[k - 1], cs[k], Covers)
    IN f[Len(cs)]

(* ---------------------- entries restricted to the packages they match ---------------------- *)
\* an entry is a record with a field `scope` (the set of package ids it applies to)
RECURSIVE ApplicableFrom(_, _, _)
ApplicableFrom(es, k, p) ==
    IF k > Len(es) THEN <<>>
    ELSE (IF p \in es[k].scope THEN <<es[k]>> ELSE <<>>) \o ApplicableFrom(es, k + 1, p)
Applicable(es, p) == ApplicableFrom(es, 1, p)

\* concatenation of the token lists (field `toks`) of a sequence of entries
RECURSIVE FlattenFrom(_, _)
FlattenFrom(es, k) == IF k > Len(es) THEN <<>> ELSE es[k].toks \o FlattenFrom(es, k + 1)
Flatten(es) == FlattenFrom(es, 1)

(* --------------------------- profile inheritance: the stack of a node --------------------------- *)
\* nodes: a sequence of records with a field `parents` (indices of earlier nodes, in the order of
\* the node's `parent` file).  A node's stack is the stacks of its parents, in that order, followed
\* by the node itself: a node inherited along several paths occurs (and is applied) once per path.
RECURSIVE StackFrom(_, _)
StackFrom(nodes, k) ==
    LET ps == nodes[k].parents
        f[j \in 0..Len(ps)] == IF j = 0 THEN <<>> ELSE f[j - 1] \o StackFrom(nodes, ps[j])
    IN f[Len(ps)] \o <<k>>
\* the profile a domain is configured with is the last node
StackSeq(nodes) == IF Len(nodes) = 0 THEN <<>> ELSE StackFrom(nodes, Len(nodes))
WellStacked(nodes) == \A k \in DOMAIN nodes : \A j \in DOMAIN nodes[k].parents : nodes[k].parents[j] \in 1..(k - 1)
=========================================================================
