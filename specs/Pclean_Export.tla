---------------------------- MODULE Pclean_Export ----------------------------
(* spec -> code: concrete cleaning scenarios over one small world with overlapping distfile names
   (foo / foo-bar, a patch shared by several packages, stale files of versions no longer anywhere):
   which packages are in the repository / installed, every combination of the three exclusion
   flags, a target, exclusion patterns given on the command line (-x), in an exclusion file (-X)
   or both at once, the file filters.  Text the code must parse (names, versions, patterns) is
   exported as character sequences.                                                             *)
EXTENDS Pclean, TLC, Json, IOUtils, SequencesExt
CONSTANT Size
foo == <<"f", "o", "o">>
foobar == <<"f", "o", "o", "-", "b", "a", "r">>
baz == <<"b", "a", "z">>
qux == <<"q", "u", "x">>
RP(c, n, v, dist, restricted) == [cat |-> <<c>>, pkg |-> n, ver |-> <<v>>, slot |-> <<"0">>, sub |-> <<"0">>, repo |-> <<"r">>,
                                  dist |-> dist, restricted |-> restricted]
P1 == RP("a", foo, "1", <<"foo-1.tar.gz", "shared.patch">>, FALSE)
P2 == RP("a", foo, "2", <<"foo-2.tar.gz", "shared.patch">>, FALSE)
P3 == RP("a", foobar, "1", <<"foo-bar-1.tar.gz">>, FALSE)
P4 == RP("b", baz, "3", <<"baz-3.tar.xz">>, TRUE)
I1 == RP("a", foo, "0", <<"foo-0.tar.gz", "shared.patch">>, FALSE)
I2 == RP("b", qux, "1", <<"qux-1.zip", "baz-3.tar.xz">>, FALSE)
\* distdir content: [name, size, mrel] ; thresholds below are S = 200 bytes, T = day 2
FL(n, s, m) == [name |-> n, size |-> s, mrel |-> m]
Files == <<FL("foo-0.tar.gz", 100, 1), FL("foo-0.5.tar.gz", 300, 1), FL("foo-1.tar.gz", 100, 3), FL("foo-2.tar.gz", 100, 1),
           FL("foo-bar-0.tar.gz", 100, 1), FL("foo-bar-1.tar.gz", 100, 1), FL("baz-3.tar.xz", 300, 3), FL("qux-1.zip", 100, 1),
           FL("shared.patch", 100, 1), FL("unrelated.bin", 100, 1), FL("baz-2.tar.xz", 100, 1)>>
Repos == IF Size = 1 THEN {<<P1, P2, P3, P4>>, <<P1, P3>>}
         ELSE {<<P1, P2, P3, P4>>, <<P1, P3>>, <<P3, P4>>, <<>>}
Installs == IF Size = 1 THEN {<<I1, I2>>} ELSE {<<>>, <<I1, I2>>}
Targets == {<<>>, <<foo>>, <<<<"a", "/">> \o foo>>, <<<<"b", "/">> \o baz, foobar>>}
           \cup (IF Size = 1 THEN {} ELSE {<<baz>>, <<<<"a", "/", "*">>>>, <<foo \o <<"*">>>>})
\* exclusion patterns and the way they reach the tool: <<command line (-x), exclusion file (-X)>>
XA == <<"a", "/">> \o foobar
XB == <<"b", "/", "*">>
XF == foo
XQ == <<"a", "/", "q", "*">>
XPairs == {<<<<>>, <<>>>>}
          \cup {<<<<x>>, <<>>>> : x \in {XA, XB, XF}} \cup {<<<<>>, <<x>>>> : x \in {XA, XB, XF}}
          \cup {<<<<XA>>, <<XB>>>>, <<<<XB>>, <<XF>>>>, <<<<XF>>, <<XA>>>>, <<<<XA, XF>>, <<XB>>>>}
          \* lists mixing a globbed and an exact package name (with / without category, in one list or across -x and -X)
          \cup {<<<<XQ, XA>>, <<>>>>, <<<<>>, <<XA, XQ>>>>, <<<<XQ>>, <<XA>>>>, <<<<<<"q", "*">>, foobar>>, <<>>>>, <<<<<<"b", "/", "b", "*">>, XA>>, <<>>>>}
Filters == IF Size = 1 THEN {<<FALSE, FALSE>>, <<TRUE, TRUE>>} ELSE BOOLEAN \X BOOLEAN
Cases == {[files |-> Files, repo |-> r, installed |-> ins, targets |-> t, excludes |-> x[1], xfile |-> x[2],
           opts |-> [exclInstalled |-> i, exclExists |-> e, exclFetch |-> f, useM |-> fl[1], useS |-> fl[2], T |-> 2, S |-> 200]] :
          r \in Repos, ins \in Installs, t \in Targets, x \in XPairs, i \in BOOLEAN, e \in BOOLEAN, f \in BOOLEAN, fl \in Filters}
ASSUME ndJsonSerialize(IOEnv.OUT, SetToSeq(Cases))
=========================================================================
