---------------------------- MODULE IpcReply_Trace ----------------------------
(* Judge of recorded request streams (C32).  One event per request the real code was given:
   {side            "py": scripted daemon (lines queued, python side observed);  "sh": real bash side
    shrc            side "sh": exit status of __ebd_ipc_cmd as bash saw it
    tid, i          stream id, ordinal of the request in the stream (1..)
    tmpl            template id (IpcReply_Cases) -- information only
    nonfatal        the request's nonfatal flag
    feasible        from the template: can the action succeed at all
    probes_ok       OBSERVED after the request: every probe of the template holds
    payload, text   reply text the template prescribes ("-" = none) / text observed after BEL
    reads           tags <<k, p>> of the lines the python side consumed for this request
                    (k = ordinal of the scripted request the line belongs to, p = its position)
    writes          what the python side wrote: [{nl, code, hasmsg}]  nl = number of newline
                    characters of the write (terminator included), code = integer before BEL
                    (-1 unreadable), hasmsg = non-empty text after BEL
    stale           every probe held already BEFORE the request (an earlier request did the same)
    fired           the injected fault was hit
    failed          run_generic_phase raised while this request was being served
    next_served     a later request of the stream was dispatched afterwards}              *)
EXTENDS IpcReply, TraceLib
VARIABLE l

Judge(e) ==
  LET W == e.writes
      base == e.feasible /\ e.probes_ok
      \* an underlying operation failed (injected) but the end state is as requested all the same:
      \* either status is truthful, the reply's own status is taken (build fate must still agree)
      \* (likewise when every probe already held before the request: nothing can be observed)
      succ == IF (e.fired \/ e.stale) /\ base THEN (Len(W) >= 1 /\ W[1].code = 0) ELSE base
      want == WantBuild(e.nonfatal, succ)
  IN (IF Len(W) = WantReplyLines THEN {} ELSE {"OneReply"})
     \cup (IF \A n \in DOMAIN W : W[n].nl = 1 THEN {} ELSE {"SingleLine"})
     \cup (IF Len(W) >= 1 /\ ((W[1].code = 0) # WantCodeZero(succ)) THEN {"Truthful"} ELSE {})
     \cup (IF Len(W) >= 1 /\ W[1].code # 0 /\ ~W[1].hasmsg THEN {"FailureMessage"} ELSE {})
     \cup (IF want = "fails" /\ (~e.failed \/ e.next_served) THEN {"FatalFailsBuild"} ELSE {})
     \cup (IF want = "continues" /\ e.failed THEN {IF succ THEN "SuccessKeepsBuild" ELSE "NonfatalContinues"} ELSE {})
     \cup (IF e.reads = OwnLines(e.i) THEN {} ELSE {"RequestFraming"})
     \cup (IF e.payload # "-" /\ succ /\ Len(W) >= 1 /\ e.text # e.payload THEN {"Payload"} ELSE {})

\* the same stream driven by the real bash side (__ebd_ipc_cmd, nonfatal): shrc is the status the helper
\* call ends with in bash -- what `nonfatal dobin ... || ...` sees.  A reply of several lines shows up
\* here as a wrong status of a LATER request.
JudgeSh(e) ==
  LET base == e.feasible /\ e.probes_ok
      either == e.stale /\ base
  IN (IF ~either /\ ~e.failed /\ ((e.shrc = 0) # WantCodeZero(base)) THEN {"BashSeesStatus"} ELSE {})
     \cup (IF e.failed THEN {IF base THEN "SuccessKeepsBuild" ELSE "NonfatalContinues"} ELSE {})

TraceInit == l = 0
TraceNext == /\ l < Len(Tr)
             /\ l' = l + 1
             /\ Report(Tr[l'].tid, Tr[l'].i, IF Tr[l'].side = "sh" THEN JudgeSh(Tr[l']) ELSE Judge(Tr[l']))
             /\ EndMark(l')
TraceSpec == TraceInit /\ [][TraceNext]_l
=========================================================================
