---------------------------- MODULE Pclean_Trace ----------------------------
(* Judge of recorded `pclean dist` runs against a scratch distdir.
   {tid, i, ev:"clean",
    files:[{name, size, mrel}], removed:[names], selected:[names] (what the tool lists for the targets alone),
    installed:[{dist:[names]}],
    repo:[{cat, pkg, ver, slot, sub, repo : [chars], dist:[names], restricted:BOOL}],
    excludes:[[chars]] (patterns given with -x), xfile:[[chars]] (patterns in the -X exclusion file), opts:{exclInstalled, exclExists, exclFetch, useM, useS, T, S},
    outside:BOOL (anything outside the distdir's plain files changed)}
   Clauses: those of Pclean!Violations, plus OutsideUntouched.                                     *)
EXTENDS Pclean, TraceLib
VARIABLE l
AsRepoPkg(x) == [pk |-> [cat |-> x.cat, pkg |-> x.pkg, ver |-> ParseVer(x.ver), slot |-> x.slot, sub |-> x.sub, repo |-> x.repo],
                 dist |-> AsSet(x.dist), restricted |-> x.restricted]
Judge(e) ==
    LET repo == {AsRepoPkg(e.repo[k]) : k \in DOMAIN e.repo} IN
    IF ~ExcludesOK(e.excludes \o e.xfile) \/ \E p \in repo : ~p.pk.ver.ok THEN {"OutsideDomain"}
    ELSE LET K == [files |-> AsSet(e.files), selected |-> AsSet(e.selected),
                   installedDist |-> UNION {AsSet(e.installed[k].dist) : k \in DOMAIN e.installed},
                   existsDist |-> DistOf(repo),
                   restrictedDist |-> DistOf({p \in repo : p.restricted}),
                   excludedDist |-> DistOf({p \in repo : IsExcluded(e.excludes \o e.xfile, p)}),
                   opts |-> e.opts]
         IN Violations(K, AsSet(e.removed)) \cup (IF e.outside THEN {"OutsideUntouched"} ELSE {})
TraceInit == l = 0
TraceNext == /\ l < Len(Tr)
             /\ l' = l + 1
             /\ Report(Tr[l'].tid, Tr[l'].i, Judge(Tr[l']))
             /\ EndMark(l')
TraceSpec == TraceInit /\ [][TraceNext]_l
=========================================================================
