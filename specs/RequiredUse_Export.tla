---------------------------- MODULE RequiredUse_Export ----------------------------
(* spec -> code (C10): every REQUIRED_USE constraint of at most MaxNodes nodes over FlagSet
   (rendered to tokens) x every (iuse, forced-on, forced-off, preferred) of the domain. *)
EXTENDS RequiredUse, TLC, Json, IOUtils, SequencesExt
CONSTANTS FlagSet, MaxNodes
RULeaves == {Leaf(f, neg) : <<f, neg>> \in FlagSet \X BOOLEAN}
Constraints == ForestsUpTo(RULeaves, GroupKinds, FlagSet, MaxNodes)
Configs == {c \in [iuse : SUBSET FlagSet, ft : SUBSET FlagSet, ff : SUBSET FlagSet, pt : SUBSET FlagSet] :
              InDomain(c.iuse, c.ft, c.ff)}
Cases == {[toks |-> Render(x[1]), iuse |-> SetToSeq(x[2].iuse), ft |-> SetToSeq(x[2].ft),
           ff |-> SetToSeq(x[2].ff), pt |-> SetToSeq(x[2].pt)] : x \in Constraints \X Configs}
ASSUME ndJsonSerialize(IOEnv.OUT, SetToSeq(Cases))
=========================================================================
