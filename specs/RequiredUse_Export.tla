---------------------------- MODULE RequiredUse_Export ----------------------------
(* spec -> code (C10): every REQUIRED_USE constraint of at most MaxNodes nodes over FlagSet
   (rendered to tokens) x every (iuse, forced-on, forced-off, preferred) of the domain. *)
EXTENDS RequiredUse, TLC, Json, IOUtils, SequencesExt
CONSTANTS FlagSet, MaxNodes
RULeaves == {Leaf(f, neg) : <<f, neg>> \in FlagSet \X BOOLEAN}
Constraints == ForestsUpTo(RULeaves, GroupKinds, FlagSet, MaxNodes)
Configs == {c \in [iuse : SUBSET FlagSet, ft : SUBSET FlagSet, ff : SUBSET FlagSet, pt : SUBSET FlagSet] :
              InDomain(c.iuse, c.ft, c.ff)}
(* Nesting family over three flags: a (negated) conditional `a? ( b )` that is a member of a group of
   every kind, before / after a plain or negated leaf, and the same one level deeper (a group of every
   kind in a group of every kind), x every IUSE subset x no / one forced-on / one forced-off flag
   (inside or outside IUSE) x nothing / everything preferred.                                      *)
NF == {"a", "b", "c"}
CondAB(cn) == Cond("a", cn, <<Leaf("b", FALSE)>>)
NestCons ==
  UNION {{<<Grp(x[1], <<CondAB(x[2]), Leaf("c", x[3])>>)>>, <<Grp(x[1], <<Leaf("c", x[3]), CondAB(x[2])>>)>>}
         : x \in GroupKinds \X BOOLEAN \X BOOLEAN}
  \cup {<<Grp(x[1], <<Grp(x[2], <<CondAB(x[3]), Leaf("c", FALSE)>>), Leaf("b", TRUE)>>)>>
         : x \in GroupKinds \X GroupKinds \X BOOLEAN}
NestConfigs == {[iuse |-> i, ft |-> f[1], ff |-> f[2], pt |-> p] :
                  <<i, f, p>> \in (SUBSET NF) \X ({<<{}, {}>>} \cup {<<{y}, {}>> : y \in NF} \cup {<<{}, {y}>> : y \in NF})
                                 \X {{}, NF}}
Rec(c, g) == [toks |-> Render(c), iuse |-> SetToSeq(g.iuse), ft |-> SetToSeq(g.ft), ff |-> SetToSeq(g.ff), pt |-> SetToSeq(g.pt)]
NestCases == {Rec(x[1], x[2]) : x \in NestCons \X NestConfigs}
Cases == NestCases \cup {[toks |-> Render(x[1]), iuse |-> SetToSeq(x[2].iuse), ft |-> SetToSeq(x[2].ft),
           ff |-> SetToSeq(x[2].ff), pt |-> SetToSeq(x[2].pt)] : x \in Constraints \X Configs}
ASSUME ndJsonSerialize(IOEnv.OUT, SetToSeq(Cases))
=========================================================================
