---------------------------- MODULE ThreadPool_Export ----------------------------
(* spec -> code: every call shape of the model's Init (input length, requested threads,
   input with / without a length, outputs per item) x the two functor styles, replayed
   on the real map_async under perturbed schedules by drivers/c41_threadpool.py.        *)
EXTENDS ThreadPool, TLC, Json, IOUtils, SequencesExt
CONSTANTS MaxItems, MaxThreads
Model == UNION {{[n |-> n, threads |-> t, haslen |-> h, style |-> s, out |-> o, kinds |-> [i \in 1..n |-> "ok"],
                    workers |-> Workers(n, t, h)] :
                   t \in 1..MaxThreads, h \in BOOLEAN, s \in {"gen", "ret"}, o \in [1..n -> 0..2]} : n \in 0..MaxItems}
(* the worker of metadata regeneration (operations/regen.py regen_iter): per package the
   regeneration succeeds ("ok": no result), hits broken metadata ("meta": MetadataException,
   handled elsewhere, no result) or fails otherwise ("err": one result, the pair (pkg, error)) *)
Regen == UNION {{[n |-> n, threads |-> t, haslen |-> h, style |-> "regen",
                  out |-> [i \in 1..n |-> IF k[i] = "err" THEN 1 ELSE 0], kinds |-> k, workers |-> Workers(n, t, h)] :
                   t \in 1..MaxThreads, h \in BOOLEAN, k \in [1..n -> {"ok", "meta", "err"}]} : n \in 0..MaxItems}
Cases == Model \cup Regen
ASSUME ndJsonSerialize(IOEnv.OUT, SetToSeq(Cases))
=========================================================================
