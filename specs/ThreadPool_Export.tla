---------------------------- MODULE ThreadPool_Export ----------------------------
(* spec -> code: every call shape of the model's Init (input length, requested threads,
   input with / without a length, outputs per item) x the two functor styles, replayed
   on the real map_async under perturbed schedules by drivers/c41_threadpool.py.        *)
EXTENDS ThreadPool, TLC, Json, IOUtils, SequencesExt
CONSTANTS MaxItems, MaxThreads
Model == UNION {{[n |-> n, threads |-> t, haslen |-> h, style |-> s, out |-> o, kinds |-> [i \in 1..n |-> "ok"],
                    pauses |-> <<>>, workers |-> Workers(n, t, h)] :
                   t \in 1..MaxThreads, h \in BOOLEAN, s \in {"gen", "ret"}, o \in [1..n -> 0..2]} : n \in 0..MaxItems}
(* the worker of metadata regeneration (operations/regen.py regen_iter): per package the
   regeneration succeeds ("ok": no result), hits broken metadata ("meta": MetadataException,
   handled elsewhere, no result) or fails otherwise ("err": one result, the pair (pkg, error)) *)
Regen == UNION {{[n |-> n, threads |-> t, haslen |-> h, style |-> "regen",
                  out |-> [i \in 1..n |-> IF k[i] = "err" THEN 1 ELSE 0], kinds |-> k, pauses |-> <<>>,
                  workers |-> Workers(n, t, h)] :
                   t \in 1..MaxThreads, h \in BOOLEAN, k \in [1..n -> {"ok", "meta", "err"}]} : n \in 0..MaxItems}
(* a producer slower than the consumers: the input iterable pauses (for longer than any polling
   interval a worker might use) before handing out item p -- p = n + 1: before it ends --, so
   that every worker finds the queue empty for a while, at every position, for every thread
   count; each item yields one result *)
Slow == UNION {{[n |-> n, threads |-> t, haslen |-> h, style |-> "gen", out |-> [i \in 1..n |-> 1],
                 kinds |-> [i \in 1..n |-> "ok"], pauses |-> <<p>>, workers |-> Workers(n, t, h)] :
                   t \in 1..MaxThreads, h \in BOOLEAN, p \in 1..(n + 1)} : n \in 1..MaxItems}
Cases == Model \cup Regen \cup Slow
ASSUME ndJsonSerialize(IOEnv.OUT, SetToSeq(Cases))
=========================================================================
