---------------------------- MODULE ThreadPool_Export ----------------------------
(* spec -> code: every call shape of the model's Init (input length, requested threads,
   input with / without a length, outputs per item) x the two functor styles, replayed
   on the real map_async under perturbed schedules by drivers/c41_threadpool.py.        *)
EXTENDS ThreadPool, TLC, Json, IOUtils, SequencesExt
CONSTANTS MaxItems, MaxThreads
Cases == UNION {{[n |-> n, threads |-> t, haslen |-> h, style |-> s, out |-> o, workers |-> Workers(n, t, h)] :
                   t \in 1..MaxThreads, h \in BOOLEAN, s \in {"gen", "ret"}, o \in [1..n -> 0..2]} : n \in 0..MaxItems}
ASSUME ndJsonSerialize(IOEnv.OUT, SetToSeq(Cases))
=========================================================================
