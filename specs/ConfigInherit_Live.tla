---------------------------- MODULE ConfigInherit_Live ----------------------------
(* One live ConfigManager: histories of  collapse(name)  and  add_config_source(source).
   Specification of a read: Fresh(current sources) -- nothing else (ConfigInherit.tla).
   The model below is the DESIGN that has to meet it: collapsed sections are cached
   (rendered_sections); ClearOnAdd = TRUE drops the cache when a source is added (reload),
   ClearOnAdd = FALSE layers the new source over the existing state (then a source that
   redefines an already collapsed section is refused, as _integrate_config_source does) and
   is explored only to show that CacheCoherent is not vacuous.
   Every source over Names with inherit lists of length <= 1 and the key sets KeySets is
   considered; hist records the operations, so every reachable state is one history and
   TLC enumerates ALL histories up to MaxOps operations / MaxSources sources.  With EmitHist the
   complete ones of the form read .. add .. read are printed for replay on a real manager.          *)
EXTENDS ConfigInherit, TLC
CONSTANTS Names, KeySets, MaxSources, MaxOps, ClearOnAdd, EmitHist
KSk1 == {{}, {"k1"}}      \* the key under observation; the driver gives every section its own class
AllKeys == UNION KeySets
NoRead == [st |-> "none", vals |-> [k \in AllKeys |-> NoOrigin]]

VARIABLES cfg, nsrc, cache, hist, last
vars == <<cfg, nsrc, cache, hist, last>>

\* a source: per name either nothing or one section
Absent == [inh |-> <<>>, keys |-> {"-"}]
SecChoices == {Absent} \cup {[inh |-> i, keys |-> ks] : i \in {<<>>} \cup {<<n>> : n \in Names}, ks \in KeySets}
Sources == [Names -> SecChoices] \ {[n \in Names |-> Absent]}
DefsIn(s, idx) == {[name |-> n, src |-> idx, inh |-> s[n].inh, keys |-> s[n].keys] : n \in {x \in Names : s[x] # Absent}}
Enc(s) == {<<n, s[n].inh, s[n].keys>> : n \in {x \in Names : s[x] # Absent}}

Init == \E s \in Sources :
          /\ cfg = DefsIn(s, 1) /\ nsrc = 1 /\ cache = [n \in {} |-> 0]
          /\ hist = <<[op |-> "init", name |-> "-", defs |-> Enc(s)]>> /\ last = NoRead

Read(n) == /\ LET r == IF n \in DOMAIN cache THEN cache[n] ELSE Fresh(cfg, n, AllKeys) IN
                /\ last' = r
                \* only successful collapses are cached
                /\ cache' = IF n \notin DOMAIN cache /\ r.st = "Values"
                            THEN [x \in DOMAIN cache \cup {n} |-> IF x = n THEN r ELSE cache[x]] ELSE cache
           /\ hist' = Append(hist, [op |-> "read", name |-> n, defs |-> {}])
           /\ UNCHANGED <<cfg, nsrc>>
Add(s) == /\ nsrc < MaxSources
          \* a source added before anything was collapsed is just a manager over more sources (ConfigInherit_MC)
          /\ \E k \in DOMAIN hist : hist[k].op = "read"
          /\ ClearOnAdd \/ \A n \in DOMAIN cache : s[n] = Absent
          /\ cfg' = cfg \cup DefsIn(s, nsrc + 1) /\ nsrc' = nsrc + 1
          /\ cache' = IF ClearOnAdd THEN [n \in {} |-> 0] ELSE cache
          /\ hist' = Append(hist, [op |-> "add", name |-> "-", defs |-> Enc(s)])
          /\ last' = NoRead
Next == Len(hist) <= MaxOps /\ ((\E n \in Names : Read(n)) \/ (\E s \in Sources : Add(s)))
Spec == Init /\ [][Next]_vars

\* every cached section is what a fresh collapse of the current sources gives
CacheCoherent == \A n \in DOMAIN cache : cache[n] = Fresh(cfg, n, AllKeys)
\* ... hence every read is
ReadIsFresh == (last # NoRead) => last = Fresh(cfg, hist[Len(hist)].name, AllKeys)

\* a complete history that can tell a stale answer from a fresh one: read ... add ... read
Complete == /\ Len(hist) = MaxOps + 1 /\ hist[Len(hist)].op = "read"
            /\ \E j, k \in DOMAIN hist : j < k /\ hist[j].op = "read" /\ hist[k].op = "add"
Emit == (EmitHist /\ Complete) => PrintT(<<"HIST", hist>>)
=========================================================================
