---------------------------- MODULE ConfigInherit_Live ----------------------------
(* One live ConfigManager: histories of  collapse(name)  and  add_config_source(source).
   Specification of a read: Fresh(current sources) -- nothing else (ConfigInherit.tla).
   The model below is the DESIGN that has to meet it: collapsed sections are cached
   (rendered_sections); ClearOnAdd = TRUE drops the cache when a source is added (reload),
   ClearOnAdd = FALSE layers the new source over the existing state (then a source that
   redefines an already collapsed section is refused, as _integrate_config_source does) and
   is explored only to show that CacheCoherent is not vacuous.
   A collapse can also be ABORTED: an exception that is not a configuration error (interrupt,
   RecursionError, MemoryError) passes through it.  That changes nothing in the specification
   (the sources are what they were); the design guards against recursive references with a set
   of names being collapsed (refs), and has to release the name when the collapse is left that
   way (ReleaseOnAbort = TRUE); the design that does not is explored to show ReadIsFresh /
   GuardReleased are not vacuous.
   Every source over Names with inherit lists of length <= 1 and the key sets KeySets is
   considered; hist records the operations, so every reachable state is one history and
   TLC enumerates ALL histories up to MaxOps operations / MaxSources sources.  With EmitHist the
   complete ones of the form read .. add .. read are printed for replay on a real manager.          *)
EXTENDS ConfigInherit, TLC
CONSTANTS Names, KeySets, MaxSources, MaxOps, ClearOnAdd, ReleaseOnAbort, EmitHist
KSk1 == {{}, {"k1"}}      \* the key under observation; the driver gives every section its own class
AllKeys == UNION KeySets
NoRead == [st |-> "none", vals |-> [k \in AllKeys |-> NoOrigin]]

VARIABLES cfg, nsrc, cache, refs, hist, last
vars == <<cfg, nsrc, cache, refs, hist, last>>

\* a source: per name either nothing or one section
Absent == [inh |-> <<>>, keys |-> {"-"}]
SecChoices == {Absent} \cup {[inh |-> i, keys |-> ks] : i \in {<<>>} \cup {<<n>> : n \in Names}, ks \in KeySets}
Sources == [Names -> SecChoices] \ {[n \in Names |-> Absent]}
DefsIn(s, idx) == {[name |-> n, src |-> idx, inh |-> s[n].inh, keys |-> s[n].keys] : n \in {x \in Names : s[x] # Absent}}
Enc(s) == {<<n, s[n].inh, s[n].keys>> : n \in {x \in Names : s[x] # Absent}}

Init == \E s \in Sources :
          /\ cfg = DefsIn(s, 1) /\ nsrc = 1 /\ cache = [n \in {} |-> 0] /\ refs = {}
          /\ hist = <<[op |-> "init", name |-> "-", defs |-> Enc(s)]>> /\ last = NoRead

Recursive == [st |-> "Error", vals |-> [k \in AllKeys |-> NoOrigin]]     \* "Reference to n is recursive"
Read(n) == /\ LET r == IF n \in refs THEN Recursive ELSE IF n \in DOMAIN cache THEN cache[n] ELSE Fresh(cfg, n, AllKeys) IN
                /\ last' = r
                \* only successful collapses are cached
                /\ cache' = IF n \notin DOMAIN cache /\ r.st = "Values"
                            THEN [x \in DOMAIN cache \cup {n} |-> IF x = n THEN r ELSE cache[x]] ELSE cache
           /\ hist' = Append(hist, [op |-> "read", name |-> n, defs |-> {}])
           /\ UNCHANGED <<cfg, nsrc, refs>>
\* a collapse of n that is left by a pass-through exception (only a collapse that does some work can be)
Abort(n) == /\ n \notin DOMAIN cache /\ n \notin refs /\ DefsOf(cfg, n) # {}
            /\ refs' = IF ReleaseOnAbort THEN refs ELSE refs \cup {n}
            /\ hist' = Append(hist, [op |-> "abort", name |-> n, defs |-> {}])
            /\ last' = NoRead
            /\ UNCHANGED <<cfg, nsrc, cache>>
Add(s) == /\ nsrc < MaxSources
          \* a source added before anything was collapsed is just a manager over more sources (ConfigInherit_MC)
          /\ \E k \in DOMAIN hist : hist[k].op = "read"
          /\ ClearOnAdd \/ \A n \in DOMAIN cache : s[n] = Absent
          /\ cfg' = cfg \cup DefsIn(s, nsrc + 1) /\ nsrc' = nsrc + 1
          /\ cache' = IF ClearOnAdd THEN [n \in {} |-> 0] ELSE cache
          /\ hist' = Append(hist, [op |-> "add", name |-> "-", defs |-> Enc(s)])
          /\ last' = NoRead /\ UNCHANGED refs
Next == Len(hist) <= MaxOps /\ ((\E n \in Names : Read(n) \/ Abort(n)) \/ (\E s \in Sources : Add(s)))
Spec == Init /\ [][Next]_vars

\* every cached section is what a fresh collapse of the current sources gives
CacheCoherent == \A n \in DOMAIN cache : cache[n] = Fresh(cfg, n, AllKeys)
\* ... hence every read is
ReadIsFresh == (last # NoRead) => last = Fresh(cfg, hist[Len(hist)].name, AllKeys)

\* between two operations no name is left guarded
GuardReleased == refs = {}

\* a complete history that can tell a stale answer from a fresh one: read .. add .. read, or abort .. read
Complete == /\ Len(hist) = MaxOps + 1 /\ hist[Len(hist)].op = "read"
            /\ \/ \E j, k \in DOMAIN hist : j < k /\ hist[j].op = "read" /\ hist[k].op = "add"
               \/ \E j \in DOMAIN hist : hist[j].op = "abort"
Emit == (EmitHist /\ Complete) => PrintT(<<"HIST", hist>>)
=========================================================================
