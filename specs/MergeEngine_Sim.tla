---------------------------- MODULE MergeEngine_Sim ----------------------------
(* spec -> code: TLC (simulation mode) chooses histories of public calls over the MergeEngine_MC
   universe; each is printed once it reaches D calls and replayed by drivers/g01_mergeengine.py on a
   real MergeEngine (SimSpecE: register / add_cset / replace_cset / csets[..] / hooks, trigger
   bodies told how to end) or on a real operations.domain install / uninstall / replace object
   (SimSpecO: finish() with retries while triggers and format / repository calls are made to
   fail).  hist holds only the INPUTS of the calls; what happened is recomputed from the
   implementation's observations by MergeEngine_Trace.                                          *)
EXTENDS MergeEngine_MC
CONSTANT D
VARIABLES hist, done
A(ev, t, h, n, k) == [ev |-> ev, m |-> "", t |-> t, h |-> h, n |-> n, k |-> k, alias |-> FALSE, deps |-> <<>>, pres |-> FALSE]
svars == <<vars, hist, done>>

SimInitE == Init /\ hist = <<[A("new", "", "", "", "") EXCEPT !.m = eng.mode]>> /\ done = FALSE
FinishE == Len(hist) = D /\ ~done /\ done' = TRUE /\ UNCHANGED <<vars, hist>>
StepE ==
  /\ Len(hist) < D /\ UNCHANGED done
  /\ \/ \E t \in Trigs : Reg(t) /\ hist' = Append(hist, A("register", t, "", "", ""))
     \/ \E u \in MCUserDefs(Mode) :
          Add(u) /\ hist' = Append(hist, [A("addcset", "", "", u.n, "") EXCEPT !.alias = u.d.alias, !.deps = u.d.deps, !.pres = u.pres])
     \/ \E n \in {MainCset(Mode), "u1"} : Repl(n) /\ hist' = Append(hist, A("replace", "", "", n, ""))
     \/ \E n \in {WorkCset(Mode), "u1"} : PeekA(n) /\ hist' = Append(hist, A("peek", "", "", n, ""))
     \/ \E h \in HookSet(Mode) : Hook(h) /\ hist' = Append(hist, A("hook", "", h, "", ""))
     \/ \E t \in Trigs, k \in Kinds : SetFail(t, k) /\ hist' = Append(hist, A("setfail", t, "", "", k))
SimSpecE == SimInitE /\ [][StepE \/ FinishE]_svars

SimInitO == OInit /\ hist = <<[A("opnew", "", "", "", "") EXCEPT !.m = op.mode]>> /\ done = FALSE
StepO ==
  /\ Len(hist) < D /\ UNCHANGED done
  /\ \/ OFinish /\ hist' = Append(hist, A("finish", "", "", "", ""))
     \/ \E t \in {"ta", "tb", "tc", "td"}, k \in Kinds \ {"interrupt"} : OSetFail(t, k) /\ hist' = Append(hist, A("setfail", t, "", "", k))
     \/ \E c \in EnvCalls, v \in {"ok", "false", "raise"} : OSetEnv(c, v) /\ hist' = Append(hist, A("setenv", "", "", c, v))
\* a history may also end early, once the operation is complete
FinishO == (Len(hist) = D \/ AllDone(op)) /\ ~done /\ done' = TRUE /\ UNCHANGED <<vars, hist>>
SimSpecO == SimInitO /\ [][StepO \/ FinishO]_svars

Emit == ~done \/ PrintT(<<"BEH", hist>>)
=========================================================================
