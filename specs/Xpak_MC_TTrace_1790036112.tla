---- MODULE Xpak_MC_TTrace_1790036112 ----
EXTENDS Sequences, TLCExt, Toolbox, Naturals, TLC, Xpak_MC

_expression ==
    LET Xpak_MC_TEExpression == INSTANCE Xpak_MC_TEExpression
    IN Xpak_MC_TEExpression!expression
----

_trace ==
    LET Xpak_MC_TETrace == INSTANCE Xpak_MC_TETrace
    IN Xpak_MC_TETrace!trace
----

_inv ==
    ~(
        TLCGet("level") = Len(_TETrace)
        /\
        cur = (1)
        /\
        pc = ("idle")
        /\
        file = (<<88, 80, 65, 75, 80, 65, 67, 75, 0, 0, 0, 0, 0, 0, 0, 0, 88, 80, 65, 75, 83, 84, 79, 80, 0, 0, 0, 24, 83, 84, 79, 80, 65, 75, 83, 84, 79, 80, 0, 0, 0, 38, 83, 84, 79, 80>>)
        /\
        last = (1)
        /\
        pos = (32)
        /\
        orig = (<<>>)
        /\
        n = (1)
    )
----

_init ==
    /\ cur = _TETrace[1].cur
    /\ n = _TETrace[1].n
    /\ pos = _TETrace[1].pos
    /\ pc = _TETrace[1].pc
    /\ file = _TETrace[1].file
    /\ last = _TETrace[1].last
    /\ orig = _TETrace[1].orig
----

_next ==
    /\ \E i,j \in DOMAIN _TETrace:
        /\ \/ /\ j = i + 1
              /\ i = TLCGet("level")
        /\ cur  = _TETrace[i].cur
        /\ cur' = _TETrace[j].cur
        /\ n  = _TETrace[i].n
        /\ n' = _TETrace[j].n
        /\ pos  = _TETrace[i].pos
        /\ pos' = _TETrace[j].pos
        /\ pc  = _TETrace[i].pc
        /\ pc' = _TETrace[j].pc
        /\ file  = _TETrace[i].file
        /\ file' = _TETrace[j].file
        /\ last  = _TETrace[i].last
        /\ last' = _TETrace[j].last
        /\ orig  = _TETrace[i].orig
        /\ orig' = _TETrace[j].orig

\* Uncomment the ASSUME below to write the states of the error trace
\* to the given file in Json format. Note that you can pass any tuple
\* to `JsonSerialize`. For example, a sub-sequence of _TETrace.
    \* ASSUME
    \*     LET J == INSTANCE Json
    \*         IN J!JsonSerialize("Xpak_MC_TTrace_1790036112.json", _TETrace)

=============================================================================

 Note that you can extract this module `Xpak_MC_TEExpression`
  to a dedicated file to reuse `expression` (the module in the 
  dedicated `Xpak_MC_TEExpression.tla` file takes precedence 
  over the module `Xpak_MC_TEExpression` below).

---- MODULE Xpak_MC_TEExpression ----
EXTENDS Sequences, TLCExt, Toolbox, Naturals, TLC, Xpak_MC

expression == 
    [
        \* To hide variables of the `Xpak_MC` spec from the error trace,
        \* remove the variables below.  The trace will be written in the order
        \* of the fields of this record.
        cur |-> cur
        ,n |-> n
        ,pos |-> pos
        ,pc |-> pc
        ,file |-> file
        ,last |-> last
        ,orig |-> orig
        
        \* Put additional constant-, state-, and action-level expressions here:
        \* ,_stateNumber |-> _TEPosition
        \* ,_curUnchanged |-> cur = cur'
        
        \* Format the `cur` variable as Json value.
        \* ,_curJson |->
        \*     LET J == INSTANCE Json
        \*     IN J!ToJson(cur)
        
        \* Lastly, you may build expressions over arbitrary sets of states by
        \* leveraging the _TETrace operator.  For example, this is how to
        \* count the number of times a spec variable changed up to the current
        \* state in the trace.
        \* ,_curModCount |->
        \*     LET F[s \in DOMAIN _TETrace] ==
        \*         IF s = 1 THEN 0
        \*         ELSE IF _TETrace[s].cur # _TETrace[s-1].cur
        \*             THEN 1 + F[s-1] ELSE F[s-1]
        \*     IN F[_TEPosition - 1]
    ]

=============================================================================



Parsing and semantic processing can take forever if the trace below is long.
 In this case, it is advised to uncomment the module below to deserialize the
 trace from a generated binary file.

\*
\*---- MODULE Xpak_MC_TETrace ----
\*EXTENDS IOUtils, TLC, Xpak_MC
\*
\*trace == IODeserialize("Xpak_MC_TTrace_1790036112.bin", TRUE)
\*
\*=============================================================================
\*

---- MODULE Xpak_MC_TETrace ----
EXTENDS TLC, Xpak_MC

trace == 
    <<
    ([cur |-> 0,pc |-> "idle",file |-> <<88, 80, 65, 75, 80, 65, 67, 75, 0, 0, 0, 13, 0, 0, 0, 1, 0, 0, 0, 1, 97, 0, 0, 0, 0, 0, 0, 0, 1, 120, 88, 80, 65, 75, 83, 84, 79, 80, 0, 0, 0, 38, 83, 84, 79, 80>>,last |-> 2,pos |-> 0,orig |-> <<>>,n |-> 0]),
    ([cur |-> 1,pc |-> "hdr",file |-> <<88, 80, 65, 75, 80, 65, 67, 75, 0, 0, 0, 13, 0, 0, 0, 1, 0, 0, 0, 1, 97, 0, 0, 0, 0, 0, 0, 0, 1, 120, 88, 80, 65, 75, 83, 84, 79, 80, 0, 0, 0, 38, 83, 84, 79, 80>>,last |-> 2,pos |-> 0,orig |-> <<>>,n |-> 1]),
    ([cur |-> 1,pc |-> "body",file |-> <<88, 80, 65, 75, 80, 65, 67, 75, 0, 0, 0, 0, 0, 0, 0, 0, 0, 0, 0, 1, 97, 0, 0, 0, 0, 0, 0, 0, 1, 120, 88, 80, 65, 75, 83, 84, 79, 80, 0, 0, 0, 38, 83, 84, 79, 80>>,last |-> 2,pos |-> 16,orig |-> <<>>,n |-> 1]),
    ([cur |-> 1,pc |-> "trl",file |-> <<88, 80, 65, 75, 80, 65, 67, 75, 0, 0, 0, 0, 0, 0, 0, 0, 0, 0, 0, 1, 97, 0, 0, 0, 0, 0, 0, 0, 1, 120, 88, 80, 65, 75, 83, 84, 79, 80, 0, 0, 0, 38, 83, 84, 79, 80>>,last |-> 2,pos |-> 16,orig |-> <<>>,n |-> 1]),
    ([cur |-> 1,pc |-> "idle",file |-> <<88, 80, 65, 75, 80, 65, 67, 75, 0, 0, 0, 0, 0, 0, 0, 0, 88, 80, 65, 75, 83, 84, 79, 80, 0, 0, 0, 24, 83, 84, 79, 80, 65, 75, 83, 84, 79, 80, 0, 0, 0, 38, 83, 84, 79, 80>>,last |-> 1,pos |-> 32,orig |-> <<>>,n |-> 1])
    >>
----


=============================================================================

---- CONFIG Xpak_MC_TTrace_1790036112 ----
CONSTANTS
    Variant = "notrunc"
    MaxRewrites = 3

INVARIANT
    _inv

CHECK_DEADLOCK
    \* CHECK_DEADLOCK off because of PROPERTY or INVARIANT above.
    FALSE

INIT
    _init

NEXT
    _next

CONSTANT
    _TETrace <- _trace

ALIAS
    _expression
=============================================================================
\* Generated on Tue Sep 22 00:15:22 UTC 2026