---------------------------- MODULE CacheValidity_Sim ----------------------------
(* spec -> code: TLC (simulation mode) chooses an initial world and a history of edits and reads;
   printed at depth D and replayed on real repositories by drivers/c48_cachevalidity.py.
   hist holds only the INPUTS of the actions; outcomes are recomputed from the implementation's
   observations by CacheValidity_Trace.                                                     *)
EXTENDS CacheValidity_MC, Naturals
CONSTANT D
VARIABLES w0, hist
A(ev, r, n, c, x, i, r2) == [ev |-> ev, r |-> r, n |-> n, cid |-> c, nest |-> x, inh |-> i, r2 |-> r2]
SimInit == Init /\ w0 = w /\ hist = <<>>
Log(a) == hist' = Append(hist, a) /\ UNCHANGED w0
\* histories alternate: a read, then one edit, then a read ... (reads are the point)
SimNext == Len(hist) < D /\ IF Len(hist) % 2 = 0 THEN Read /\ Log(A("Read", "-", "-", 0, FALSE, "", "-")) ELSE
  \/ \E c \in 1..MaxCid, i \in InhCodes : EditEbuild(c, i) /\ Log(A("EditEbuild", "-", "-", c, FALSE, i, "-"))
  \/ TouchEbuild /\ Log(A("TouchEbuild", "-", "-", 0, FALSE, "", "-"))
  \/ \E r \in Repos, n \in Eclasses, c \in 1..MaxCid, x \in BOOLEAN : EditEclass(r, n, c, x) /\ Log(A("EditEclass", r, n, c, x, "", "-"))
  \/ \E r \in Repos, n \in Eclasses : TouchEclass(r, n) /\ Log(A("TouchEclass", r, n, 0, FALSE, "", "-"))
  \/ \E r \in Repos, n \in Eclasses : RemoveEclass(r, n) /\ Log(A("RemoveEclass", r, n, 0, FALSE, "", "-"))
  \/ \E n \in Eclasses, r1, r2 \in Repos : MoveEclass(n, r1, r2) /\ Log(A("MoveEclass", r1, n, 0, FALSE, "", r2))
  \/ StripInherit /\ Log(A("StripInherit", "-", "-", 0, FALSE, "", "-"))
SimSpec == SimInit /\ [][SimNext]_<<vars, w0, hist>>
Emit == Len(hist) # D \/ PrintT(<<"BEH", Kind, w0, hist>>)
=============================================================================
