---------------------------- MODULE CacheValidity_Sim ----------------------------
(* spec -> code: TLC (simulation mode) chooses an initial world and a history of edits and reads;
   printed at depth D and replayed on real repositories by drivers/c48_cachevalidity.py.
   hist holds only the INPUTS of the actions; outcomes are recomputed from the implementation's
   observations by CacheValidity_Trace.  A Read names the packages of the session IN ORDER
   (field pkg = "p1", "p2", "p1p2" or "p2p1"): all of them are read through the same
   repository / eclass-cache / cache objects.                                                *)
EXTENDS CacheValidity_MC, Naturals
CONSTANT D
VARIABLES w0, hist
A(ev, p, r, n, c, x, i, r2) == [ev |-> ev, pkg |-> p, r |-> r, n |-> n, cid |-> c, nest |-> x, inh |-> i, r2 |-> r2]
SimInit == Init /\ w0 = w /\ hist = <<>>
Log(a) == hist' = Append(hist, a) /\ UNCHANGED w0
OrderSet(code) == CASE code = "p1" -> {"p1"} [] code = "p2" -> {"p2"} [] OTHER -> {"p1", "p2"}
OrderCodes == IF Pkgs = {"p1"} THEN {"p1"} ELSE {"p1", "p2", "p1p2", "p2p1", "p1p2", "p2p1"}
\* histories alternate: a read session, then one edit, then a read session ... (reads are the point)
SimNext == Len(hist) < D /\ IF Len(hist) % 2 = 0
  THEN \E code \in OrderCodes : Read(OrderSet(code)) /\ Log(A("Read", code, "-", "-", 0, FALSE, "", "-"))
  ELSE
  \/ \E p \in Pkgs, c \in 1..MaxCid, i \in InhCodes : EditEbuild(p, c, i) /\ Log(A("EditEbuild", p, "-", "-", c, FALSE, i, "-"))
  \/ \E p \in Pkgs : TouchEbuild(p) /\ Log(A("TouchEbuild", p, "-", "-", 0, FALSE, "", "-"))
  \/ \E r \in Repos, n \in Eclasses, c \in 1..MaxCid, x \in BOOLEAN : EditEclass(r, n, c, x) /\ Log(A("EditEclass", "-", r, n, c, x, "", "-"))
  \/ \E r \in Repos, n \in Eclasses : TouchEclass(r, n) /\ Log(A("TouchEclass", "-", r, n, 0, FALSE, "", "-"))
  \/ \E r \in Repos, n \in Eclasses : RemoveEclass(r, n) /\ Log(A("RemoveEclass", "-", r, n, 0, FALSE, "", "-"))
  \/ \E n \in Eclasses, r1, r2 \in Repos : MoveEclass(n, r1, r2) /\ Log(A("MoveEclass", "-", r1, n, 0, FALSE, "", r2))
  \/ \E p \in Pkgs : StripInherit(p) /\ Log(A("StripInherit", p, "-", "-", 0, FALSE, "", "-"))
SimSpec == SimInit /\ [][SimNext]_<<vars, w0, hist>>
Emit == Len(hist) # D \/ PrintT(<<"BEH", Kind, w0, hist>>)
=============================================================================
