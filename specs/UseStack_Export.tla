---------------------------- MODULE UseStack_Export ----------------------------
(* spec -> code for the collapse: every sequence of <= N entries of the key list of cat/a
   (alphabet of UseStack_Collapse), to be fed to the real _build_cp_atom_payload.          *)
EXTENDS UseStack, Json, IOUtils, SequencesExt
CONSTANTS N, MaxTok, MCScopes
MCFlags == {"x", "p_a"}
MCToks == {<<"+", "x">>, <<"-", "x">>, <<"+", "p_a">>, <<"-", "p_a">>, <<"-", "*">>, <<"-", "p_*">>}
Consistent(T) == ~\E f \in MCFlags : <<"+", f>> \in T /\ <<"-", f>> \in T
Chunks == {T \in SUBSET MCToks : Cardinality(T) <= MaxTok /\ Consistent(T)}
NegOf(T) == {t[2] : t \in {u \in T : u[1] = "-"}}
PosOf(T) == {t[2] : t \in {u \in T : u[1] = "+"}}
J == {[sc |-> sc, neg |-> SetToSeq(NegOf(T)), pos |-> SetToSeq(PosOf(T))] : sc \in MCScopes, T \in Chunks}
Cases == {[seq |-> s] : s \in UNION {[1..k -> J] : k \in 2..N}}
ASSUME ndJsonSerialize(IOEnv.OUT, SetToSeq(Cases))
=========================================================================
