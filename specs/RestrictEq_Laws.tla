---------------------------- MODULE RestrictEq_Laws ----------------------------
(* constant-level: is each candidate equality a congruence for matching, does its hash agree *)
EXTENDS RestrictEq, TLC
D == [op : Ops, v : {1, 2}, r : {0, 1}, neg : BOOLEAN]
X == [v : 0..3, r : 0..2]
ASSUME Congruence(FixedKey, D, X)
ASSUME HashAgrees(FixedKey, FixedHash, D)
\* folding negation into the operator set is exact wherever it is applied
ASSUME \A d \in D : ~DropRev(d) => \A x \in X : VmMatch(d, x) = (Cmp(d, x) \in ShippedOps(d))
\* the snapshot's pair is neither
ASSUME ~Congruence(ShippedKey, D, X)
ASSUME ~HashAgrees(ShippedKey, ShippedHash, D)
\* a key that differs means something observable differs: the repaired key is not needlessly fine
\* for plain comparisons (same version, revision: equal meaning <=> equal key)
ASSUME \A a, b \in {d \in D : ~DropRev(d)} :
         (a.v = b.v /\ a.r = b.r /\ \A x \in X : VmMatch(a, x) = VmMatch(b, x)) => FixedKey(a) = FixedKey(b)
=========================================================================
