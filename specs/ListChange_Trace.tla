---------------------------- MODULE ListChange_Trace ----------------------------
(* Events recorded from the real code:
   {tid,i,ev:"or",   a:{kind,add,rem,set}, b:{...}, refused:BOOL, res:{...}}
   {tid,i,ev:"wire", fields:[names set by the caller], keys:[keys of to_wire()],
                     lists:[{name, change:{...}, keys:[...]}]}                  *)
EXTENDS ListChange, TraceLib
VARIABLE l
U(c) == [kind |-> c.kind, add |-> AsSet(c.add), rem |-> AsSet(c.rem), set |-> AsSet(c.set)]
JudgeOr(e) ==
    LET a == U(e.a)  b == U(e.b) IN
    IF e.refused THEN {}
    ELSE LET c == U(e.res) IN
         (IF Sequential(c, a, b) THEN {} ELSE {"Sequential"})
         \cup (IF c.kind = "set" \/ c.add \cap c.rem = {} THEN {} ELSE {"WellFormed"})
JudgeWire(e) ==
    (IF AsSet(e.keys) = WireKeys(AsSet(e.fields)) THEN {} ELSE {"WireFields"})
    \cup (IF \A k \in DOMAIN e.lists : AsSet(e.lists[k].keys) = ListWireKeys(U(e.lists[k].change))
          THEN {} ELSE {"ListWireKeys"})
Judge(e) == CASE e.ev = "or" -> JudgeOr(e) [] e.ev = "wire" -> JudgeWire(e) [] OTHER -> {"UnknownEvent"}
TraceInit == l = 0
TraceNext == /\ l < Len(Tr)
             /\ l' = l + 1
             /\ Report(Tr[l'].tid, Tr[l'].i, Judge(Tr[l']))
             /\ EndMark(l')
TraceSpec == TraceInit /\ [][TraceNext]_l
=========================================================================
