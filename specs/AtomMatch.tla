---------------------------- MODULE AtomMatch ----------------------------
(* C04: when does a dependency atom match a package (PMS 8.3).

   atom    [cat, pkg, op, ver, slot, subslot, repo, deps]
             op \in {"", "<", "<=", "=", "~", ">=", ">", "=*"}   ("" : no version, ver is ignored)
             slot / subslot / repo : "" = not constrained
             deps : set of static USE dependencies [flag, neg, dflt \in {"", "+", "-"}]
                    ( [flag]  [-flag]  [flag(+)]  [-flag(-)] ... )
   package [cat, pkg, ver, slot, subslot, repo, iuse, use]   (use need not be a subset of iuse: for a flag
                                                              outside IUSE only the dependency's default counts)

   The answer is three valued: "T" matches, "F" does not, "U" PMS / the property leaves it
   open (only through Glob = "U", or a USE dependency without default on a flag that is not in
   IUSE).  A definite "F" of one part decides; otherwise one "U" part makes the whole "U".
   A blocker ("!", "!!") matches what its non-blocking form matches and a slot operator (:= :* :0=)
   does not take part in matching, so neither is a field of the atom here.                        *)
EXTENDS AtomVer

B3(b) == IF b THEN "T" ELSE "F"
And3(S) == IF "F" \in S THEN "F" ELSE IF "U" \in S THEN "U" ELSE "T"

KeyPart(a, p) == B3(a.cat = p.cat /\ a.pkg = p.pkg)
VerPart(a, p) == IF a.op = "" THEN "T"
                 ELSE IF a.op = "=*" THEN Glob(a.ver, p.ver)
                 ELSE B3(OpHolds(a.op, p.ver, a.ver))
SlotPart(a, p)    == B3(a.slot = "" \/ a.slot = p.slot)
SubslotPart(a, p) == B3(a.subslot = "" \/ a.subslot = p.subslot)
RepoPart(a, p)    == B3(a.repo = "" \/ a.repo = p.repo)
\* one USE dependency: the flag's state is the package's when the flag is in IUSE, else the default
DepHolds(d, p) == IF d.flag \in p.iuse THEN B3((d.flag \in p.use) = ~d.neg)
                  ELSE IF d.dflt = "+" THEN B3(~d.neg)
                  ELSE IF d.dflt = "-" THEN B3(d.neg)
                  ELSE "U"
UsePart(a, p) == And3({DepHolds(d, p) : d \in a.deps})

PartNames == <<"key", "version", "slot", "subslot", "repo", "use">>
Part(n, a, p) == CASE n = "key" -> KeyPart(a, p) [] n = "version" -> VerPart(a, p) [] n = "slot" -> SlotPart(a, p)
                   [] n = "subslot" -> SubslotPart(a, p) [] n = "repo" -> RepoPart(a, p) [] n = "use" -> UsePart(a, p)
Matches(a, p) == IF KeyPart(a, p) = "F" THEN "F"
                 ELSE And3({Part(PartNames[k], a, p) : k \in 2..6})
\* the (first) part that says "F" - names the clause of a false match
FailingPart(a, p) == LET bad == {k \in 1..6 : Part(PartNames[k], a, p) = "F"} IN PartNames[AvLeast(bad)]
=========================================================================
