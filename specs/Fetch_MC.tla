---------------------------- MODULE Fetch_MC ----------------------------
(* The fetch loop as a state machine over attempt outcomes: verify, pick the command,
   run it (the outcome -- what it writes and its exit status -- is chosen by the
   environment), verify again ... until the attempt budget or the URI list is used up.
   FinalVerify = TRUE is the design the property asks for (the result of the last
   attempt is verified too); FinalVerify = FALSE is the loop that only verifies
   *before* each attempt and is explored to show the clauses are not vacuous.       *)
EXTENDS Fetch, TLC
CONSTANTS MaxBudget, MaxUris, FinalVerify, EmitRuns

VARIABLES kind, zero, budget, nuris, init, file, n, phase, cmd, result, atts
vars == <<kind, zero, budget, nuris, init, file, n, phase, cmd, result, atts>>

\* what a fetch command can do to the file; without checksums all non-empty files look alike
\* zero: the distfile itself is empty (expected size 0, carried by a size checksum): the only
\* files there can be are the good (zero-length) one and longer ones
Writes(K, z) == IF z THEN {"nothing", "good", "oversize"}
                ELSE IF K = "none" THEN {"nothing", "empty", "corrupt", "good"}
                ELSE {"nothing", "empty", "partial", "oversize", "corrupt", "good"}
Inits(K, z)  == IF z THEN {"missing", "good", "oversize"}
                ELSE IF K = "none" THEN {"missing", "empty", "good"} ELSE Classes

Init == /\ kind \in Kinds /\ budget \in 1..MaxBudget /\ nuris \in 1..MaxUris
        /\ zero \in BOOLEAN /\ (zero => HasSize(kind))
        /\ file \in Inits(kind, zero) /\ init = file
        /\ n = 0 /\ phase = "verify" /\ cmd = "-" /\ result = "-" /\ atts = <<>>

Done(res) == phase' = "done" /\ result' = res /\ UNCHANGED <<file, n, cmd, atts>>

VerifyStep ==
    /\ phase = "verify"
    /\ UNCHANGED <<kind, zero, budget, nuris, init>>
    /\ IF Verified(kind, file) THEN Done("path")
       ELSE IF WrongChecksum(kind, file) THEN Done("chksum")
       ELSE IF n = budget \/ n = nuris THEN Done("failed")
       ELSE /\ phase' = "spawn"
            /\ cmd' = IF Resumable(kind, file) THEN "resume" ELSE "fetch"
            \* an empty file that cannot be told to be short is removed before fetching
            /\ file' = IF file = "empty" /\ ~HasSize(kind) THEN "missing" ELSE file
            /\ UNCHANGED <<n, result, atts>>

SpawnStep ==
    /\ phase = "spawn"
    /\ UNCHANGED <<kind, zero, budget, nuris, init, cmd, result>>
    /\ \E w \in Writes(kind, zero), e \in {0, 1} :
         LET post == IF w = "nothing" THEN file ELSE w IN
         /\ atts' = Append(atts, [pre |-> file, cmd |-> cmd, post |-> post, exit |-> e, kept |-> TRUE, w |-> w])
         /\ file' = IF kind = "none" /\ e # 0 THEN "missing" ELSE post
         /\ n' = n + 1
         \* the loop under scrutiny: after the last budgeted attempt nothing is verified
         /\ IF ~FinalVerify /\ n' = budget THEN phase' = "done" ELSE phase' = "verify"

\* without the final verification the loop ends right after the last spawn
LastUnverified == phase = "done" /\ result = "-" /\ result' = "failed" /\ UNCHANGED <<kind, zero, budget, nuris, init, file, n, phase, cmd, atts>>

Next == VerifyStep \/ SpawnStep \/ LastUnverified
Spec == Init /\ [][Next]_vars

Finished == phase = "done" /\ result # "-"
Run == [kind |-> kind, budget |-> budget, nuris |-> nuris, init |-> init, atts |-> atts,
        result |-> result, final |-> file, finalkept |-> TRUE]

TypeOK == /\ kind \in Kinds /\ file \in Classes /\ n \in 0..MaxBudget /\ n = Len(atts)
          /\ phase \in {"verify", "spawn", "done"} /\ result \in {"-", "path", "failed", "chksum"}
\* the property, clause by clause, on every finished run
NoReturnedUnverified == Finished => ~ReturnedUnverified(Run)
NoGoodNotReturned    == Finished => ~GoodNotReturned(Run)
NoPartialNotKept     == Finished => ~PartialNotKept(Run)
NoResumeNotUsed      == Finished => ~ResumeNotUsed(Run)
NoAttemptsUnused     == Finished => ~AttemptsUnused(Run)
NoBudgetExceeded     == Finished => ~BudgetExceeded(Run)
\* a corrupt file is never the result
CorruptNeverReturned == (Finished /\ result = "path" /\ HasHash(kind)) => file = "good"
\* every run ends (no infinite retry): the loop is bounded by the budget
Bounded == n <= budget /\ n <= nuris

\* spec -> code: every finished behaviour, as the inputs the driver needs to replay it
Outcomes == [k \in DOMAIN atts |-> [w |-> atts[k].w, exit |-> atts[k].exit]]
Emit == (EmitRuns /\ Finished) =>
          PrintT(<<"BEH", [kind |-> kind, zero |-> zero, budget |-> budget, nuris |-> nuris, init |-> init, outcomes |-> Outcomes]>>)
=========================================================================
