---------------------------- MODULE ListChange ----------------------------
(* C39: Bugzilla list-valued field updates (src/pkgcore/bugzilla/changes.py).
   Reference Bugzilla model of a list field: a set of values.
     add/remove update : L' = (L \ remove) \cup add
     set update        : L' = set
   ListChange.__or__(a, b) must either be refused (BugzillaUsageError) or
   denote "a, then b".                                                      *)
EXTENDS Naturals, FiniteSets, Sequences

CONSTANT Vals

AddRem(A, R) == [kind |-> "addrem", add |-> A, rem |-> R, set |-> {}]
SetTo(S)     == [kind |-> "set",    add |-> {}, rem |-> {}, set |-> S]

\* what the constructor accepts (ListChange.__post_init__)
Changes == {AddRem(A, R) : <<A, R>> \in {x \in (SUBSET Vals) \X (SUBSET Vals) : x[1] \cap x[2] = {}}}
           \cup {SetTo(S) : S \in SUBSET Vals}

Apply(c, L) == IF c.kind = "set" THEN c.set ELSE (L \ c.rem) \cup c.add

\* c is a correct combination of "a then b"
Sequential(c, a, b) == \A L \in SUBSET Vals : Apply(c, L) = Apply(b, Apply(a, L))

\* Reference combination: shows the law is satisfiable without ever refusing
Compose(a, b) ==
    IF b.kind = "set" THEN b
    ELSE IF a.kind = "set" THEN SetTo((a.set \ b.rem) \cup b.add)
    ELSE AddRem((a.add \ b.rem) \cup b.add, (a.rem \ b.add) \cup b.rem)

\* (the laws about Compose live in ListChange_Laws: TLC evaluates every zero-arity
\*  constant definition eagerly, so big quantified laws must not sit in a module that
\*  trace specs extend)

(* ---- wire payload of a BugUpdate: exactly the fields that were set ---- *)
ScalarFields == {"status", "resolution", "dupe_of", "summary", "assigned_to", "whiteboard", "deadline"}
ListFields   == {"cc", "keywords", "blocks", "depends_on", "see_also", "groups"}
OtherFields  == {"flags", "comment", "package_list", "runtime_testing_required"}
WireName(f) == CASE f = "package_list" -> "cf_stabilisation_atoms"
                 [] f = "runtime_testing_required" -> "cf_runtime_testing_required"
                 [] OTHER -> f
WireKeys(setFields) == {"ids"} \cup {WireName(f) : f \in setFields}
\* the wire form of one list change names exactly the non-empty parts
ListWireKeys(c) == IF c.kind = "set" THEN {"set"}
                   ELSE (IF c.add # {} THEN {"add"} ELSE {}) \cup (IF c.rem # {} THEN {"remove"} ELSE {})
=========================================================================
