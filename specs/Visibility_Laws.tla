---------------------------- MODULE Visibility_Laws ----------------------------
(* The alternatives of a licence tree are its DNF: for every tree of depth <= 2 over three
   licences and every accepted set, some alternative is accepted iff the tree is satisfied.  *)
EXTENDS Visibility
Leaf(x) == [k |-> "lic", name |-> x, kids |-> <<>>]
Node(kind, ks) == [k |-> kind, name |-> "", kids |-> ks]
Lics == {"l1", "l2", "l3"}
T0 == {Leaf(x) : x \in Lics}
Grow(S) == S \cup {Node(kind, <<x>>) : kind \in {"all", "any"}, x \in S}
             \cup {Node(kind, <<x, y>>) : kind \in {"all", "any"}, x \in S, y \in S}
T1 == Grow(T0)
T2 == Grow(T1)
DnfLaw == \A t \in T2 : \A acc \in SUBSET Lics :
             (\E alt \in Alternatives(t) : alt \subseteq acc) <=> Satisfied(t, acc)
DnfNonEmpty == \A t \in T2 : Alternatives(t) # {} /\ \A alt \in Alternatives(t) : alt \subseteq Lics
ASSUME DnfLaw
ASSUME DnfNonEmpty
=========================================================================
