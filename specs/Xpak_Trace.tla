---------------------------- MODULE Xpak_Trace ----------------------------
(* Judges recorded XPAK histories.  One trace (tid) is one file:
     {tid, i:0, ev:"open",    file:[bytes], foreign:BOOL, init:[items], read:[items], raised:""}
     {tid, i:k, ev:"rewrite", m:[items], after:[bytes], read:[items], raised:""}
   item = {key:[code points], kind:"text"|"bytes", units:[code points | bytes]}.
   `after` are the raw bytes of the file after Xpak.write_xpak, `read` is what a fresh
   Xpak(path).items() handed back.  When `foreign` the opened file carries a segment written by
   the SPECIFICATION (Xpak_Export) and `read` is what the real reader made of it.
   Each rewrite is judged against the previously OBSERVED file (re-synchronising) and against
   the prefix of the file the trace started with.                                              *)
EXTENDS Xpak, TraceLib
VARIABLES l, cur, orig

Keys(items) == [k \in DOMAIN items |-> items[k].key]
ReadOK(read, m) ==
    /\ Len(read) = Len(m)
    /\ \A k \in DOMAIN m :
          /\ ReadsAs(read[k], m[k].key, ValBytes(m[k]))
          \* a text value of a text key comes back as the same text
          /\ (m[k].kind = "text" /\ ~IsEnvKey(m[k].key)) => read[k].units = m[k].units

\* the generator's domain: distinct ASCII keys, none of them the documented rewrite "repo"
RepoKey == <<114, 101, 112, 111>>
InDomain(m) == /\ \A a, b \in DOMAIN m : (m[a].key = m[b].key) => a = b
               /\ \A a \in DOMAIN m : m[a].key # RepoKey /\ \A c \in DOMAIN m[a].key : m[a].key[c] < 128

JudgeOpen(e) ==
    IF ~e.foreign THEN {}
    ELSE (IF e.raised # "" THEN {"Foreign_Raised"} ELSE {})
         \cup (IF e.raised = "" /\ Keys(e.read) # Keys(e.init) THEN {"Foreign_ReadKeys"} ELSE {})
         \cup (IF e.raised = "" /\ Keys(e.read) = Keys(e.init) /\ ~ReadOK(e.read, e.init) THEN {"Foreign_ReadValues"} ELSE {})

JudgeRewrite(prev, p0, e) ==
    IF ~InDomain(e.m) THEN {"OutsideDomain"}
    ELSE IF e.raised # "" THEN {"Raised"}
    ELSE
    LET a   == e.after
        pl  == Locate(prev)
        seg == SegOf(a)
        has == HasSegment(a)
        raw == IF has THEN RawItems(seg) ELSE <<>>
    IN  (IF Len(a) >= pl /\ SubSeq(a, 1, pl) = SubSeq(prev, 1, pl) THEN {} ELSE {"PrefixUnchanged"})
        \cup (IF has /\ Locate(a) = pl THEN {} ELSE {"SegmentStart"})
        \cup (IF has /\ SegExact(seg) THEN {} ELSE {"SegmentExact"})
        \cup (IF has /\ Keys(raw) = Keys(e.m) THEN {} ELSE {"RawKeys"})
        \cup (IF has /\ Keys(raw) = Keys(e.m) /\ raw # RawOf(e.m) THEN {"RawValues"} ELSE {})
        \cup (IF Keys(e.read) = Keys(e.m) THEN {} ELSE {"ReadKeys"})
        \cup (IF Keys(e.read) = Keys(e.m) /\ ~ReadOK(e.read, e.m) THEN {"ReadValues"} ELSE {})
        \* over the whole history: what was in front of the first segment is still there, and only that
        \cup (IF Len(a) >= Len(p0) /\ SubSeq(a, 1, Len(p0)) = p0 /\ Locate(a) = Len(p0) THEN {} ELSE {"PrefixOriginal"})

TraceInit == l = 0 /\ cur = <<>> /\ orig = <<>>
TraceNext == /\ l < Len(Tr)
             /\ l' = l + 1
             /\ LET e == Tr[l'] IN
                IF e.ev = "open"
                THEN /\ Report(e.tid, e.i, JudgeOpen(e))
                     /\ cur' = e.file /\ orig' = PrefixOf(e.file)
                ELSE /\ Report(e.tid, e.i, JudgeRewrite(cur, orig, e))
                     /\ cur' = (IF e.raised = "" THEN e.after ELSE cur) /\ orig' = orig
             /\ EndMark(l')
TraceSpec == TraceInit /\ [][TraceNext]_<<l, cur, orig>>
=========================================================================
