---------------------------- MODULE AtomIntersect_MC ----------------------------
(* Design check for C05, one state per ordered pair of atoms.

   (1) Density lemma (version side): whenever SOME version of a large grammar Big is matched
       (definitely / possibly) by both atoms, one of the few candidates Cands(a, b) built from
       the atoms' own versions is as well - so the finite witness search of AtomIntersect is
       complete, and "Witnessed" can be judged.  The match tables over Big are computed once.
   (2) Factoring law (attribute side): the factored Definitely / Impossible equal the direct
       definition "exists a package of the full product universe matched by both".
   (3) Symmetry of the specification itself, and the gap characterisation for opposite
       ranges (only adjacent revisions of one version have nothing between them).          *)
EXTENDS AtomIntersect, TLC
CONSTANT Size
V(nums, letter, sufs, rev) == [nums |-> nums, letter |-> letter, sufs |-> sufs, rev |-> rev]
S1(k, n) == <<[k |-> k, n |-> n]>>
Weight(v) == (Len(v.nums) - 1) + (IF v.letter # 0 THEN 1 ELSE 0) + Len(v.sufs) + (IF v.rev # <<>> THEN 1 ELSE 0)
PoolQ == {V(<<<<1>>>>, 0, <<>>, <<>>), V(<<<<1>>>>, 0, <<>>, <<1>>), V(<<<<1>>, <<0>>>>, 0, <<>>, <<>>),
          V(<<<<1>>>>, 0, S1("alpha", <<>>), <<>>), V(<<<<1>>>>, 1, <<>>, <<>>), V(<<<<1, 0>>>>, 0, <<>>, <<>>)}
PoolT == PoolQ \cup {V(<<<<1>>>>, 0, <<>>, <<2>>), V(<<<<1>>>>, 0, S1("p", <<1>>), <<>>), V(<<<<1>>, <<0>>>>, 0, <<>>, <<1>>),
          V(<<<<1>>>>, 0, S1("alpha", <<1>>), <<>>), V(<<<<1>>, <<0, 1>>>>, 0, <<>>, <<>>), V(<<<<1>>, <<1>>>>, 0, <<>>, <<>>),
          V(<<<<1>>>>, 0, <<>>, <<0>>), V(<<<<1>>>>, 1, <<>>, <<1>>)}
VPool == IF Size = 1 THEN PoolQ ELSE PoolT
\* the large grammar in which witnesses are searched exhaustively
BigOf(z) == IF Size = 1
            THEN {v \in VersOf({<<1>>, <<1, 0>>}, {<<0>>, <<1>>}, 2, {0, 1, 2}, {"alpha", "p"}, {<<>>, <<1>>}, 2, {<<>>, <<1>>, <<2>>}) : Weight(v) <= 2}
            ELSE {v \in VersOf({<<1>>, <<2>>, <<1, 0>>}, {<<0>>, <<1>>, <<0, 1>>, <<1, 0>>}, 3, {0, 1, 2}, {"alpha", "rc", "p"}, {<<>>, <<0>>, <<1>>, <<2>>}, 2, {<<>>, <<0>>, <<1>>, <<2>>, <<3>>}) : Weight(v) <= 3}
Big == TLCEval(BigOf(0))
Ops == {"<", "<=", "=", "~", ">=", ">", "=*"}
VA(o, v) == [cat |-> "c", pkg |-> "p", op |-> o, ver |-> v, slot |-> "", subslot |-> "", repo |-> "", deps |-> {}]
VAtoms == {VA(x[1], x[2]) : x \in {y \in Ops \X VPool : y[1] = "~" => y[2].rev = <<>>}} \cup {VA("", AnyVer)}
TabT == TLCEval([x \in VAtoms |-> TLCEval({v \in Big : VerOn(x, v) = "T"})])
TabP == TLCEval([x \in VAtoms |-> TLCEval({v \in Big : VerOn(x, v) # "F"})])
ASSUME PrintT(<<"Big", Cardinality(Big), "VAtoms", Cardinality(VAtoms)>>)

\* attribute side universe
DepForms == {[flag |-> f, neg |-> n, dflt |-> d] : f \in {"x", "y"}, n \in BOOLEAN, d \in {"", "+", "-"}}
XF == {q \in DepForms : q.flag = "x"}
YF == {q \in DepForms : q.flag = "y"}
DepSets == IF Size > 1 THEN {{}} \cup {{d} : d \in DepForms} \cup {{d, e} : d \in XF, e \in YF}
           ELSE {{}} \cup {{d} : d \in XF} \cup {{d} : d \in {q \in YF : q.dflt = ""}}
                \cup {{d, e} : d \in {q \in XF : q.dflt = "-"}, e \in {q \in YF : q.dflt = ""}}
SlotForms == {<<"", "">>, <<"0", "">>, <<"1", "">>, <<"0", "2">>, <<"0", "3">>}
AAtoms == {[cat |-> "c", pkg |-> "p", op |-> "", ver |-> AnyVer, slot |-> s[1], subslot |-> s[2], repo |-> r, deps |-> ds] :
             s \in (IF Size > 1 THEN {<<"", "">>, <<"1", "">>, <<"0", "2">>, <<"0", "3">>} ELSE {<<"", "">>, <<"0", "2">>}), r \in (IF Size > 1 THEN {"", "r1", "r2"} ELSE {"", "r1"}), ds \in DepSets}
APkgs == {[cat |-> "c", pkg |-> "p", ver |-> AnyVer, slot |-> s, subslot |-> ss, repo |-> r, iuse |-> iu, use |-> u] :
            s \in {"0", "1"}, ss \in {"2", "3"}, r \in {"r1", "r2"}, iu \in SUBSET {"x", "y"}, u \in SUBSET {"x", "y"}}
OkPkgs == TLCEval({p \in APkgs : p.use \subseteq p.iuse})
ATabT == TLCEval([x \in AAtoms |-> TLCEval({p \in OkPkgs : Matches(x, p) = "T"})])
ATabP == TLCEval([x \in AAtoms |-> TLCEval({p \in OkPkgs : Matches(x, p) # "F"})])

VARIABLES a, b, ph
vars == <<a, b, ph>>
Init == a \in VAtoms \cup AAtoms /\ b = a /\ ph = 0
Next == ph = 0 /\ ph' = 1 /\ a' = a /\ b' \in (IF a \in VAtoms THEN VAtoms ELSE AAtoms)
Spec == Init /\ [][Next]_vars

OnVer == a \in VAtoms /\ b \in VAtoms
\* (1) density: a witness anywhere in Big implies a witness among the candidates
DenseT == OnVer => ((TabT[a] \cap TabT[b] # {}) => VerT(a, b))
DenseP == OnVer => ((TabP[a] \cap TabP[b] # {}) => VerP(a, b))
\* (3) opposite strict ranges: empty exactly for equal versions or adjacent revisions of one version
Gap == (OnVer /\ a.op = ">" /\ b.op = "<") =>
         (VerP(a, b) <=> ~(VerCmp(a.ver, b.ver) >= 0 \/ (BaseCmp(a.ver, b.ver) = 0 /\ NatCmp(DigInc(a.ver.rev), b.ver.rev) = 0)))
\* (2) factoring
OnAttr == a \in AAtoms /\ b \in AAtoms
FactorT == OnAttr => (Definitely(a, b) <=> ATabT[a] \cap ATabT[b] # {})
FactorP == OnAttr => ((Impossible(a, b) = {}) <=> ATabP[a] \cap ATabP[b] # {})
\* symmetry of the specification
SymSpec == Intersects3(a, b) = Intersects3(b, a)
\* an atom that can be matched at all intersects itself
SelfT == ph = 0 => (Intersects3(a, a) # "F" \/ \E d, e \in a.deps : d.flag = e.flag /\ d.neg # e.neg)
=========================================================================
