---------------------------- MODULE TarRoundTrip_Export ----------------------------
(* spec -> code.
   kind "set":  every in-domain subset (<= MaxExp entries) of the pool: built on disk, written with
                the real write_set, read back with the real generate_contents.
   kind "arch": archives a FOREIGN writer may produce for small sets around the hard link group:
                any member order, every later member of an inode group linking to ANY earlier member
                of its group (stars and chains x -> y -> z); rendered with the stdlib tarfile and read
                by the real reader.                                                                   *)
EXTENDS TarRoundTrip_Laws, Json, IOUtils   \* the laws are (re)checked in the same TLC run
CONSTANTS MaxExp, MaxArch

SetCases == {[kind |-> "set", ents |-> SetToSeq(s), members |-> <<>>]
             : s \in SmallSets(MaxExp)}

RECURSIVE ArchsFrom(_, _)
ArchsFrom(todo, arch) ==
    IF todo = {} THEN {arch}
    ELSE UNION {
        LET earlier == {k \in DOMAIN arch : /\ e.type = "file" /\ e.ino # 0
                                             /\ arch[k].kind \in {"reg", "lnk"} /\ SameInode(arch[k].ent, e)} IN
        IF earlier = {} THEN ArchsFrom(todo \ {e}, Append(arch, Member(e, KindOf(e), <<>>)))
        ELSE UNION {ArchsFrom(todo \ {e}, Append(arch, Member(e, "lnk", arch[k].name))) : k \in earlier}
        : e \in todo}
LinkPool == {Pool[i] : i \in 1..8}
ArchSets == {s \in SUBSET LinkPool : /\ Cardinality(s) \in 2..MaxArch /\ InDomain(s)
                                     /\ \E a, b \in s : a # b /\ a.type = "file" /\ b.type = "file" /\ SameInode(a, b)}
ArchCases == {[kind |-> "arch", ents |-> <<>>,
               members |-> [k \in DOMAIN a |-> [kind |-> a[k].kind, link |-> a[k].link, ent |-> a[k].ent]]]
              : a \in UNION {ArchsFrom(s, <<>>) : s \in ArchSets}}
ASSUME ndJsonSerialize(IOEnv.OUT, SetToSeq(SetCases) \o SetToSeq(ArchCases))
=========================================================================
