---------------------------- MODULE Pclean_MC ----------------------------
(* Every run description over a small universe (2 files with size/age classes, every relation of the
   files to installed / existing / fetch-restricted / excluded packages, every option combination),
   cleaned by ANY cleaner that removes one permitted file at a time:
     - whatever such a cleaner has removed violates no clause            (SafeAlways)
     - every refusal is justified by a clause                            (RefusalsJustified)
     - the documented reference cleaner stays within the permission      (ReferenceIsSafe)
   i.e. the clause list of the property and the per-file permission are the same statement.      *)
EXTENDS Pclean_Export      \* (its ASSUME writes the scenario file when IOEnv.OUT is set: one TLC run does both)
CONSTANTS AgeVals, SizeVals, UseFilters    \* e.g. {1, 3}, {1, 3} against thresholds T = S = 2
FNames == {"f1", "f2"}
Subsets == SUBSET FNames
VARIABLES K, removed
vars == <<K, removed>>
Opts == [exclInstalled : BOOLEAN, exclExists : BOOLEAN, exclFetch : BOOLEAN, useM : UseFilters, useS : UseFilters, T : {2}, S : {2}]
Init == /\ removed = {}
        /\ \E a1, a2 \in AgeVals, s1, s2 \in SizeVals, sel \in Subsets, inst \in Subsets, ex \in Subsets, o \in Opts :
           \E re \in SUBSET ex, xc \in SUBSET ex :
             K = [files |-> {[name |-> "f1", size |-> s1, mrel |-> a1], [name |-> "f2", size |-> s2, mrel |-> a2]},
                  selected |-> sel, installedDist |-> inst, existsDist |-> ex, restrictedDist |-> re, excludedDist |-> xc, opts |-> o]
Next == \E n \in FNames \ removed : MayRemove(K, n) /\ removed' = removed \cup {n} /\ K' = K
Spec == Init /\ [][Next]_vars
SafeAlways == Violations(K, removed) = {}
RefusalsJustified == \A n \in FNames \ removed : ~MayRemove(K, n) => Violations(K, removed \cup {n}) # {}
ReferenceIsSafe == \A n \in RefRemoved(K) : MayRemove(K, n)
\* an exclusion flag that is off never protects, one that is on always does
FlagsMatter == /\ (~K.opts.exclInstalled /\ ~K.opts.exclExists /\ ~K.opts.exclFetch /\ K.excludedDist = {} /\ ~K.opts.useM /\ ~K.opts.useS)
                     => (\A n \in K.selected : MayRemove(K, n))
               /\ (K.opts.exclExists => \A n \in K.existsDist : ~MayRemove(K, n))
=========================================================================
