---------------------------- MODULE PermHarden_MC ----------------------------
(* Design check, exhaustive: for EVERY mode 0..MaxMode, every owner class pair, symlink and
   non-symlink (with and without device type bits), with and without fix_perms, the four triggers
   run in ANY order (they share one priority; the engine's order is an accident of registration)
   end in a state satisfying the post-condition; without fix_perms the result does not depend on
   the order.                                                                                   *)
EXTENDS PermHarden, TLC
CONSTANTS MaxMode,   \* 4095: the whole permission space
          KindsC,    \* subset of {"file", "sym", "dev"}
          OwnerPairs \* "all": 9 uid x gid classes, "diag": uid class = gid class
VARIABLES e0, e, todo, fixww
vars == <<e0, e, todo, fixww>>
OwnerSet == {ug \in Owners \X Owners : OwnerPairs = "all" \/ ug[1] = ug[2]}
Init == /\ fixww \in BOOLEAN
        /\ e0 \in {[kind |-> k, mode |-> m + TypeBits(k), uid |-> ug[1], gid |-> ug[2]] :
                     k \in KindsC, m \in 0..MaxMode, ug \in OwnerSet}
        /\ e = e0 /\ todo = Triggers
Next == \E t \in todo : e' = RunTrigger(t, e, fixww) /\ todo' = todo \ {t} /\ UNCHANGED <<e0, fixww>>
Spec == Init /\ [][Next]_vars
\* what running the triggers in the code's registration order yields
Canonical == TrigWW(TrigSetBits(TrigGid(TrigUid(e0))), fixww)
Hardened  == todo = {} => PostOK(e0, e, fixww)
\* (with fix_perms the order shows: other-write cleared first leaves the set-id bit of e.g. 02002 in
\*  place, set-bits first clears both; either result satisfies the post-condition)
OrderFree == (todo = {} /\ ~fixww) => e = Canonical
\* the fixes alone are responsible: before the set-bits trigger ran an unsafe entry is still unsafe
NotVacuous == (todo = Triggers /\ ModeApplies(e0.kind) /\ Unsafe(e0.mode)) => ~Safe(e.kind, e.mode)
\* monotone: a trigger never makes a safe entry unsafe, never re-owns to the build user
Monotone == [][(Safe(e.kind, e.mode) => Safe(e'.kind, e'.mode)) /\ (e.uid # "build" => e'.uid = e.uid)
               /\ (e.gid # "build" => e'.gid = e.gid)]_vars
=========================================================================
