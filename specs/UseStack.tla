---------------------------- MODULE UseStack ----------------------------
(* C11: stacked USE configuration (src/pkgcore/ebuild/misc.py ChunkedDataDict,
   domain.enabled_use / forced_use, profiles use.* layers).

   Abstract state of one stack: the ordered LOG of the entries it was given,
       entry = [sc: scope name, neg: set of flag texts, pos: set of flag texts]
   "*" in neg is the -* reset, a glob such as "p_*" in neg is the -PREFIX_* reset.
   However entries are grouped (one by one, as a stream, by merging another stack),
   and whether the stack was frozen, cloned or optimized in between, the flags of a
   package are the fold of the applicable entries in log order (Incremental!ChunkFold).

   Universe (fixed, small; the driver renders names into atoms / packages):
     packages  a1 = cat/a-1  a2 = cat/a-2  b1 = cat/b-1  c1 = dog/c-1
     scopes    glob = every package      cat_cat = cat/*      cat_dog = dog/*
               any_a = cat/a   eq_a1 = =cat/a-1   ge_a2 = >=cat/a-2   any_b = cat/b   any_c = dog/c
     flags     x y p_a p_b q_a q_b ; wildcards (only ever negated)  *  p_*  q_*              *)
EXTENDS Incremental, TLC

Pkgs == {"a1", "a2", "b1", "c1"}
ScopeTable == [glob |-> Pkgs, cat_cat |-> {"a1", "a2", "b1"}, cat_dog |-> {"c1"},
               any_a |-> {"a1", "a2"}, eq_a1 |-> {"a1"}, ge_a2 |-> {"a2"}, any_b |-> {"b1"}, any_c |-> {"c1"}]
ScopeNames == DOMAIN ScopeTable
\* the package key an atom scope is filed under ("-" for the scopes that are not atoms)
KeyOfScope == [glob |-> "-", cat_cat |-> "-", cat_dog |-> "-",
               any_a |-> "a", eq_a1 |-> "a", ge_a2 |-> "a", any_b |-> "b", any_c |-> "c"]
KeyOfPkg == [a1 |-> "a", a2 |-> "a", b1 |-> "b", c1 |-> "c"]

\* flag texts: plain flags, and USE_EXPAND flags  prefix_value ; a negated glob prefix_* covers them
PlainFlags == {"x", "y"}
Prefixes   == {"p", "q"}
Values     == {"a", "b"}
FlagText(pre, name) == IF pre = "" THEN name ELSE pre \o "_" \o name
GlobText(pre)       == IF pre = "" THEN "*" ELSE pre \o "_*"
PrefixTexts(pre)    == {FlagText(pre, v) : v \in Values}
Flags == PlainFlags \cup UNION {PrefixTexts(pre) : pre \in Prefixes}
Wild  == {GlobText(pre) : pre \in Prefixes \cup {""}}
Covers(g, f) == \E pre \in Prefixes : g = GlobText(pre) /\ f \in PrefixTexts(pre)

Entry(sc, neg, pos) == [sc |-> sc, scope |-> ScopeTable[sc], neg |-> neg, pos |-> pos]
\* the domain of the property: an entry never enables and disables the same flag
WellFormed(e) == e.sc \in ScopeNames /\ e.neg \subseteq Flags \cup Wild /\ e.pos \subseteq Flags /\ e.neg \cap e.pos = {}

Render(log, p, pre) == ChunkFold(Applicable(log, p), pre, Covers)

\* two logs mean the same: for every package, on top of every set of package defaults
SameMeaning(la, lb) == \A p \in Pkgs : \A pre \in SUBSET Flags : Render(la, p, pre) = Render(lb, p, pre)

(* ---- operations on a stack (the log is all there is) ---- *)
AddBareGlobal(log, neg, pos) == IF neg = {} /\ pos = {} THEN log ELSE Append(log, Entry("glob", neg, pos))
AddEntries(log, es) == log \o es                  \* add() is the one-entry case of update_from_stream()
Merge(log, other)   == log \o other
\* freeze(), clone(), optimize(): log unchanged

(* ---- one line of the user's package.use: tokens after the package query ----
   line token = [k, neg, name]:  k = "flag"   name / -name
                                 k = "clear"  -*
                                 k = "expand" NAME:   every later token is a value of that USE_EXPAND
   Read left to right: under prefix pre a flag is pre_name and -* is the glob pre_* (the plain -*
   before any NAME: clears everything).  The line acts on a package's flags as that fold.       *)
LineStep(st, t) ==
    CASE t.k = "expand" -> [st EXCEPT !.pre = t.name]
      [] t.k = "clear"  -> [st EXCEPT !.set = IF st.pre = "" THEN {} ELSE @ \ PrefixTexts(st.pre)]
      [] OTHER          -> [st EXCEPT !.set = IF t.neg THEN @ \ {FlagText(st.pre, t.name)}
                                                       ELSE @ \cup {FlagText(st.pre, t.name)}]
LineFold(toks, init) ==
    LET f[k \in 0..Len(toks)] == IF k = 0 THEN [pre |-> "", set |-> init] ELSE LineStep(f[k - 1], toks[k])
    IN f[Len(toks)].set
\* the (neg, pos) pair pkgcore stores for the line is right iff it acts like the line on every earlier set
ChunkActsLikeLine(c, toks) == \A init \in SUBSET Flags : ChunkApply(init, c, Covers) = LineFold(toks, init)
\* domain of the property for lines: no flag text is both enabled and disabled by the same line
LineTexts(toks, neg) ==
    LET f[k \in 0..Len(toks)] ==
          IF k = 0 THEN [pre |-> "", set |-> {}]
          ELSE LET st == f[k - 1]  t == toks[k] IN
               CASE t.k = "expand" -> [st EXCEPT !.pre = t.name]
                 [] t.k = "clear"  -> st
                 [] OTHER          -> IF t.neg = neg THEN [st EXCEPT !.set = @ \cup {FlagText(st.pre, t.name)}] ELSE st
    IN f[Len(toks)].set
\* ... and names each USE_EXPAND group at most once (a line is stored as ONE unordered (neg, pos)
\* pair, so "Q: b Q: -*" cannot be told from "Q: -* Q: b"; the property orders entries, not this)
LineInDomain(toks) == /\ LineTexts(toks, TRUE) \cap LineTexts(toks, FALSE) = {}
                      /\ \A j, k \in DOMAIN toks : (j # k /\ toks[j].k = "expand" /\ toks[k].k = "expand") => toks[j].name # toks[k].name

(* ---- a configured domain: the logs its three stacks must behave as ----
   cfg = [nodes: profile nodes (the last one is the configured profile), each
                 [parents: indices of earlier nodes, in `parent` file order,
                  use: plain token stream of make.defaults USE,
                  pkguse / pkgforce / pkgmask: entries (atom scopes) of package.use / .force / .mask,
                  force / mask: the (neg, pos) pair of use.force / use.mask],
          conf: plain token stream of the user's USE,   arch: the ARCH flag,
          user: the lines of the user's package.use  [sc, toks]]
   Global USE is one incremental stream: profile USE (parents first), then the user's; its chunk is
   the condensed form of that stream (Incremental!Condense).                                    *)
\* every per-node layer is taken in STACK order (Incremental!StackSeq: a node reached through several
\* parents contributes once per path, at each of its positions)
OverStack(cfg, Pick(_)) == LET st == StackSeq(cfg.nodes)
                               f[k \in 0..Len(st)] == IF k = 0 THEN <<>> ELSE f[k - 1] \o Pick(cfg.nodes[st[k]])
                           IN f[Len(st)]
GlobalStream(cfg) == OverStack(cfg, LAMBDA n : n.use) \o cfg.conf
StreamChunk(ts) == Entry("glob", NegBodies(Condense(ts)), PosBodies(Condense(ts)))
NodeConcat(cfg, Pick(_)) == OverStack(cfg, Pick)
\* the canonical (neg, pos) pair of a line over the flag universe: what it forces off / on
LineChunk(toks) == [neg |-> Flags \ LineFold(toks, Flags), pos |-> LineFold(toks, {})]
LineEntry(ln) == Entry(ln.sc, LineChunk(ln.toks).neg, LineChunk(ln.toks).pos)

EnabledLog(cfg) == <<StreamChunk(GlobalStream(cfg))>>
                   \o NodeConcat(cfg, LAMBDA n : n.pkguse)
                   \o [k \in DOMAIN cfg.user |-> LineEntry(cfg.user[k])]
ForcedLog(cfg)  == NodeConcat(cfg, LAMBDA n : <<Entry("glob", n.force.neg, n.force.pos)>> \o n.pkgforce)
                   \o <<Entry("glob", {}, {cfg.arch})>>
MaskedLog(cfg)  == NodeConcat(cfg, LAMBDA n : <<Entry("glob", n.mask.neg, n.mask.pos)>> \o n.pkgmask)
=========================================================================
