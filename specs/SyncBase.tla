---------------------------- MODULE SyncBase ----------------------------
(* G05 (growth area): the syncer framework, src/pkgcore/sync/base.py + rsync.py, git.py, git_svn.py,
   hg.py, bzr.py, cvs.py, svn.py, darcs.py, sqfs.py (tar.py only as far as it is selected; its
   directory swap is C47).

   What a user of that code relies on, and what this module states (variable-free operators;
   the state machine over them is SyncBase_MC, the judge SyncBase_Trace):

   1. URI grammar -> syncer.   A sync URI is   <type tag>+<transport uri>   or a native scheme, or a
      plain http(s) URL with a telling extension.  Select picks the class with the highest claim
      (the longer tag wins: git+svn+ beats git+), Accept strips exactly the tag, SplitUsers takes a
      leading local user ("proto://user::rest") out of the URI and turns it into the uid the tool
      runs as.  Anything unclaimed or malformed is a UriError / MissingLocalUser -- never another
      exception, never a different syncer.
   2. Autodetection.   Without a URI the first class in load order whose marker directory is there
      (and whose tool is installed) is used, it runs as the owner of the checkout, and it only ever
      updates.
   3. Initial versus update.   A VCS sync spawns exactly one command: the initial checkout iff the
      repository directory does not exist, otherwise the update inside it; a path that is not a
      directory is refused; the result is success iff that command exited 0.
   4. rsync retries.   One attempt per resolved address, in resolution order, never the same address
      twice, at most `retries` attempts; exit 0 ends with success, exit 1 / 11 end at once with an
      error, everything else moves on to the next address; when the addresses or the retries run out
      the sync FAILS (raises) -- it never reports success without an attempt that exited 0.
   5. Timestamp gate (rsync_timestamp_syncer).   last_timestamp caches metadata/timestamp.chk; an
      unforced sync first fetches the remote stamp into a scratch file and skips the transfer when
      the stamp is fresh; the cache moves only when a full transfer succeeded; after a FAILED sync
      the stamp on disk is the cached (old) one again, so that a half updated tree can never pass
      for a fresh one.

   Text that has to be parsed is a sequence of one-character strings; everything else (paths,
   options, addresses) is an opaque string.                                                   *)
EXTENDS Integers, Sequences, FiniteSets

(* ------------------------------------------------------------------ text *)
StartsWith(u, p) == Len(p) <= Len(u) /\ SubSeq(u, 1, Len(p)) = p
EndsWith(u, s)   == Len(s) <= Len(u) /\ SubSeq(u, Len(u) - Len(s) + 1, Len(u)) = s
Drop(u, n)       == SubSeq(u, n + 1, Len(u))
Occurs(u, p)     == {k \in 1..(Len(u) - Len(p) + 1) : SubSeq(u, k, k + Len(p) - 1) = p}
FirstAt(u, p)    == LET o == Occurs(u, p) IN IF o = {} THEN 0 ELSE CHOOSE k \in o : \A j \in o : k <= j
LastAt(u, p)     == LET o == Occurs(u, p) IN IF o = {} THEN 0 ELSE CHOOSE k \in o : \A j \in o : k >= j
RECURSIVE LStrip(_, _)
LStrip(u, c)     == IF u # <<>> /\ u[1] = c THEN LStrip(Tail(u), c) ELSE u
Least(S)         == CHOOSE k \in S : \A j \in S : k <= j
Min2(a, b)       == IF a <= b THEN a ELSE b

Tgitp == <<"g","i","t","+">>                                     \* git+
Tgitpc == <<"g","i","t","+",":">>                                \* git+:
Tgit == <<"g","i","t",":","/","/">>                              \* git://
Tgitat == <<"g","i","t","@">>                                    \* git@
Tgsp == <<"g","i","t","+","s","v","n","+">>                      \* git+svn+
Tgspc == <<"g","i","t","+","s","v","n","+",":">>                 \* git+svn+:
Tgs == <<"g","i","t","+","s","v","n",":","/","/">>               \* git+svn://
Thgp == <<"h","g","+">>                                          \* hg+
Tmercp == <<"m","e","r","c","u","r","i","a","l","+">>            \* mercurial+
Tbzrp == <<"b","z","r","+">>                                     \* bzr+
Tdarcsp == <<"d","a","r","c","s","+">>                           \* darcs+
Tsvn == <<"s","v","n",":","/","/">>                              \* svn://
Tsvnp == <<"s","v","n","+">>                                     \* svn+
Tsvnpc == <<"s","v","n","+",":">>                                \* svn+:
Thsvn == <<"h","t","t","p","+","s","v","n",":","/","/">>         \* http+svn://
Thssvn == <<"h","t","t","p","s","+","s","v","n",":","/","/">>    \* https+svn://
Tcvsp == <<"c","v","s","+">>                                     \* cvs+
Tcvs == <<"c","v","s",":","/","/">>                              \* cvs://
Ttarh == <<"t","a","r","+","h","t","t","p",":","/","/">>         \* tar+http://
Ttarhs == <<"t","a","r","+","h","t","t","p","s",":","/","/">>    \* tar+https://
Tsqh == <<"s","q","f","s","+","h","t","t","p",":","/","/">>      \* sqfs+http://
Tsqhs == <<"s","q","f","s","+","h","t","t","p","s",":","/","/">> \* sqfs+https://
Thttp == <<"h","t","t","p",":","/","/">>                         \* http://
Thttps == <<"h","t","t","p","s",":","/","/">>                    \* https://
Xgit == <<".","g","i","t">>                                      \* .git
Xtgz == <<".","t","a","r",".","g","z">>                          \* .tar.gz
Xtbz == <<".","t","a","r",".","b","z","2">>                      \* .tar.bz2
Xtxz == <<".","t","a","r",".","x","z">>                          \* .tar.xz
Tanon == <<"a","n","o","n">>                                     \* anon
Tpserver == <<"p","s","e","r","v","e","r">>                      \* pserver
Tssh == <<"s","s","h">>                                          \* ssh
Tanoncvs == <<":","a","n","o","n","c","v","s",":">>              \* :anoncvs:
Tpserverc == <<":","p","s","e","r","v","e","r",":">>             \* :pserver:
Textc == <<":","e","x","t",":">>                                 \* :ext:
ColCol == <<":", ":">>

(* ------------------------------------------------- 1. URI grammar -> syncer *)
\* the classes GenericSyncer / AutodetectSyncer know, in the order they are loaded
LoadOrder == <<"bzr", "cvs", "darcs", "git", "git_svn", "hg", "sqfs", "svn", "tar">>
Classes == {LoadOrder[k] : k \in DOMAIN LoadOrder}
\* the tool a class needs ("-": none, the class is always available)
ToolOf(c) == CASE c = "git_svn" -> "git" [] c = "sqfs" -> "-" [] OTHER -> c
Available(bins) == {c \in Classes : ToolOf(c) = "-" \/ ToolOf(c) \in bins}

Cl(p, l) == [p |-> p, l |-> l]
Claims(c) ==
  CASE c = "bzr"     -> <<Cl(Tbzrp, 5)>>
    [] c = "cvs"     -> <<Cl(Tcvsp, 5), Cl(Tcvs, 5)>>
    [] c = "darcs"   -> <<Cl(Tdarcsp, 5)>>
    [] c = "git"     -> <<Cl(Tgit, 5), Cl(Tgitp, 5), Cl(Tgitat, 5)>>
    [] c = "git_svn" -> <<Cl(Tgs, 10), Cl(Tgsp, 10)>>
    [] c = "hg"      -> <<Cl(Thgp, 5), Cl(Tmercp, 5)>>
    [] c = "sqfs"    -> <<Cl(Tsqh, 5), Cl(Tsqhs, 5)>>
    [] c = "svn"     -> <<Cl(Tsvn, 5), Cl(Tsvnp, 5)>>
    [] c = "tar"     -> <<Cl(Ttarh, 5), Cl(Ttarhs, 5)>>
\* plain URLs recognised by their extension (claim level 1)
ExtProtos(c) == CASE c = "git" -> {Thttp, Thttps, Tgit, Tgitat} [] c = "tar" -> {Thttp, Thttps} [] OTHER -> {}
Exts(c)      == CASE c = "git" -> {Xgit} [] c = "tar" -> {Xtgz, Xtbz, Xtxz} [] OTHER -> {}
ExtMatch(c, u) == (\E p \in ExtProtos(c) : StartsWith(u, p)) /\ (\E x \in Exts(c) : EndsWith(u, x))

Level(c, u) == LET cl == Claims(c)
                   hits == {k \in DOMAIN cl : StartsWith(u, cl[k].p)}
               IN IF hits # {} THEN cl[Least(hits)].l ELSE IF ExtMatch(c, u) THEN 1 ELSE 0

\* "UriError" (nobody claims it), "Unspecified" (a tie: the code says it is random), or the class
Select(u, avail) ==
  IF avail = {} THEN "UriError"
  ELSE LET best == CHOOSE n \in {Level(c, u) : c \in avail} : \A c \in avail : Level(c, u) <= n
           win  == {c \in avail : Level(c, u) = best}
       IN IF best <= 0 THEN "UriError" ELSE IF Cardinality(win) > 1 THEN "Unspecified" ELSE CHOOSE c \in win : TRUE

(* what the selected class makes of the URI: first rule whose prefix fits.
     drop n    : accepted, the first n characters (the type tag) are not part of the transport URI
     dropext n : the same, and what remains must be a plain URL with one of the class's extensions
     ext       : accepted unchanged if it is such a URL
     bad       : refused (tag with an empty sub-protocol)                                          *)
Ru(pre, act, n) == [pre |-> pre, act |-> act, n |-> n]
Rules(c) ==
  CASE c = "bzr"     -> <<Ru(Tbzrp, "drop", 4)>>
    [] c = "darcs"   -> <<Ru(Tdarcsp, "drop", 6)>>
    [] c = "git"     -> <<Ru(Tgitpc, "bad", 0), Ru(Tgitp, "drop", 4), Ru(Tgit, "drop", 0), Ru(<<>>, "ext", 0)>>
    [] c = "git_svn" -> <<Ru(Tgspc, "bad", 0), Ru(Tgsp, "drop", 8), Ru(Tgs, "drop", 4)>>
    [] c = "hg"      -> <<Ru(Thgp, "drop", 3), Ru(Tmercp, "drop", 10)>>
    [] c = "sqfs"    -> <<Ru(Tsqh, "drop", 5), Ru(Tsqhs, "drop", 5)>>
    [] c = "svn"     -> <<Ru(Tsvn, "drop", 0), Ru(Thsvn, "drop", 5), Ru(Thssvn, "drop", 6), Ru(Tsvnpc, "bad", 0), Ru(Tsvnp, "drop", 4)>>
    [] c = "tar"     -> <<Ru(Ttarh, "dropext", 4), Ru(Ttarhs, "dropext", 4), Ru(<<>>, "ext", 0)>>
    [] c = "cvs"     -> <<>>

Acc(uri)  == [err |-> "-", uri |-> uri, exact |-> TRUE]
Bad       == [err |-> "UriError", uri |-> <<>>, exact |-> FALSE]
Unspec    == [err |-> "Unspecified", uri |-> <<>>, exact |-> FALSE]

\* CVS:  cvs://host:module  (anonymous)  or  cvs+<rsh>://host:module  with rsh = anon | pserver | a
\* program that must exist.  The syncer's uri is the CVSROOT ":method:host"; the module is what
\* follows the last colon.  (Without a colon in the rest there is no module to split off: the root
\* the code then builds is not judged.)
CvsRoot(m, rest) == LET full == m \o rest
                    IN IF FirstAt(rest, <<":">>) = 0 THEN [err |-> "-", uri |-> <<>>, exact |-> FALSE]
                       ELSE Acc(SubSeq(full, 1, LastAt(full, <<":">>) - 1))
AcceptCvs(u, ssh) ==
  IF FirstAt(u, ColCol) # 0 THEN Unspec          \* local users inside a CVSROOT: not specified
  ELSE IF StartsWith(u, Tcvs) THEN CvsRoot(Tanoncvs, Drop(u, 6))
  ELSE LET body == Drop(u, 4)
           k    == FirstAt(body, <<":">>)
           rsh  == IF k = 0 THEN body ELSE SubSeq(body, 1, k - 1)
       IN IF rsh = <<>> THEN Bad
          ELSE IF rsh \notin {Tanon, Tpserver} /\ ~(rsh = Tssh /\ ssh) THEN Bad   \* rsh program missing
          ELSE IF k = 0 THEN Bad                                               \* nothing names host and module
          ELSE CvsRoot(IF rsh = Tanon THEN Tanoncvs ELSE IF rsh = Tpserver THEN Tpserverc ELSE Textc,
                       LStrip(Drop(body, k), "/"))

Accept(c, u, ssh) ==
  IF c = "cvs" THEN AcceptCvs(u, ssh)
  ELSE LET rs == Rules(c)
           hits == {k \in DOMAIN rs : StartsWith(u, rs[k].pre)}
       IN IF hits = {} THEN Bad
          ELSE LET r == rs[Least(hits)]
                   v == Drop(u, r.n)
               IN CASE r.act = "bad"     -> Bad
                    [] r.act = "drop"    -> Acc(v)
                    [] r.act = "dropext" -> IF ExtMatch(c, v) THEN Acc(v) ELSE Bad
                    [] r.act = "ext"     -> IF ExtMatch(c, u) THEN Acc(u) ELSE Bad

(* Local user:  [proto://]user::[@]rest  ->  user, proto://rest.   given = FALSE : none named.     *)
SplitUsers(u) ==
  LET k == FirstAt(u, ColCol) IN
  IF k = 0 THEN [err |-> "-", given |-> FALSE, user |-> <<>>, uri |-> u]
  ELSE LET left  == SubSeq(u, 1, k - 1)
           r0    == Drop(u, k + 1)
           right == IF StartsWith(r0, <<"@">>) THEN Drop(r0, 1) ELSE r0
           s     == FirstAt(left, <<"/">>)
       IN IF s = 0 /\ FirstAt(left, <<":">>) = 0 THEN [err |-> "-", given |-> TRUE, user |-> left, uri |-> right]
          ELSE IF s = 0 THEN [err |-> "Unspecified", given |-> TRUE, user |-> <<>>, uri |-> <<>>]   \* "a:b::rest"
          ELSE [err |-> "-", given |-> TRUE, user |-> LStrip(Drop(left, s), "/"),
                uri |-> SubSeq(left, 1, s - 1) \o <<"/", "/">> \o right]

(* GenericSyncer(basedir, uri): class, error, effective uri and local user.
     bins  : the tools found on PATH,  ssh : whether an rsh program "ssh" is there,
     users : the local user names that exist (as texts)                                         *)
Outcome(u, bins, ssh, users) ==
  LET sel == Select(u, Available(bins))
      none == [cls |-> "-", err |-> sel, uri |-> <<>>, exact |-> FALSE, given |-> FALSE, user |-> <<>>]
  IN IF sel \in {"UriError", "Unspecified"} THEN none
     ELSE LET a == Accept(sel, u, ssh) IN
          IF a.err # "-" THEN [none EXCEPT !.err = a.err]
          ELSE LET s == SplitUsers(a.uri) IN
               IF s.err # "-" THEN [none EXCEPT !.err = s.err]
               ELSE IF s.given /\ s.user \notin users THEN [none EXCEPT !.err = "MissingLocalUser"]
               ELSE [cls |-> sel, err |-> "-", uri |-> s.uri, exact |-> a.exact, given |-> s.given, user |-> s.user]

(* ------------------------------------------------------ 2. autodetection *)
Markers == {".bzr", "CVS", ".git", ".git/svn", ".hg", ".svn"}
MarkerOf(c) == CASE c = "bzr" -> ".bzr" [] c = "cvs" -> "CVS" [] c = "git" -> ".git" [] c = "git_svn" -> ".git/svn"
                 [] c = "hg" -> ".hg" [] c = "svn" -> ".svn" [] OTHER -> "-"
\* info: the tools whose "<tool> info <path>" names a parent (bzr, svn ask their tool)
Usable(c, markers, info) ==
  CASE c = "bzr"     -> ".bzr" \in markers /\ "bzr" \in info
    [] c = "cvs"     -> "CVS" \in markers
    [] c = "git"     -> ".git" \in markers /\ ".git/svn" \notin markers      \* defers to git-svn
    [] c = "git_svn" -> ".git/svn" \in markers
    [] c = "hg"      -> ".hg" \in markers
    [] c = "svn"     -> ".svn" \in markers /\ "svn" \in info
    [] OTHER         -> FALSE
Detect(markers, bins, info) ==
  LET ok == {k \in DOMAIN LoadOrder : LoadOrder[k] \in Available(bins) /\ Usable(LoadOrder[k], markers, info)}
  IN IF ok = {} THEN "disabled" ELSE LoadOrder[Least(ok)]
\* the autodetected syncer runs as the owner of the checkout's marker directory (when that uid has
\* a name).  Deviation of the code, modelled as it is: the CVS class loses the owner on the way.
OwnerHonoured(c) == c # "cvs"

(* ---------------------------------------------- 3. initial versus update *)
\* tree: what is at the repository path: "absent" | "dir" | "file"
\* the svn class looks with os.path.exists, the VcsSyncer template with os.stat:
VcsDecision(c, tree) ==
  CASE tree = "dir"    -> "update"
    [] tree = "absent" -> "initial"
    [] tree = "file"   -> IF c = "svn" THEN "initial" ELSE "PathError"
Blank(uri) == uri \in {"", "/", "//"}
InitialTail(c, uri, basedir) ==
  CASE c \in {"git", "hg", "darcs"} -> <<"clone", uri, basedir>>
    [] c = "git_svn" -> <<"svn", "clone", uri, basedir>>
    [] c = "bzr"     -> <<"branch", uri, basedir>>
    [] c = "cvs"     -> <<"co", "-d", basedir>>
    [] c = "svn"     -> <<"co", uri, basedir>>
UpdateTail(c, uri) ==
  CASE c = "git"     -> <<"pull">>
    [] c = "git_svn" -> <<"svn", "rebase">>
    [] c = "hg"      -> IF Blank(uri) THEN <<"pull">> ELSE <<"pull", "-u", uri>>
    [] c \in {"bzr", "darcs"} -> <<"pull", uri>>
    [] c = "cvs"     -> <<"up">>
    [] c = "svn"     -> <<"update">>
RECURSIVE Rep(_, _)
Rep(s, n) == IF n <= 0 THEN "" ELSE s \o Rep(s, n - 1)
\* -q / -v / -vv ... (the svn class passes neither options nor verbosity on)
VcsFlags(c, opts, v) == IF c = "svn" THEN <<>>
                        ELSE opts \o (IF v < 0 THEN <<"-q">> ELSE IF v > 0 THEN <<"-" \o Rep("v", v)>> ELSE <<>>)
VcsArgv(c, dec, bin, uri, basedir, opts, v) ==
  <<bin>> \o (IF dec = "initial" THEN InitialTail(c, uri, basedir) ELSE UpdateTail(c, uri)) \o VcsFlags(c, opts, v)
VcsCwd(dec, basedir) == IF dec = "initial" THEN "-" ELSE basedir

\* the environment a spawned tool sees: nothing is inherited but the white-listed variables
EnvKeys(c, sock, rsh, proxy) ==
  (IF sock THEN {"SSH_AUTH_SOCK"} ELSE {})
  \cup (IF c = "cvs" THEN {"CVSROOT"} \cup (IF rsh THEN {"CVS_RSH"} ELSE {}) ELSE {})
  \cup (IF c = "rsync" /\ proxy THEN {"RSYNC_PROXY"} ELSE {})

(* -------------------------------------------------------- 4. rsync retries *)
Classify(code) == IF code = 0 THEN "ok" ELSE IF code \in {1, 11} THEN "fatal" ELSE "retry"
Budget(retries, naddrs) == IF retries < 0 THEN 0 ELSE Min2(retries, naddrs)
\* number of attempts made when the k-th attempt would exit with codes[k] (Len(codes) >= budget)
RunLen(codes, budget) ==
  LET stop == {k \in 1..budget : Classify(codes[k]) # "retry"} IN IF stop = {} THEN budget ELSE Least(stop)
RunOk(codes, budget) == LET n == RunLen(codes, budget) IN n >= 1 /\ Classify(codes[n]) = "ok"

\* an address as it is put into the URI
AddrText(a) == IF a.v6 THEN "[" \o a.ip \o "]" ELSE a.ip
\* uri = pre \o host \o post  (pre = "rsync://" [user "@"]): the address goes where the host was
AttemptUri(pre, a, post) == pre \o AddrText(a) \o post

DefaultOpts == <<"--recursive", "--delete", "--delete-delay", "--perms", "--times", "--compress", "--force",
                 "--links", "--safe-links", "--stats", "--human-readable", "--timeout=180", "--whole-file">>
DefaultExcludes == <<"/distfiles", "/local", "/packages">>
RsyncFlags(v) == IF v < 0 THEN <<"--quiet">> ELSE [k \in 1..v |-> "-v"]
Pref(p, xs) == [k \in DOMAIN xs |-> p \o xs[k]]
RsyncOpts(opts, extra, compress, ct, rsh, excludes, includes, v) ==
  (IF opts = <<>> THEN DefaultOpts ELSE opts) \o extra \o (IF compress THEN <<"--compress">> ELSE <<>>)
  \o <<"--contimeout=" \o ct>> \o (IF rsh = "-" THEN <<>> ELSE <<"-e", rsh>>)
  \o Pref("--exclude=", DefaultExcludes \o excludes) \o Pref("--include=", includes) \o RsyncFlags(v)

(* ------------------------------------------------------ 5. timestamp gate *)
NoStamp == -1
\* stamps are minutes; the windows are the class attributes forward_sync_delay / negative_sync_delay
NeedFull(last, remote, fwd, neg) == LET d == remote - last IN IF d >= 0 THEN d > fwd ELSE (0 - d) > neg
GateWanted(ts, force, cached) == ts /\ ~force /\ cached # NoStamp
=========================================================================
