---------------------------- MODULE PortageConf_MC ----------------------------
(* G07 design model: an administrator's session on one etc/portage/repos.conf directory.
   Between loads the directory is edited (a fragment is dropped in, replaced or removed); a load
   is the sequence of critical sections of the implementation:
       Scan        list the directory (the OS hands the names over in ANY order) and sort them
       ReadOne     parse one file: merge [DEFAULT], register / replace / ignore its repo sections
       Finalize    resolve the main repo, lower its priority, order the repos
       RegisterOne one repo: skipped (unsupported EAPI), syncer only (location missing) or
                   repo section + place in the stack
       Done
   Checked on every completed load, over every tree of the universe and every listing order:
       InvDeterministic  the result is a function of the tree, not of the listing order
       InvLaterWins      the definition in force is the last valid one in name order
       InvOrderStable    descending priority, ties in first-definition order
       InvMainLow        the main repo's 0 priority is -1000, nobody else's priority is touched
       InvAnnounced      unused definitions are announced by a warning
       InvOneDefault     at most one default repo; it is the main repo and it is in the stack
       InvStack          stack = domain repos = the repo sections, syncer for every conf
       InvEditLocal      dropping in a fragment (read last, no DEFAULT) does not reorder the repos
                         it does not mention and does not change their definitions
   and on every step: ReadMonotone (reading a file never removes or reorders a registered repo).
   Vacuity guards (CONSTANT switches, TLC must refute):
       NoSort       the directory is read in listing order           -> InvDeterministic
       UnstableSort ties come out in reverse order                   -> InvOrderStable
       KeepMain     the main repo keeps priority 0                   -> InvMainLow             *)
EXTENDS PortageConf
CONSTANTS NoSort, UnstableSort, KeepMain, MaxEdits

Sx(n, loc) == [NoSec(n) EXCEPT !.loc = loc]
Dflt(m) == [NoSec("DEFAULT") EXCEPT !.main = m]
Fr(ord, secs) == [ord |-> ord, vis |-> TRUE, bad |-> FALSE, secs |-> secs]
\* alternatives per fragment name (ord); disk: A, B, C exist, N does not, U has an unsupported EAPI
Alt(ord) ==
  CASE ord = 1 -> { Fr(1, <<Dflt("alpha"), Sx("alpha", "A"), [Sx("beta", "B") EXCEPT !.ptag = "int", !.pval = 5]>>),
                    Fr(1, <<Sx("gentoo", "A"), Sx("beta", "B"), Sx("gamma", "C")>>),
                    Fr(1, <<Sx("beta", "B"), Sx("alpha", "A"), [Sx("bin", "C") EXCEPT !.type = "binpkg-v1"]>>) }
    [] ord = 2 -> { Fr(2, <<[Sx("beta", "C") EXCEPT !.ptag = "int", !.pval = 5], Sx("gamma", "N")>>),
                    Fr(2, <<Dflt("beta"), NoSec("beta"), [Sx("alpha", "A") EXCEPT !.ptag = "bad"]>>),
                    Fr(2, <<[Sx("delta", "A") EXCEPT !.type = "bogus"], Sx("gentoo", "U"), [Dflt(Unset) EXCEPT !.stype = "git"]>>),
                    [Fr(2, <<Sx("zeta", "A")>>) EXCEPT !.vis = FALSE] }
    [] OTHER   -> { Fr(3, <<[Sx("gamma", "C") EXCEPT !.ptag = "int", !.pval = 5], Sx("alpha", "B")>>),
                    [Fr(3, <<>>) EXCEPT !.bad = TRUE],
                    Fr(3, <<Sx("gentoo", "B"), Sx("gentoo", "C")>>),
                    Fr(3, <<Dflt("gamma"), [Sx("gamma", "A") EXCEPT !.ptag = "int", !.pval = 0 - 1000]>>) }
Ords == 1..3
MCDisk == [l \in {"A", "B", "C", "N", "U"} |->
             [exists |-> l # "N", cachefmt |-> IF l = "B" THEN "pms" ELSE IF l = "C" THEN "none" ELSE "default",
              md5dir |-> FALSE, eapiok |-> l # "U"]]

VARIABLES frags,     \* the directory, in the order the OS lists it
          pc, queue, acc, fin, k, kept, order,
          res, prev, lastadd, nedit
vars == <<frags, pc, queue, acc, fin, k, kept, order, res, prev, lastadd, nedit>>
NoRes == [err |-> "none", repos |-> <<>>, order |-> <<>>, main |-> Unset, warn |-> {}, secs |-> {}]
NoAdd == [ord |-> 0, vis |-> FALSE, bad |-> FALSE, secs |-> <<>>]

\* every arrangement of a set of fragments
Arrangements(S) == {s \in [1..Cardinality(S) -> S] : \A i, j \in 1..Cardinality(S) : i # j => s[i] # s[j]}
InitialDirs == UNION {Arrangements(S) : S \in {T \in SUBSET (Alt(1) \cup Alt(2)) : \A a, b \in T : a # b => a.ord # b.ord}}

Init == /\ frags \in InitialDirs
        /\ pc = "idle" /\ queue = <<>> /\ acc = R0 /\ fin = R0 /\ k = 0 /\ kept = <<>> /\ order = <<>>
        /\ res = NoRes /\ prev = NoRes /\ lastadd = NoAdd /\ nedit = 0

Scan == /\ pc = "idle"
        /\ queue' = IF NoSort THEN SelectSeq(frags, LAMBDA f : f.vis) ELSE VisibleSorted(frags)
        /\ acc' = R0 /\ pc' = "read"
        /\ UNCHANGED <<frags, fin, k, kept, order, res, prev, lastadd, nedit>>
ReadOne == /\ pc = "read" /\ queue # <<>>
           /\ acc' = StepFrag(acc, Head(queue)) /\ queue' = Tail(queue)
           /\ UNCHANGED <<frags, pc, fin, k, kept, order, res, prev, lastadd, nedit>>
DoFinalize == /\ pc = "read" /\ queue = <<>>
              /\ fin' = FinalizeV(acc, UnstableSort, KeepMain)
              /\ pc' = "register" /\ k' = 1 /\ kept' = <<>> /\ order' = <<>>
              /\ UNCHANGED <<frags, queue, acc, res, prev, lastadd, nedit>>
RegisterOne == /\ pc = "register" /\ fin.err = "" /\ k <= Len(fin.repos)
               /\ LET c == fin.repos[k] IN
                  /\ kept' = IF Supported(c, MCDisk) THEN Append(kept, c) ELSE kept
                  /\ order' = IF Supported(c, MCDisk) /\ MCDisk[c.s.loc].exists THEN Append(order, c.name) ELSE order
               /\ k' = k + 1
               /\ UNCHANGED <<frags, pc, queue, acc, fin, res, prev, lastadd, nedit>>
SecsOf(kp, od, main) == UNION {RepoSecs(c, MCDisk, main) : c \in SeqSet(kp)} \cup {SyncSec(c, FALSE, EmptyFn) : c \in SeqSet(kp)}
                        \cup (IF od = <<>> THEN {} ELSE {Section("stack", "repo-stack", "pkgcore.repository.multiplex.tree", {<<"repos", od>>})})
                        \cup {Section("domain", "livefs", "pkgcore.ebuild.domain.domain", {<<"repos", od>>})}
Done == /\ pc = "register" /\ (fin.err # "" \/ k > Len(fin.repos))
        /\ pc' = "done" /\ prev' = res
        /\ res' = IF fin.err # "" THEN [NoRes EXCEPT !.err = fin.err]
                  ELSE [err |-> "", repos |-> fin.repos, order |-> order, main |-> fin.main,
                        warn |-> fin.warn \cup EapiWarn(fin, MCDisk), secs |-> SecsOf(kept, order, fin.main)]
        /\ UNCHANGED <<frags, queue, acc, fin, k, kept, order, lastadd, nedit>>
\* edits between loads: the new file lands anywhere in the listing
InsertAt(s, i, x) == SubSeq(s, 1, i) \o <<x>> \o SubSeq(s, i + 1, Len(s))
Without(s, o) == SelectSeq(s, LAMBDA f : f.ord # o)
AddFrag(f) == /\ pc = "done" /\ nedit < MaxEdits
              /\ \E i \in 0..Len(Without(frags, f.ord)) : frags' = InsertAt(Without(frags, f.ord), i, f)
              /\ lastadd' = IF \A g \in SeqSet(frags) : g.ord < f.ord THEN f ELSE NoAdd
              /\ pc' = "idle" /\ nedit' = nedit + 1
              /\ UNCHANGED <<queue, acc, fin, k, kept, order, res, prev>>
RemoveFrag(o) == /\ pc = "done" /\ nedit < MaxEdits /\ \E g \in SeqSet(frags) : g.ord = o
                 /\ frags' = Without(frags, o) /\ lastadd' = NoAdd
                 /\ pc' = "idle" /\ nedit' = nedit + 1
                 /\ UNCHANGED <<queue, acc, fin, k, kept, order, res, prev>>
Next == Scan \/ ReadOne \/ DoFinalize \/ RegisterOne \/ Done
        \/ (\E o \in Ords : \E f \in Alt(o) : AddFrag(f)) \/ (\E o \in Ords : RemoveFrag(o))
Spec == Init /\ [][Next]_vars

(* ---- invariants, all about a completed load ---- *)
Files == VisibleSorted(frags)
Loaded == pc = "done" /\ res.err = ""
\* the pure function of the tree (sorted by name, real design)
Pure == LET P == ParseRepos([kind |-> "dir", frags |-> frags]) IN
        IF P.err # "" THEN [NoRes EXCEPT !.err = P.err]
        ELSE [err |-> "", repos |-> P.repos, order |-> Order(P, MCDisk), main |-> P.main,
              warn |-> P.warn \cup EapiWarn(P, MCDisk), secs |-> SecsOf(Kept(P, MCDisk), Order(P, MCDisk), P.main)]
InvDeterministic == pc = "done" => res = Pure
InvLaterWins == Loaded => LaterWins(Files, res)
InvOrderStable == Loaded => OrderStable(Files, res)
InvMainLow == Loaded => MainLow(res)
InvAnnounced == Loaded => Announced(Files, res)
InvOneDefault == Loaded => OneDefault(res.secs, res.order, res.main)
InvStack == Loaded => StackClosed(res.secs, res.order)
\* the main repo exists whenever there is any repo (otherwise the load failed)
InvMainDefined == Loaded /\ res.repos # <<>> => \E i \in DOMAIN res.repos : res.repos[i].name = res.main
Restrict(seq, names) == SelectSeq(seq, LAMBDA n : n \notin names)
InvEditLocal ==
  (Loaded /\ prev.err = "" /\ lastadd.ord # 0 /\ lastadd.vis /\ ~lastadd.bad
     /\ \A i \in DOMAIN lastadd.secs : ValidDef(lastadd.secs[i]))
  => LET mentioned == {lastadd.secs[i].name : i \in DOMAIN lastadd.secs} IN
     /\ Restrict([i \in DOMAIN res.repos |-> res.repos[i].name], mentioned) = Restrict([i \in DOMAIN prev.repos |-> prev.repos[i].name], mentioned)
     /\ \A i \in DOMAIN res.repos : res.repos[i].name \notin mentioned => \E j \in DOMAIN prev.repos : prev.repos[j] = res.repos[i]
\* reading one more file never removes a registered repo nor changes the relative order
ReadMonotone == [][(pc = "read" /\ pc' = "read" /\ acc'.err = "") =>
                     /\ Len(acc.repos) <= Len(acc'.repos)
                     /\ \A i \in DOMAIN acc.repos : acc'.repos[i].name = acc.repos[i].name]_vars
\* a load does not touch the directory; edits happen only between loads
LoadReadsOnly == [][pc # "done" => frags' = frags]_vars
=========================================================================
