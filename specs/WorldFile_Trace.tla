---------------------------- MODULE WorldFile_Trace ----------------------------
(* code -> spec.  Events recorded from the real WorldFile / update_worldset:
     {tid, i:0, ev:"init",   file:[entry,..]}                      the world file before the history
     {tid, i,   ev:"update", key, slot, remove, refused, error, file:[entry,..], mem:[entry,..]}
   file = the lines of the world file after the call (after its flush), mem = the entries the
   WorldFile object holds.  The expected set is recomputed from the previously OBSERVED file
   (re-synchronisation), so every call of a history is judged.                                 *)
EXTENDS WorldFile, TraceLib
VARIABLES l, w
JudgeUpdate(W, e) ==
  LET op == [key |-> e.key, slot |-> e.slot, remove |-> e.remove]
      W2 == AsSet(e.file)
  IN (IF e.error = "" THEN {} ELSE {"Completes"})
     \cup (IF e.error # "" \/ RefusalOk(W, op, e.refused) THEN {} ELSE {"Refusal"})
     \cup (IF e.refused \/ e.error # "" \/ Recorded(W2, op) THEN {} ELSE {"Recorded"})
     \cup (IF OthersIntact(W, W2, op) THEN {} ELSE {"OthersIntact"})
     \cup (IF e.error # "" \/ e.refused \/ AsSet(e.mem) = W2 THEN {} ELSE {"FlushedIsMemory"})
TraceInit == l = 0 /\ w = {}
TraceNext ==
  /\ l < Len(Tr) /\ l' = l + 1
  /\ LET e == Tr[l'] IN
     /\ w' = AsSet(e.file)
     /\ IF e.ev = "init" THEN TRUE ELSE Report(e.tid, e.i, JudgeUpdate(w, e))
  /\ EndMark(l')
TraceSpec == TraceInit /\ [][TraceNext]_<<l, w>>
=========================================================================
