---------------------------- MODULE UseStack_Trace ----------------------------
(* Judge of recorded ChunkedDataDict histories (C11).  One trace = one history over a pool of
   stack objects 0..K-1.  Event:
     {tid, i, op, obj, other, unfreeze, cached, neg:[..], pos:[..], entries:[{sc,neg,pos}],
      renders:[{obj, pkg, pre:[..], got:[..]}]}
   op: "new"      obj := ChunkedDataDict()
       "global"   obj.add_bare_global(neg, pos)
       "add"      obj.add(e) for one entry / obj.update_from_stream(entries) for several
       "merge"    obj.merge(other)
       "freeze"   obj.freeze()
       "clone"    other := obj.clone(unfreeze)
       "optimize" obj.optimize(cache = {} if cached else None)
   renders: pull_data(pkg, pre) of EVERY live object after the call (so aliasing between a
   clone and its source is seen).  The spec state (the logs) is a function of the inputs alone,
   so every step of a history is judged whatever the earlier steps did.                        *)
EXTENDS UseStack, TraceLib
VARIABLES l, logs, frozen
K == 4
Objs == 0..(K - 1)

E(r) == Entry(r.sc, AsSet(r.neg), AsSet(r.pos))
Es(arr) == [k \in DOMAIN arr |-> E(arr[k])]

NextLogs(cur, e) ==
    CASE e.op = "new"    -> [cur EXCEPT ![e.obj] = <<>>]
      [] e.op = "global" -> [cur EXCEPT ![e.obj] = AddBareGlobal(@, AsSet(e.neg), AsSet(e.pos))]
      [] e.op = "add"    -> [cur EXCEPT ![e.obj] = AddEntries(@, Es(e.entries))]
      [] e.op = "merge"  -> [cur EXCEPT ![e.obj] = Merge(@, cur[e.other])]
      [] e.op = "clone"  -> [cur EXCEPT ![e.other] = cur[e.obj]]
      [] OTHER           -> cur
NextFrozen(fz, e) ==
    CASE e.op = "new"    -> [fz EXCEPT ![e.obj] = FALSE]
      [] e.op = "freeze" -> [fz EXCEPT ![e.obj] = TRUE]
      [] e.op = "clone"  -> [fz EXCEPT ![e.other] = fz[e.obj] /\ ~e.unfreeze]
      [] OTHER           -> fz
\* the generator must not mutate a frozen stack nor hand in ill-formed entries
InDomain(fz, e) ==
    /\ e.op \in {"global", "add", "merge"} => ~fz[e.obj]
    /\ e.op = "global" => WellFormed(Entry("glob", AsSet(e.neg), AsSet(e.pos)))
    /\ e.op = "add" => \A k \in DOMAIN e.entries : WellFormed(E(e.entries[k]))

JudgeHistory(cur, fz, e) ==
    IF ~InDomain(fz, e) THEN {"OutsideDomain"}
    ELSE LET nl == NextLogs(cur, e)
             bad == {k \in DOMAIN e.renders :
                       AsSet(e.renders[k].got) # Render(nl[e.renders[k].obj], e.renders[k].pkg, AsSet(e.renders[k].pre))}
         IN IF bad = {} THEN {}
            ELSE {"Render_after_" \o e.op}
                 \cup (IF \E k \in bad : e.renders[k].obj # e.obj /\ ~(e.op = "clone" /\ e.renders[k].obj = e.other)
                       THEN {"Render_other_object"} ELSE {})

(* {op:"collapse", key, seq:[{sc,neg,pos}], out:[{sc,neg,pos}]} : _build_cp_atom_payload(seq, restrict)
   for the global list (key "-") or the list of one package key; out must mean what seq means.      *)
CollapseFlags == {"x", "y", "p_a", "p_b"}
JudgeCollapse(e) ==
    LET sq == Es(e.seq)
        out == Es(e.out)
        ps == IF e.key = "-" THEN Pkgs ELSE {p \in Pkgs : KeyOfPkg[p] = e.key}
    IN IF ~\A k \in DOMAIN sq : WellFormed(sq[k]) THEN {"OutsideDomain"}
       ELSE IF \A p \in ps : \A pre \in SUBSET CollapseFlags : Render(out, p, pre) = Render(sq, p, pre)
            THEN {} ELSE {"Collapse_meaning"}

(* {op:"split", toks:[{k,neg,name}], neg:[..], pos:[..]} : one line of the user's package.use as
   domain.pkg_use hands it on (package_use_splitter + split_negations)                            *)
JudgeSplit(e) ==
    IF ~LineInDomain(e.toks) THEN {"OutsideDomain"}
    ELSE IF ChunkActsLikeLine([neg |-> AsSet(e.neg), pos |-> AsSet(e.pos)], e.toks) THEN {} ELSE {"Split_meaning"}

(* {op:"domain", cfg:{nodes:[{parents,use,pkguse,pkgforce,pkgmask,force:{neg,pos},mask:{neg,pos}}], conf, arch, user:[{sc,toks}]},
    obs:[{pkg, pre, enabled, forced, masked}]} : a real domain over an on-disk profile stack;
   obs = domain.get_package_use_unconfigured(pkg with IUSE defaults pre, for_metadata=False)        *)
NP(c) == [neg |-> AsSet(c.neg), pos |-> AsSet(c.pos)]
CfgOf(c) == [nodes |-> [k \in DOMAIN c.nodes |->
                          [parents |-> c.nodes[k].parents, use |-> c.nodes[k].use, pkguse |-> Es(c.nodes[k].pkguse), pkgforce |-> Es(c.nodes[k].pkgforce),
                           pkgmask |-> Es(c.nodes[k].pkgmask), force |-> NP(c.nodes[k].force), mask |-> NP(c.nodes[k].mask)]],
             conf |-> c.conf, arch |-> c.arch, user |-> c.user]
CfgInDomain(cfg) ==
    /\ WellStacked(cfg.nodes)
    /\ \A k \in DOMAIN cfg.user : LineInDomain(cfg.user[k].toks)
    /\ \A k \in DOMAIN cfg.nodes : LET n == cfg.nodes[k] IN
          /\ n.force.neg \cap n.force.pos = {} /\ n.mask.neg \cap n.mask.pos = {}
          /\ \A j \in DOMAIN n.pkguse : WellFormed(n.pkguse[j])
          /\ \A j \in DOMAIN n.pkgforce : WellFormed(n.pkgforce[j])
          /\ \A j \in DOMAIN n.pkgmask : WellFormed(n.pkgmask[j])
JudgeDomain(e) ==
    LET cfg == CfgOf(e.cfg) IN
    IF ~CfgInDomain(cfg) \/ HasIncomplete(GlobalStream(cfg), PlainIncomplete) THEN {"OutsideDomain"}
    ELSE LET el == EnabledLog(cfg)  fl == ForcedLog(cfg)  ml == MaskedLog(cfg) IN
         (IF \A k \in DOMAIN e.obs : AsSet(e.obs[k].enabled) = Render(el, e.obs[k].pkg, AsSet(e.obs[k].pre))
          THEN {} ELSE {"Domain_enabled"})
         \cup (IF \A k \in DOMAIN e.obs : AsSet(e.obs[k].forced) = Render(fl, e.obs[k].pkg, {})
               THEN {} ELSE {"Domain_forced"})
         \cup (IF \A k \in DOMAIN e.obs : AsSet(e.obs[k].masked) = Render(ml, e.obs[k].pkg, {})
               THEN {} ELSE {"Domain_masked"})

IsHistoryOp(e) == e.op \in {"new", "global", "add", "merge", "freeze", "clone", "optimize"}
Judge(cur, fz, e) ==
    CASE IsHistoryOp(e)     -> JudgeHistory(cur, fz, e)
      [] e.op = "collapse" -> JudgeCollapse(e)
      [] e.op = "split"    -> JudgeSplit(e)
      [] e.op = "domain"   -> JudgeDomain(e)
      [] OTHER             -> {"UnknownEvent"}

TraceInit == l = 0 /\ logs = [o \in Objs |-> <<>>] /\ frozen = [o \in Objs |-> FALSE]
TraceNext == /\ l < Len(Tr)
             /\ l' = l + 1
             /\ LET e == Tr[l']
                    cur == IF e.i = 1 THEN [o \in Objs |-> <<>>] ELSE logs
                    fz  == IF e.i = 1 THEN [o \in Objs |-> FALSE] ELSE frozen
                IN /\ Report(e.tid, e.i, Judge(cur, fz, e))
                   /\ logs' = IF IsHistoryOp(e) THEN NextLogs(cur, e) ELSE cur
                   /\ frozen' = IF IsHistoryOp(e) THEN NextFrozen(fz, e) ELSE fz
             /\ EndMark(l')
TraceSpec == TraceInit /\ [][TraceNext]_<<l, logs, frozen>>
=========================================================================
