---------------------------- MODULE SyncBase_MC ----------------------------
(* One repository and its syncer object under a history of sync() calls, action by action.

   kind = "vcs"   a VcsSyncer (git, hg, ...): one call = one action (stat, one spawn)
   kind = "rsync" rsync_syncer: Call, Resolve / ResolveFail, Attempt (one per address), FullOk / PhaseFail
   kind = "ts"    rsync_timestamp_syncer: the same, preceded by the gate (fetch of the remote stamp),
                  with the cached stamp, the stamp on disk, Commit after success and Restore after failure;
                  Restart = a new process builds a new syncer object (the cache is read from disk again).
   The environment chooses exit codes, the number of resolved addresses, whether a failing transfer
   had already rewritten metadata/timestamp.chk (Attempt(c, TRUE)), when the mirror moves on
   (RemoteAdvance) and what is at the repository path (EnvTree).

   Invariants / action properties (checked exhaustively over small constants):
     BoundedAttempts, Rotation          at most min(retries, #addresses) attempts, k-th attempt = k-th address
     OnlyRetryableRetried               an attempt follows only attempts whose exit code asks for a retry
     SuccessIsReal                      "synced" only after an attempt that exited 0 (rsync) / a command that did (vcs)
     SkipIsFresh, ForceNeverSkips       a skipped transfer was unforced and the fetched stamp was inside the window
     StampHonest, CacheCoherent         between calls the stamp on disk was written by a COMPLETED transfer and
                                        equals the cache  (=> a half updated tree never passes for a fresh one)
     CacheMoves                         last_timestamp changes only by a successful transfer or a restart
     GateKeepsDisk                      the gate never touches the repository
     InitialOnlyWhenAbsent              a VCS initial checkout is only ever run when nothing is at the path
   Vacuity guards (the driver requires TLC to refute them):
     RestoreAlways = FALSE   the shipped rsync_timestamp_syncer: the restore is skipped once the gate fetch has
                             succeeded (its `ret` is still true when the transfer raises)  -> StampHonest fails
     FatalStopsRun = FALSE   exit 1 / 11 treated like any other failure                  -> OnlyRetryableRetried fails *)
EXTENDS SyncBase, TLC
CONSTANTS Kinds, Retries, GateRetries, MaxAddrs, Stamps, Codes, MaxCalls, Fwd, Neg, RestoreAlways, FatalStopsRun
VARIABLES kind, tree, disk, cached, remote, trusted, pc, phase, addrs, tried, codes, gated, fetched, res, force,
          plan, ncalls
vars == <<kind, tree, disk, cached, remote, trusted, pc, phase, addrs, tried, codes, gated, fetched, res, force,
          plan, ncalls>>
env  == <<kind, remote, ncalls, force>>

Init == /\ kind \in Kinds
        /\ tree \in (IF kind = "vcs" THEN {"absent", "dir", "file"} ELSE {"dir"})
        /\ disk \in (IF kind = "ts" THEN Stamps \cup {NoStamp} ELSE {NoStamp})
        /\ cached = disk
        /\ remote \in (IF kind = "vcs" THEN {NoStamp} ELSE Stamps)
        /\ trusted = TRUE /\ pc = "idle" /\ phase = "none" /\ addrs = <<>> /\ tried = <<>> /\ codes = <<>>
        /\ gated = FALSE /\ fetched = NoStamp /\ res = "none" /\ force = FALSE /\ plan = "none" /\ ncalls = 0

BudgetNow == Budget(IF phase = "gate" THEN GateRetries ELSE Retries, Len(addrs))
Cls(c) == IF ~FatalStopsRun /\ Classify(c) = "fatal" THEN "retry" ELSE Classify(c)
LastCls == IF codes = <<>> THEN "none" ELSE Cls(codes[Len(codes)])

(* ---- sync(force) is entered: what is decided before anything is spawned ---- *)
Call(f) ==
  /\ pc = "idle" /\ kind # "vcs" /\ ncalls < MaxCalls
  /\ force' = f /\ ncalls' = ncalls + 1
  /\ gated' = FALSE /\ fetched' = NoStamp /\ addrs' = <<>> /\ tried' = <<>> /\ codes' = <<>> /\ res' = "running"
  /\ IF GateWanted(kind = "ts", f, cached) THEN pc' = "resolve" /\ phase' = "gate"
                                          ELSE pc' = "resolve" /\ phase' = "full"
  /\ UNCHANGED <<kind, tree, disk, cached, remote, trusted, plan>>

(* ---- the failure exit of a call: SyncError; the timestamp syncer puts the old stamp back ---- *)
FailEffect ==
  /\ pc' = "idle" /\ res' = "failed"
  /\ IF kind = "ts" /\ (RestoreAlways \/ ~gated) THEN disk' = cached /\ trusted' = TRUE
                                                 ELSE UNCHANGED <<disk, trusted>>

Resolve(n) ==
  /\ pc = "resolve" /\ addrs' = [k \in 1..n |-> k] /\ tried' = <<>> /\ codes' = <<>> /\ pc' = "try"
  /\ UNCHANGED <<kind, tree, disk, cached, remote, trusted, phase, gated, fetched, res, force, plan, ncalls>>
ResolveFail ==
  /\ pc = "resolve" /\ FailEffect
  /\ UNCHANGED <<kind, tree, cached, remote, phase, addrs, tried, codes, gated, fetched, force, plan, ncalls>>

(* ---- one spawned rsync: next address, environment picks the exit code (and, for a failing
        transfer, whether metadata/timestamp.chk had already been rewritten) ---- *)
Attempt(c, w) ==
  /\ pc = "try" /\ LastCls \in {"none", "retry"} /\ Len(tried) < BudgetNow
  /\ tried' = Append(tried, addrs[Len(tried) + 1]) /\ codes' = Append(codes, c)
  /\ IF phase = "full"
     THEN /\ IF c = 0 THEN disk' = remote /\ trusted' = TRUE
             ELSE IF w THEN disk' = remote /\ trusted' = FALSE ELSE UNCHANGED <<disk, trusted>>
          /\ UNCHANGED fetched
     ELSE /\ fetched' = (IF c = 0 THEN remote ELSE fetched) /\ UNCHANGED <<disk, trusted>>
  /\ UNCHANGED <<kind, tree, cached, remote, pc, phase, addrs, gated, res, force, plan, ncalls>>

GateOk ==
  /\ pc = "try" /\ phase = "gate" /\ LastCls = "ok" /\ gated' = TRUE
  /\ IF NeedFull(cached, fetched, Fwd, Neg) THEN pc' = "resolve" /\ phase' = "full" /\ res' = res
                                            ELSE pc' = "idle" /\ phase' = phase /\ res' = "skipped"
  /\ UNCHANGED <<kind, tree, disk, cached, remote, trusted, addrs, tried, codes, fetched, force, plan, ncalls>>
\* Commit: the transfer succeeded, the cache is read from disk again
FullOk ==
  /\ pc = "try" /\ phase = "full" /\ LastCls = "ok" /\ pc' = "idle" /\ res' = "synced"
  /\ cached' = (IF kind = "ts" THEN disk ELSE cached)
  /\ UNCHANGED <<kind, tree, disk, remote, trusted, phase, addrs, tried, codes, gated, fetched, force, plan, ncalls>>
PhaseFail ==
  /\ pc = "try" /\ (LastCls = "fatal" \/ (LastCls \in {"none", "retry"} /\ Len(tried) = BudgetNow))
  /\ FailEffect
  /\ UNCHANGED <<kind, tree, cached, remote, phase, addrs, tried, codes, gated, fetched, force, plan, ncalls>>

(* ---- environment between calls ---- *)
RemoteAdvance(s) == /\ pc = "idle" /\ kind # "vcs" /\ s > remote /\ remote' = s
                    /\ UNCHANGED <<kind, tree, disk, cached, trusted, pc, phase, addrs, tried, codes, gated, fetched,
                                   res, force, plan, ncalls>>
Restart == /\ pc = "idle" /\ kind = "ts" /\ cached' = disk
           /\ UNCHANGED <<kind, tree, disk, remote, trusted, pc, phase, addrs, tried, codes, gated, fetched, res, force,
                          plan, ncalls>>
EnvTree(t) == /\ pc = "idle" /\ kind = "vcs" /\ t # tree /\ tree' = t /\ plan' = "none"
              /\ UNCHANGED <<kind, disk, cached, remote, trusted, pc, phase, addrs, tried, codes, gated, fetched, res,
                             force, ncalls>>

(* ---- a VCS sync: stat, decide, one spawn; a failing clone may leave a directory behind ---- *)
VcsCall(f, c, leaves) ==
  /\ pc = "idle" /\ kind = "vcs" /\ ncalls < MaxCalls /\ ncalls' = ncalls + 1 /\ force' = f
  /\ LET dec == VcsDecision("git", tree) IN
       /\ plan' = dec
       /\ IF dec = "PathError" THEN res' = "failed" /\ codes' = <<>> /\ tree' = tree
          ELSE /\ codes' = <<c>> /\ res' = (IF c = 0 THEN "synced" ELSE "false")
               /\ tree' = (IF dec = "initial" /\ (c = 0 \/ leaves) THEN "dir" ELSE tree)
  /\ UNCHANGED <<kind, disk, cached, remote, trusted, pc, phase, addrs, tried, gated, fetched>>

Next == \/ \E f \in BOOLEAN : Call(f)
        \/ \E n \in 1..MaxAddrs : Resolve(n)
        \/ ResolveFail
        \/ \E c \in Codes, w \in BOOLEAN : (c # 0 \/ w) /\ Attempt(c, w)
        \/ GateOk \/ FullOk \/ PhaseFail
        \/ \E s \in Stamps : RemoteAdvance(s)
        \/ Restart
        \/ \E t \in {"absent", "dir", "file"} : EnvTree(t)
        \/ \E f \in BOOLEAN, c \in Codes, lv \in BOOLEAN : VcsCall(f, c, lv)
Spec == Init /\ [][Next]_vars

(* ---------------------------------------------------------------- properties *)
TypeOK == /\ kind \in Kinds /\ tree \in {"absent", "dir", "file"} /\ pc \in {"idle", "resolve", "try"}
          /\ phase \in {"none", "gate", "full"} /\ disk \in Stamps \cup {NoStamp} /\ cached \in Stamps \cup {NoStamp}
          /\ res \in {"none", "running", "synced", "skipped", "failed", "false"} /\ (kind # "vcs" => Len(tried) = Len(codes))
BoundedAttempts == Len(tried) <= BudgetNow /\ Len(tried) <= Len(addrs)
                   /\ Len(tried) <= (IF phase = "gate" THEN GateRetries ELSE Retries)
Rotation == \A k \in DOMAIN tried : tried[k] = addrs[k]
OnlyRetryableRetried == kind # "vcs" => \A k \in 1..(Len(codes) - 1) : Classify(codes[k]) = "retry"
SuccessIsReal == res = "synced" => codes # <<>> /\ codes[Len(codes)] = 0 /\ (kind # "vcs" => phase = "full")
FailureIsReported == (pc = "idle" /\ res \in {"synced", "skipped"}) => (codes # <<>> /\ codes[Len(codes)] = 0)
SkipIsFresh == res = "skipped" => /\ kind = "ts" /\ ~force /\ cached # NoStamp /\ gated
                                  /\ ~NeedFull(cached, fetched, Fwd, Neg)
StampHonest == (pc = "idle" /\ kind = "ts") => trusted
CacheCoherent == (pc = "idle" /\ kind = "ts") => cached = disk
ForceNeverSkips == [][(res' = "skipped" /\ res # "skipped") => ~force']_vars
CacheMoves == [][cached' # cached => ((res' = "synced" /\ pc = "try") \/ (pc = "idle" /\ pc' = "idle"))]_vars
GateKeepsDisk == [][(phase = "gate" /\ pc = "try" /\ pc' = "try") => disk' = disk]_vars
InitialOnlyWhenAbsent == [][(kind = "vcs" /\ ncalls' # ncalls /\ plan' = "initial") => tree = "absent"]_vars
UpdateOnlyInDir == [][(kind = "vcs" /\ ncalls' # ncalls /\ plan' = "update") => tree = "dir"]_vars
=========================================================================
