---------------------------- MODULE Commandline_Trace ----------------------------
(* Judges recorded calls of real pkgcore Tools (drivers/g08_commandline.py).
   Tr[1] = {unis: [universe, ...]}; every other event is one call
     {tid, i, u, smoke, c: {sub, dom, subdom, cfgarg, ropts, sopts, fh, fk},
      log: [{h, saw, p, d}], out: {kind, code, exc}, errline, tb, envdbg, post: {has, ns: [{a, k, v, h}]}}
   The call is recomputed with RunCall from the state the previous event of the same history was
   OBSERVED to leave (namespace kept by the Tool; the pre-parse flags are not observable and are carried
   from the model), so one deviation does not hide the rest.  smoke events (real script parsers whose
   hooks are wrapped, reads unknown) are judged by the log-only clauses.                        *)
EXTENDS TraceLib
CC(u) == INSTANCE Commandline WITH Uni <- Tr[1].unis[u], GuardedDefault <- TRUE, ConfigFirst <- TRUE, PreWiped <- TRUE
VARIABLES l, st

Hooks(log) == [i \in DOMAIN log |-> log[i].h]
Saws(log) == [i \in DOMAIN log |-> log[i].saw]
Pars(log) == [i \in DOMAIN log |-> log[i].p]
Deps(log) == [i \in DOMAIN log |-> log[i].d]
Known(u, log) == \A i \in DOMAIN log : log[i].h = "<parsed>" \/ CC(u)!IsHook(log[i].h)
InDomain(u, c) == /\ c.sub \in CC(u)!SubNames \cup {"-"}
                  /\ (c.fh = "-" \/ CC(u)!IsHook(c.fh))
                  /\ (c.cfgarg # "-" => Tr[1].unis[u].cfg) /\ (c.dom # "-" => Tr[1].unis[u].dom)
                  /\ (c.subdom => c.sub # "-" /\ c.dom # "-")
If(b, name) == IF b THEN {} ELSE {name}

LogClauses(u, log) ==
    IF ~Known(u, log) THEN {"Log_unknown_hook"}
    ELSE If(CC(u)!AtMostOnceLog(log), "AtMostOnce") \cup If(CC(u)!PriorityOrderLog(log), "PriorityOrder")
         \cup If(CC(u)!StageOrderLog(log), "StageOrder") \cup If(CC(u)!ConfigOnceLog(log), "ConfigOnce")

Given(c) == LET all == c.ropts \o c.sopts IN {all[i] : i \in DOMAIN all}
LastGiven(c, d) == LET all == c.ropts \o c.sopts
                       ks == {i \in DOMAIN all : all[i][1] = d} IN all[CHOOSE i \in ks : \A j \in ks : j <= i][2]
Judge(cur, e) ==
    LET u == e.u IN
    IF e.smoke THEN LogClauses(u, e.log)
    ELSE IF ~InDomain(u, e.c) THEN {"OutsideDomain"}
    ELSE LET x == CC(u)!RunCall(cur, e.c)
             exp == CC(u)!Outcome(x.m)
             post == CC(u)!After(cur, x).opt
             dels == CC(u)!DelsOf(e.c)
             sameHooks == Hooks(e.log) = Hooks(x.m.log) IN
         If(sameHooks, "Log_hooks")
         \cup If(~sameHooks \/ Saws(e.log) = Saws(x.m.log), "Log_saw")
         \cup If(~sameHooks \/ Pars(e.log) = Pars(x.m.log), "Log_parser")
         \cup If(~sameHooks \/ Deps(e.log) = Deps(x.m.log), "Log_depth")
         \cup If(e.out.kind = exp.kind, "Outcome_kind")
         \cup If(e.out.kind # exp.kind \/ e.out.code = exp.code, "Outcome_code")
         \cup If(e.out.kind # exp.kind \/ e.out.exc = exp.exc, "Outcome_exc")
         \cup If(e.errline = exp.errline, "Err_line")
         \cup If(e.tb = exp.tb, "Err_traceback")
         \cup If(e.envdbg = CC(u)!EnvDebug, "Env_debug")
         \cup If(e.post.has = post.has, "Post_kept")
         \cup If(e.post.has # post.has \/ AsSet(e.post.ns) = AsSet(post.ns), "Post_namespace")
         \cup If(e.post.has # post.has \/ AsSet(e.post.ns) # AsSet(post.ns) \/ e.post.ns = post.ns, "Post_order")
         \cup LogClauses(u, e.log)
         \cup If(~(e.out.kind = "ret" /\ e.out.code = 0)
                 \/ \A g \in Given(e.c) : g[1] \in dels \/ CC(u)!Shown(e.post.ns, g[1]) = LastGiven(e.c, g[1]), "ExplicitWins")
         \cup If(\A i \in DOMAIN e.log :
                    (CC(u)!ParsedAt(e.log) > 0 /\ i > CC(u)!ParsedAt(e.log) /\ CC(u)!IsHook(e.log[i].h)
                     /\ CC(u)!KindAt(e.log, i) \in {"delayed", "raw"})
                       => \A g \in Given(e.c) : g[1] \in dels \/ CC(u)!HK(e.log[i].h).n # g[1], "ExplicitNoDefault")
         \cup If(\A i \in DOMAIN e.log : (CC(u)!IsHook(e.log[i].h) /\ CC(u)!KindAt(e.log, i) = "pre")
                                            => CC(u)!HK(e.log[i].h).par \notin cur.pre, "PreOnce")

Obs(e, cur) == IF e.smoke THEN cur
               ELSE [pre |-> CC(e.u)!After(cur, CC(e.u)!RunCall(cur, e.c)).pre,
                     opt |-> [has |-> e.post.has, ns |-> e.post.ns]]
TraceInit == l = 1 /\ st = [pre |-> {}, opt |-> [has |-> FALSE, ns |-> <<>>]]
TraceNext == /\ l < Len(Tr)
             /\ l' = l + 1
             /\ LET e == Tr[l']
                    cur == IF e.i = 1 THEN [pre |-> {}, opt |-> [has |-> FALSE, ns |-> <<>>]] ELSE st
                IN /\ Report(e.tid, e.i, Judge(cur, e))
                   /\ st' = IF e.smoke \/ ~InDomain(e.u, e.c) THEN cur ELSE Obs(e, cur)
             /\ EndMark(l')
TraceSpec == TraceInit /\ [][TraceNext]_<<l, st>>
=========================================================================
