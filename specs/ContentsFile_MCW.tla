---------------------------- MODULE ContentsFile_MCW ----------------------------
\* concrete entry universe for ContentsFile_MC: two paths, entries that differ in kind/fields
MCEntries == {[kind |-> "obj", path |-> "/a", md5 |-> "m1", mtime |-> 5, target |-> "-"],
              [kind |-> "obj", path |-> "/a", md5 |-> "m2", mtime |-> 6, target |-> "-"],
              [kind |-> "sym", path |-> "/b", md5 |-> "-", mtime |-> 7, target |-> "t"],
              [kind |-> "dir", path |-> "/b", md5 |-> "-", mtime |-> 0, target |-> "-"]}
VARIABLES mem, disk, flushing
INSTANCE ContentsFile_MC WITH Entries <- MCEntries
=========================================================================
