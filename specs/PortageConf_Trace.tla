---------------------------- MODULE PortageConf_Trace ----------------------------
(* G07 code -> spec.  Judges loads recorded from the real PortageConfig (TLC-chosen sessions of
   PortageConf_Sim and seeded random sessions of drivers/g07_portageconf.py).
   Tr[1] = {tid:-1, i:0, ev:"header", globals:{VAR:[words]}}        make.globals as the code reads it
   every other event = one PortageConfig(...) call on the session's directory:
     {tid, i, ev:"load", tree:{rc,disk,mc,inc,prof,uprof,sets}, args:{override,root,buildpkg},
      rmap0:[[name,path]]                      ProfileNode._repo_map before the first call of the session
      obs:{err, secs:[{grp,name,cls,kv:[{k,v:[str]}]}], order:[names], features:[str],
           rmap:[[name,path]], warn:[[kind,name]]}}
   or one direct PortageConfig.load_make_conf(dict(env0), <make.conf of the tree>, ...) call:
     {tid, i, ev:"mkconf", env0:{VAR:[words]}, mc, inc, flags:{src,required,recurse,incr}, obs:{err, env:[{k,v}]}}
   The expected outcome is recomputed with PortageConf!Translate; all clauses are evaluated
   (nothing stops at the first failure); the repo map is followed from call to call, re-synchronising
   on the observed one.
   Clauses: OutsideDomain (generator error, never a verdict on the code), Error_not_raised,
   Error_class, Unexpected_error, Failed_repo_map_changed, Missing_<grp>, Unexpected_<grp>,
   Sec_<grp>_class, Sec_<grp>_<key>, Order, Features, RepoMap, Warnings, OneDefault, StackClosed;
   for mkconf: MakeConf_error_not_raised, MakeConf_error_class, MakeConf_unexpected_error,
   MakeConf_vars (variables after a successful call), MakeConf_failed_vars (after a failed call
   the dictionary holds what the files before the failing one assigned).                           *)
EXTENDS PortageConf, TraceLib
VARIABLES l, st

G == Tr[1].globals
TreeOf(e) == [e.tree EXCEPT !.sets = AsSet(@)]
Pairs(s) == {<<s[k][1], s[k][2]>> : k \in DOMAIN s}

DistinctOrds(frags) == \A i, j \in DOMAIN frags : (i # j /\ frags[i].vis /\ frags[j].vis) => frags[i].ord # frags[j].ord
Pre(T) ==
  /\ T.rc.kind \in {"absent", "file", "dir"} /\ T.mc.kind \in {"absent", "file", "dir"}
  /\ T.rc.kind = "file" => Len(T.rc.frags) = 1
  /\ T.mc.kind = "file" => Len(T.mc.frags) = 1
  /\ DistinctOrds(T.rc.frags) /\ DistinctOrds(T.mc.frags)
  /\ \A k \in DOMAIN T.rc.frags : LET f == T.rc.frags[k] IN
       /\ Cardinality({i \in DOMAIN f.secs : f.secs[i].name = "DEFAULT"}) <= 1
       /\ \A i \in DOMAIN f.secs : /\ f.secs[i].suri \in KnownUris \cup {Unset, ""}
                                   /\ f.secs[i].loc \in (DOMAIN T.disk) \cup {Unset}
                                   /\ f.secs[i].ptag \in {"unset", "int", "bad"}
  /\ \A loc \in DOMAIN T.disk : LET d == T.disk[loc] IN
       /\ d.cachefmt \in {"default", "pms", "none"}
       /\ ~d.exists => (d.eapiok /\ d.cachefmt = "default" /\ ~d.md5dir)
  /\ {"SYSG", "SYSB"} \subseteq DOMAIN T.disk
  /\ \A n \in DOMAIN T.inc : \A i \in DOMAIN T.inc[n] : T.inc[n][i].op # "source"

ObsSecs(o) == {[grp |-> o.secs[k].grp, name |-> o.secs[k].name, cls |-> o.secs[k].cls,
                kv |-> {<<o.secs[k].kv[j].k, o.secs[k].kv[j].v>> : j \in DOMAIN o.secs[k].kv}] : k \in DOMAIN o.secs}
ByName(secs, n) == CHOOSE s \in secs : s.name = n
KeysOf(s) == {p[1] : p \in s.kv}
CompareSecs(exp, obs) ==
  LET en == {s.name : s \in exp}  on == {s.name : s \in obs} IN
  {"Missing_" \o ByName(exp, n).grp : n \in en \ on}
  \cup {"Unexpected_" \o ByName(obs, n).grp : n \in on \ en}
  \cup UNION { LET a == ByName(exp, n)  b == ByName(obs, n) IN
               (IF a.cls = b.cls THEN {} ELSE {"Sec_" \o a.grp \o "_class"})
               \cup {"Sec_" \o a.grp \o "_" \o k : k \in {k \in KeysOf(a) \cup KeysOf(b) :
                                                        {p \in a.kv : p[1] = k} # {p \in b.kv : p[1] = k}}}
             : n \in en \cap on }

Judge(cur, e) ==
  LET T == TreeOf(e)  o == e.obs IN
  IF ~Pre(T) THEN {"OutsideDomain"}
  ELSE LET exp == Translate(T, e.args, G) IN
       IF ~exp.ok
       THEN (IF o.err = "" THEN {"Error_not_raised"} ELSE IF o.err \notin exp.errs THEN {"Error_class"} ELSE {})
            \cup (IF Pairs(o.rmap) = cur THEN {} ELSE {"Failed_repo_map_changed"})
       ELSE IF o.err # "" THEN {"Unexpected_error"}
       ELSE LET os == ObsSecs(o) IN
            CompareSecs(exp.secs, os)
            \cup (IF o.order = exp.order THEN {} ELSE {"Order"})
            \cup (IF AsSet(o.features) = exp.features THEN {} ELSE {"Features"})
            \cup (IF Pairs(o.rmap) = exp.rmap THEN {} ELSE {"RepoMap"})
            \cup (IF Pairs(o.warn) = exp.warn THEN {} ELSE {"Warnings"})
            \cup (IF OneDefault(os, o.order, exp.main) THEN {} ELSE {"OneDefault"})
            \cup (IF StackClosed(os, o.order) THEN {} ELSE {"StackClosed"})

PreMk(e) == /\ e.mc.kind \in {"absent", "file", "dir"} /\ (e.mc.kind = "file" => Len(e.mc.frags) = 1)
            /\ DistinctOrds(e.mc.frags)
            /\ \A n \in DOMAIN e.inc : \A i \in DOMAIN e.inc[n] : e.inc[n][i].op # "source"
JudgeMk(e) ==
  IF ~PreMk(e) THEN {"OutsideDomain"}
  ELSE LET exp == LoadMakeConfV(e.env0, e.mc, e.inc, e.flags.src, e.flags.required, e.flags.recurse, e.flags.incr)
           got == {<<e.obs.env[j].k, e.obs.env[j].v>> : j \in DOMAIN e.obs.env}
           want == {<<k, exp.env[k]>> : k \in DOMAIN exp.env}
       IN IF exp.err # ""
          THEN (IF e.obs.err = "" THEN {"MakeConf_error_not_raised"} ELSE IF e.obs.err # exp.err THEN {"MakeConf_error_class"} ELSE {})
               \cup (IF got = want THEN {} ELSE {"MakeConf_failed_vars"})
          ELSE IF e.obs.err # "" THEN {"MakeConf_unexpected_error"}
          ELSE IF got = want THEN {} ELSE {"MakeConf_vars"}

TraceInit == l = 1 /\ st = {}
TraceNext == /\ l < Len(Tr)
             /\ l' = l + 1
             /\ LET e == Tr[l'] IN
                IF e.ev = "mkconf" THEN Report(e.tid, e.i, JudgeMk(e)) /\ st' = st
                ELSE LET cur == IF e.i = 1 THEN Pairs(e.rmap0) ELSE st
                     IN /\ Report(e.tid, e.i, Judge(cur, e))
                        /\ st' = Pairs(e.obs.rmap)
             /\ EndMark(l')
TraceSpec == TraceInit /\ [][TraceNext]_<<l, st>>
=========================================================================
