---------------------------- MODULE OrderLaws_Trace ----------------------------
(* C02 code -> spec.  One event per group of n real objects (CPVs or atoms):
     {tid, i, n,
      eq, ne, lt, le, gt, ge, heq, bad : n x n matrices of BOOLEAN
             [x][y] = what the real operator said for (object x, object y);
             heq = (hash(x) == hash(y)); bad = an operator or hash raised,
      cont : BOOLEAN  the container observations below were made (no exception),
      order   : the permutation sorted() produced (object indices),
      setsize : len(set(objects)),
      found   : n x n, object y is found in the dict {object x: ...}}
   Judged with the clauses of OrderLaws.tla only: no expected relation is computed.
   A verdict is <<"VERDICT", tid, i, clause, x, y, z>> (object indices, 0 = n/a).
   Pair clauses are reported for every pair; triple clauses with one witness
   (y, z) per clause and first object x.                                         *)
EXTENDS OrderLaws, TraceLib
VARIABLE l

\* (TLCEval tabulates the matrix once; TLC functions are otherwise re-evaluated on every application)
Mat(e) == TLCEval([x \in 1..e.n |-> TLCEval([y \in 1..e.n |->
              [eq |-> e.eq[x][y], ne |-> e.ne[x][y], lt |-> e.lt[x][y], le |-> e.le[x][y], gt |-> e.gt[x][y],
               ge |-> e.ge[x][y], heq |-> e.heq[x][y], bad |-> e.bad[x][y]]])])

\* every broken clause of every ordered pair
PairVerdicts(M, n) ==
    UNION {{<<c, x, y, 0>> : c \in PairBad(M[x][y])} : x \in 1..n, y \in 1..n}
MirrorVerdicts(M, n) ==
    UNION {{<<c, x, y, 0>> : c \in IF x < y THEN MirrorBad(M[x][y], M[y][x]) ELSE {}} : x \in 1..n, y \in 1..n}
SelfVerdicts(M, n) ==
    UNION {{<<c, x, x, 0>> : c \in SelfBad(M[x][x])} : x \in 1..n}
TripleVerdicts(M, n) ==
    IF TriplesOK(M, n) THEN {}
    ELSE UNION {IF \A y, z \in 1..n : TripleBad(M[x][y], M[y][z], M[x][z]) = {} THEN {}
           ELSE LET W(c) == {w \in (1..n) \X (1..n) : c \in TripleBad(M[x][w[1]], M[w[1]][w[2]], M[x][w[2]])}
                IN  UNION {IF W(c) = {} THEN {} ELSE LET w == CHOOSE w \in W(c) : TRUE IN {<<c, x, w[1], w[2]>>} :
                           c \in {"Trans_lt", "Trans_eq", "Cong_lt_left", "Cong_lt_right"}}
           : x \in 1..n}
ContainerVerdicts(e, M, n) ==
    IF ~e.cont THEN {<<"NoRaise_container", 0, 0, 0>>}
    ELSE {<<c, 0, 0, 0>> : c \in SortBad(M, n, e.order) \cup SetBad(M, n, e.setsize) \cup FindBad(M, n, e.found)}

Judge(e) ==
    LET n == e.n
        M == Mat(e)
    IN  PairVerdicts(M, n) \cup MirrorVerdicts(M, n) \cup SelfVerdicts(M, n) \cup TripleVerdicts(M, n)
        \cup ContainerVerdicts(e, M, n)

ReportX(tid, i, vs) == \A v \in vs : PrintT(<<"VERDICT", tid, i, v[1], v[2], v[3], v[4]>>)

TraceInit == l = 0
TraceNext == /\ l < Len(Tr)
             /\ l' = l + 1
             /\ ReportX(Tr[l'].tid, Tr[l'].i, Judge(Tr[l']))
             /\ EndMark(l')
TraceSpec == TraceInit /\ [][TraceNext]_l
=============================================================================
