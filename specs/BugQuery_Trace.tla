---------------------------- MODULE BugQuery_Trace ----------------------------
(* Judges what the real BugQuery did (drivers/c37_bugquery.py).
   {tid, i, ev:"render", expr, refused, raised, ps}       ps = params() of the search `expr` denotes
   {tid, i, ev:"batch",  expr, base, max, raised, ps, bs, bs2} bs = params() of every batch of batches(base, max) taken when
                                                         it is yielded, bs2 = of the same batches after the last one was yielded
   raised = name of an unexpected exception ("" if none)
   expr is a search expression (BugQuery.tla, "search expressions"); parameters are
   [k, n, key, v, iv, len] (len = length of the parameter's own urlencoding).                  *)
EXTENDS BugQuery, TraceLib
CONSTANT SemMax          \* truth tables are evaluated up to this many <<field, word>> pairs
VARIABLE l

NatMax(a, b) == IF a >= b THEN a ELSE b

JudgeParams(expr, q, ps) ==
  LET cps == ChartPs(ps)
      u   == UniqueSlots(cps)
      sh  == u /\ SlotShape(cps)
      bal == u /\ Balanced(cps)
      wf  == u /\ sh /\ bal
      parsed == IF wf THEN ParseCharts(cps) ELSE <<>>
      pairs == QueryPairs(q) \cup ParsePairs(ps) \cup UNION {ChartPairs(parsed[i]) : i \in DOMAIN parsed}
  IN (IF u THEN {} ELSE {"UniqueSlot"})
     \cup (IF ~u \/ sh THEN {} ELSE {"SlotShape"})
     \cup (IF ~u \/ bal THEN {} ELSE {"Balanced"})
     \cup (IF ParsePairs(ps) = SimplePairs(q) THEN {} ELSE {"Meaning_simple"})
     \cup (IF ~wf \/ NormTop(parsed) = NormTop(q.charts) THEN {} ELSE {"Meaning_charts"})
     \cup (IF /\ ParseNum(ps, "limit") = q.limit
              /\ NatMax(ParseNum(ps, "offset"), 0) = NatMax(q.offset, 0)
              /\ ParseOrder(ps) = q.order
           THEN {} ELSE {"Paging"})
     \cup (IF ~wf \/ Cardinality(pairs) > SemMax
              \/ \A bug \in SUBSET pairs : QHolds(ParsePairs(ps), parsed, bug) = ExprHolds(expr, bug)
           THEN {} ELSE {"Semantics"})

\* an exception other than the documented refusal is a failure of the code, judged like any other
JudgeRender(e) ==
  IF ~InDomain(e.expr) THEN {"OutsideDomain"}
  ELSE IF e.raised # "" THEN {"Render_Raised"}
  ELSE LET d == Den(e.expr)
       IN IF ~d.ok THEN (IF e.refused THEN {} ELSE {"AnyOf_SimpleDropped"})
          ELSE IF e.refused THEN {"SpuriousRefusal"}
          ELSE JudgeParams(e.expr, d.q, e.ps)

JudgeBatches(q, ps, bs, base, max) ==
  LET axes == Axes(q)
      fails == [a \in axes |-> BatchFails(ps, bs, a, base, max)]
  IN IF axes = {}
     THEN (IF Len(bs) = 1 /\ Core(bs[1]) = Core(ps) THEN {} ELSE {"Batch_NoAxisIdentity"})
     ELSE IF \E a \in axes : fails[a] = {} THEN {}
     ELSE fails[CHOOSE a \in axes : \A b \in axes : Cardinality(fails[a]) <= Cardinality(fails[b])]

JudgeBatch(e) ==
  IF ~InDomain(e.expr) \/ ~Den(e.expr).ok THEN {"OutsideDomain"}
  ELSE IF e.raised # "" THEN {"Batch_Raised"}
  ELSE LET q == Den(e.expr).q
           \* a batch is a value: it reads the same when yielded (bs) and once all batches were collected (bs2)
           stable == Len(e.bs2) = Len(e.bs) /\ \A i \in DOMAIN e.bs : Core(e.bs2[i]) = Core(e.bs[i])
       IN JudgeBatches(q, e.ps, e.bs, e.base, e.max)
          \cup (IF stable THEN {} ELSE {"Batch_Stable"} \cup JudgeBatches(q, e.ps, e.bs2, e.base, e.max))

Judge(e) == CASE e.ev = "render" -> JudgeRender(e) [] e.ev = "batch" -> JudgeBatch(e) [] OTHER -> {"UnknownEvent"}

TraceInit == l = 0
TraceNext == /\ l < Len(Tr)
             /\ l' = l + 1
             /\ Report(Tr[l'].tid, Tr[l'].i, Judge(Tr[l']))
             /\ EndMark(l')
TraceSpec == TraceInit /\ [][TraceNext]_l
=========================================================================
