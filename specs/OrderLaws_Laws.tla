---------------------------- MODULE OrderLaws_Laws ----------------------------
(* C02: the clauses are jointly satisfiable.  For every universe the reference
   model (equality on a key that ignores spelling, hash of that key, lexicographic
   order with the PMS version order) breaks no clause for any pair, mirrored pair
   or triple; and the clauses are not vacuous on these universes: hashing the
   spelling instead of the key breaks Eq_hash, an order that ignores an attribute
   of the key breaks Neq_ordered.                                              *)
EXTENDS OrderLaws_Univ, TLC, SequencesExt

CONSTANT Tier               \* "quick" | "thorough"
Universes == LawUniversesOf(Tier)

AllValid(U) == \A t \in U : ValidThing(t)

RefSatisfies(U) ==
    LET S == SetToSeq(U)
        n == Len(S)
        K == TLCEval([i \in 1..n |-> RefKey(S[i])])
        O == TLCEval([i \in 1..n |-> TLCEval([j \in 1..n |-> RefObsK("key", S[i], S[j], K[i], K[j])])])
    IN  /\ \A i, j \in 1..n : PairBad(O[i][j]) = {} /\ MirrorBad(O[i][j], O[j][i]) = {}
        /\ \A i \in 1..n : SelfBad(O[i][i]) = {}
        /\ TriplesOK(O, n)

\* non-vacuity: the universes contain equal-but-differently-spelled objects, and
\* objects that differ only in one attribute of the key
SpellingHashBreaks(U) ==
    LET K == [t \in U |-> RefKey(t)]
    IN  \E x, y \in U : x # y /\ K[x] = K[y] /\ "Eq_hash" \in PairBad(RefObsK("spelling", x, y, K[x], K[y]))
CoarseOrderBreaks(U) == \E x, y \in U :
    x.sub # y.sub /\ "Neq_ordered" \in PairBad([RefObs("key", x, y) EXCEPT !.lt = FALSE, !.gt = FALSE])

\* each clause fires on a hand-made observation that breaks exactly it
ClauseUnitTests ==
    LET o(eq, lt, gt) == [eq |-> eq, ne |-> ~eq, lt |-> lt, le |-> lt \/ eq, gt |-> gt, ge |-> gt \/ eq, heq |-> eq, bad |-> FALSE]
        EQ == o(TRUE, FALSE, FALSE)   LT == o(FALSE, TRUE, FALSE)   GT == o(FALSE, FALSE, TRUE)
        M2 == <<<<EQ, LT>>, <<GT, EQ>>>>          \* two objects, 1 < 2
    IN  /\ PairBad(EQ) = {} /\ PairBad(LT) = {} /\ PairBad(GT) = {}
        /\ PairBad([EQ EXCEPT !.ne = TRUE]) = {"Eq_ne"}
        /\ PairBad([EQ EXCEPT !.heq = FALSE]) = {"Eq_hash"}
        /\ PairBad([EQ EXCEPT !.lt = TRUE, !.le = TRUE]) = {"Eq_not_lt"}
        /\ PairBad([EQ EXCEPT !.gt = TRUE, !.ge = TRUE]) = {"Eq_not_gt"}
        /\ PairBad(o(FALSE, FALSE, FALSE)) = {"Neq_ordered"}
        /\ PairBad(o(FALSE, TRUE, TRUE)) = {"Neq_ordered"}
        /\ PairBad([LT EXCEPT !.le = FALSE]) = {"Le_def"}
        /\ PairBad([GT EXCEPT !.ge = FALSE]) = {"Ge_def"}
        /\ PairBad([EQ EXCEPT !.bad = TRUE]) = {"NoRaise"}
        /\ MirrorBad(LT, GT) = {} /\ MirrorBad(LT, LT) = {"Converse_lt", "Converse_le"}
        /\ MirrorBad(EQ, [LT EXCEPT !.lt = FALSE, !.le = TRUE, !.ge = TRUE]) = {"Sym_eq", "Sym_ne"}
        /\ SelfBad(EQ) = {} /\ SelfBad(LT) = {"Reflexive"}
        /\ TripleBad(LT, LT, LT) = {} /\ TripleBad(LT, LT, GT) = {"Trans_lt"}
        /\ TripleBad(EQ, EQ, LT) = {"Trans_eq"}
        /\ TripleBad(EQ, LT, GT) = {"Cong_lt_left"} /\ TripleBad(LT, EQ, EQ) = {"Cong_lt_right"}
        /\ SortBad(M2, 2, <<1, 2>>) = {} /\ SortBad(M2, 2, <<2, 1>>) = {"Sort_ordered"} /\ SortBad(M2, 2, <<1, 1>>) = {"Sort_perm"}
        /\ SetBad(M2, 2, 2) = {} /\ SetBad(M2, 2, 1) = {"Set_size"}
        /\ FindBad(M2, 2, <<<<TRUE, FALSE>>, <<FALSE, TRUE>>>>) = {}
        /\ FindBad(M2, 2, <<<<TRUE, TRUE>>, <<FALSE, TRUE>>>>) = {"Dict_finds"}

ASSUME ClauseUnitTests
\* TriplesOK means "no triple breaks a clause": compared with the quantified form on a small
\* universe, for the reference relations and for relations doctored in one entry
TriplesOKLaw(U) ==
    LET S == SetToSeq(U)
        n == Len(S)
        K == TLCEval([i \in 1..n |-> RefKey(S[i])])
        O == TLCEval([i \in 1..n |-> TLCEval([j \in 1..n |-> RefObsK("key", S[i], S[j], K[i], K[j])])])
        Slow(M) == \A i, j, k \in 1..n : TripleBad(M[i][j], M[j][k], M[i][k]) = {}
        Flip(p, q, f) == [O EXCEPT ![p][q][f] = ~@]
    IN  /\ TriplesOK(O, n) = Slow(O)
        /\ \A p, q \in 1..n : \A f \in {"lt", "eq", "bad"} : TriplesOK(Flip(p, q, f), n) = Slow(Flip(p, q, f))

\* (the laws take the universe as a parameter: TLC evaluates zero-arity definitions
\*  eagerly at start-up, which would evaluate each law twice)
ASSUME \A U \in Universes : AllValid(U)
ASSUME \A U \in Universes : RefSatisfies(U)
ASSUME TriplesOKLaw(GroupBlock) /\ TriplesOKLaw(GroupCpv)
ASSUME Cardinality({U \in Universes : SpellingHashBreaks(U)}) >= 2
ASSUME \E U \in Universes : CoarseOrderBreaks(U)
=============================================================================
