---------------------------- MODULE OrderLaws_Laws ----------------------------
(* C02: the clauses are jointly satisfiable.  For every universe the reference
   model (equality on a key that ignores spelling, hash of that key, lexicographic
   order with the PMS version order) breaks no clause for any pair, mirrored pair
   or triple; and the clauses are not vacuous on these universes: hashing the
   spelling instead of the key breaks Eq_hash, an order that ignores an attribute
   of the key breaks Neq_ordered.                                              *)
EXTENDS OrderLaws_Univ, TLC, SequencesExt

CONSTANT Tier               \* "quick" | "thorough"
Universes == UniversesOf(Tier)

AllValid == \A U \in Universes : \A t \in U : ValidThing(t)

RefSatisfies == \A U \in Universes :
    LET S == SetToSeq(U)
        n == Len(S)
        O == [i \in 1..n |-> [j \in 1..n |-> RefObs("key", S[i], S[j])]]
    IN  /\ \A i, j \in 1..n : PairBad(O[i][j]) = {} /\ MirrorBad(O[i][j], O[j][i]) = {}
        /\ \A i \in 1..n : SelfBad(O[i][i]) = {}
        /\ \A i, j, k \in 1..n : TripleBad(O[i][j], O[j][k], O[i][k]) = {}

\* non-vacuity: the universes contain equal-but-differently-spelled objects, and
\* objects that differ only in one attribute of the key
SpellingHashBreaks == Cardinality({U \in Universes :
    \E x, y \in U : "Eq_hash" \in PairBad(RefObs("spelling", x, y))}) >= 2
CoarseOrderBreaks == \E U \in Universes : \E x, y \in U :
    x.sub # y.sub /\ "Neq_ordered" \in PairBad([RefObs("key", x, y) EXCEPT !.lt = FALSE, !.gt = FALSE])

ASSUME AllValid
ASSUME RefSatisfies
ASSUME SpellingHashBreaks
ASSUME CoarseOrderBreaks
=============================================================================
