---------------------------- MODULE CacheValidity_Scenarios ----------------------------
(* spec -> code: the canonical situations the property text names, for both cache kinds, as
   explicit (initial world, history) pairs: ebuild edited / touched, eclass edited (directly and
   indirectly inherited), eclass removed (with and without a copy further down the stack),
   eclass moved between the stacked repositories, overlay eclass added in front of the master's,
   entry lacking INHERIT, plain cache hit, two packages sharing an
   eclass and read in one session (both orders) while their entries record different checksums.  TLC evaluates them (and checks each against the
   read-outcome operators: every scenario really has a read after an edit) and serialises
   them for drivers/c48_cachevalidity.py.                                                  *)
EXTENDS CacheValidity, Sequences, TLC, Json, IOUtils, SequencesExt

F(c, x) == [cid |-> c, nest |-> x, mt |-> 0]
None == AbsentFile
NoPkg == [cid |-> 0, inh |-> "", mt |-> 0]
\* two packages (p2 may be missing: NoPkg) sharing the eclass files
World2(inh1, eb2, ma, mb, oa, ob) ==
    [ebs |-> [p \in {"p1", "p2"} |-> IF p = "p1" THEN [cid |-> 1, inh |-> inh1, mt |-> 0] ELSE eb2],
     ecl |-> [r \in Repos |-> [n \in Eclasses |-> IF r = "m" THEN (IF n = "a" THEN ma ELSE mb)
                                                            ELSE (IF n = "a" THEN oa ELSE ob)]]]
World(inh, ma, mb, oa, ob) == World2(inh, NoPkg, ma, mb, oa, ob)
Pkg2(c, inh) == [cid |-> c, inh |-> inh, mt |-> 0]
A(ev, p, r, n, c, x, i, r2) == [ev |-> ev, pkg |-> p, r |-> r, n |-> n, cid |-> c, nest |-> x, inh |-> i, r2 |-> r2]
\* a read session: the packages named by the order code are read through the same objects
RdS(order) == A("Read", order, "-", "-", 0, FALSE, "", "-")
Rd == RdS("p1")
EditEbP(p, c, i)   == A("EditEbuild", p, "-", "-", c, FALSE, i, "-")
EditEb(c, i)       == EditEbP("p1", c, i)
TouchEb            == A("TouchEbuild", "p1", "-", "-", 0, FALSE, "", "-")
EditEc(r, n, c, x) == A("EditEclass", "-", r, n, c, x, "", "-")
TouchEc(r, n)      == A("TouchEclass", "-", r, n, 0, FALSE, "", "-")
RemoveEc(r, n)     == A("RemoveEclass", "-", r, n, 0, FALSE, "", "-")
MoveEc(n, r1, r2)  == A("MoveEclass", "-", r1, n, 0, FALSE, "", r2)
Strip              == A("StripInherit", "p1", "-", "-", 0, FALSE, "", "-")

Scen(name, w0, hist) == [name |-> name, w0 |-> w0, hist |-> hist]
Scenarios == {
    Scen("hit",              World("a", F(1, FALSE), None, None, None),        <<Rd, Rd, Rd>>),
    Scen("ebuild-edited",    World("a", F(1, FALSE), None, None, None),        <<Rd, EditEb(2, "a"), Rd, Rd>>),
    Scen("ebuild-touched",   World("a", F(1, FALSE), None, None, None),        <<Rd, TouchEb, Rd>>),
    Scen("ebuild-drops-inherit", World("ab", F(1, FALSE), F(1, FALSE), None, None), <<Rd, EditEb(1, ""), Rd, RemoveEc("m", "a"), Rd>>),
    Scen("eclass-edited",    World("a", F(1, FALSE), None, None, None),        <<Rd, EditEc("m", "a", 2, FALSE), Rd, Rd>>),
    Scen("eclass-touched",   World("a", F(1, FALSE), None, None, None),        <<Rd, TouchEc("m", "a"), Rd>>),
    Scen("indirect-edited",  World("a", F(1, TRUE), F(1, FALSE), None, None),  <<Rd, EditEc("m", "b", 2, FALSE), Rd, Rd>>),
    Scen("indirect-removed", World("a", F(1, TRUE), F(1, FALSE), None, None),  <<Rd, RemoveEc("m", "b"), Rd, EditEc("m", "a", 1, FALSE), Rd>>),
    Scen("nest-added",       World("a", F(1, FALSE), F(1, FALSE), None, None), <<Rd, EditEc("m", "a", 1, TRUE), Rd, EditEc("o", "b", 2, FALSE), Rd>>),
    Scen("removed-for-good", World("a", F(1, FALSE), None, None, None),        <<Rd, RemoveEc("m", "a"), Rd, EditEc("o", "a", 1, FALSE), Rd>>),
    Scen("removed-fallback", World("a", F(2, FALSE), None, F(1, FALSE), None), <<Rd, RemoveEc("o", "a"), Rd, Rd>>),
    Scen("removed-fallback-same-content", World("a", F(1, FALSE), None, F(1, FALSE), None), <<Rd, RemoveEc("o", "a"), Rd>>),
    Scen("unrelated-removed", World("a", F(1, FALSE), F(1, FALSE), None, None), <<Rd, RemoveEc("m", "b"), Rd>>),
    Scen("moved-to-overlay", World("ab", F(1, FALSE), F(1, FALSE), None, None), <<Rd, MoveEc("a", "m", "o"), Rd, MoveEc("a", "o", "m"), Rd>>),
    Scen("shadowed",         World("a", F(1, FALSE), None, None, None),        <<Rd, EditEc("o", "a", 2, FALSE), Rd, RemoveEc("o", "a"), Rd>>),
    Scen("shadowed-same-content", World("a", F(1, FALSE), None, None, None),   <<Rd, EditEc("o", "a", 1, FALSE), Rd>>),
    Scen("master-copy-edited-behind-overlay", World("a", F(1, FALSE), None, F(2, FALSE), None), <<Rd, EditEc("m", "a", 3, FALSE), Rd>>),
    Scen("strip-inherit",    World("ab", F(1, FALSE), F(1, FALSE), None, None), <<Rd, Strip, Rd, Rd>>),
    Scen("strip-inherit-then-edit", World("a", F(1, FALSE), None, None, None), <<Rd, Strip, EditEc("m", "a", 2, FALSE), Rd>>),
    Scen("no-eclasses",      World("", F(1, FALSE), None, None, None),         <<Rd, EditEc("m", "a", 2, FALSE), Rd, EditEb(2, ""), Rd>>),
    Scen("broken-from-start", World("ab", F(1, FALSE), None, None, None),      <<Rd, EditEc("o", "b", 1, FALSE), Rd, Rd>>),
    \* two packages sharing an eclass, read through ONE repository / eclass-cache object, both orders;
    \* after the eclass edit only p1 is refreshed, so the two entries record different checksums of a
    Scen("shared-eclass-fresh-entry-first", World2("a", Pkg2(2, "a"), F(1, FALSE), None, None, None),
         <<RdS("p1p2"), EditEc("m", "a", 2, FALSE), RdS("p1"), RdS("p1p2"), RdS("p2p1")>>),
    Scen("shared-eclass-stale-entry-first", World2("a", Pkg2(2, "a"), F(1, FALSE), None, None, None),
         <<RdS("p2p1"), EditEc("m", "a", 2, FALSE), RdS("p2"), RdS("p1p2"), RdS("p1p2")>>),
    Scen("shared-indirect-eclass", World2("a", Pkg2(2, "b"), F(1, TRUE), F(1, FALSE), None, None),
         <<RdS("p1p2"), EditEc("m", "b", 2, FALSE), RdS("p2"), RdS("p2p1"), RdS("p1p2")>>),
    Scen("shared-eclass-moved", World2("ab", Pkg2(2, "a"), F(1, FALSE), F(1, FALSE), None, None),
         <<RdS("p1p2"), MoveEc("a", "m", "o"), RdS("p2"), RdS("p2p1")>>),
    Scen("two-packages-one-ebuild-edited", World2("a", Pkg2(2, "ab"), F(1, FALSE), F(1, FALSE), None, None),
         <<RdS("p1p2"), EditEbP("p2", 3, "a"), RdS("p1p2"), TouchEb, RdS("p2p1")>>),
    Scen("shared-eclass-removed", World2("a", Pkg2(2, "ab"), F(1, FALSE), F(1, FALSE), None, None),
         <<RdS("p1p2"), RemoveEc("m", "b"), RdS("p1p2"), RdS("p2p1")>>) }

Cases == {[kind |-> k, name |-> s.name, w0 |-> s.w0, hist |-> s.hist] : k \in {"md5", "flat"}, s \in Scenarios}
\* sanity: a scenario starts with a read (filling the cache) and has a later read after an edit
ASSUME \A s \in Scenarios : /\ s.hist[1].ev = "Read" /\ s.hist[Len(s.hist)].ev = "Read"
                            /\ (s.name # "hit" => \E k \in DOMAIN s.hist : s.hist[k].ev # "Read")
                            \* a session only names packages that exist
                            /\ \A k \in DOMAIN s.hist : (s.hist[k].ev = "Read" /\ s.hist[k].pkg # "p1") => s.w0.ebs["p2"].cid # 0
ASSUME ndJsonSerialize(IOEnv.OUT, SetToSeq(Cases))
=============================================================================
