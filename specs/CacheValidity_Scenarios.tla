---------------------------- MODULE CacheValidity_Scenarios ----------------------------
(* spec -> code: the canonical situations the property text names, for both cache kinds, as
   explicit (initial world, history) pairs: ebuild edited / touched, eclass edited (directly and
   indirectly inherited), eclass removed (with and without a copy further down the stack),
   eclass moved between the stacked repositories, overlay eclass added in front of the master's,
   entry lacking INHERIT, plain cache hit.  TLC evaluates them (and checks each against the
   read-outcome operators: every scenario really has a read after an edit) and serialises
   them for drivers/c48_cachevalidity.py.                                                  *)
EXTENDS CacheValidity, Sequences, TLC, Json, IOUtils, SequencesExt

F(c, x) == [cid |-> c, nest |-> x, mt |-> 0]
None == AbsentFile
World(inh, ma, mb, oa, ob) ==
    [eb |-> [cid |-> 1, inh |-> inh, mt |-> 0],
     ecl |-> [r \in Repos |-> [n \in Eclasses |-> IF r = "m" THEN (IF n = "a" THEN ma ELSE mb)
                                                            ELSE (IF n = "a" THEN oa ELSE ob)]]]
A(ev, r, n, c, x, i, r2) == [ev |-> ev, r |-> r, n |-> n, cid |-> c, nest |-> x, inh |-> i, r2 |-> r2]
Rd == A("Read", "-", "-", 0, FALSE, "", "-")
EditEb(c, i)       == A("EditEbuild", "-", "-", c, FALSE, i, "-")
TouchEb            == A("TouchEbuild", "-", "-", 0, FALSE, "", "-")
EditEc(r, n, c, x) == A("EditEclass", r, n, c, x, "", "-")
TouchEc(r, n)      == A("TouchEclass", r, n, 0, FALSE, "", "-")
RemoveEc(r, n)     == A("RemoveEclass", r, n, 0, FALSE, "", "-")
MoveEc(n, r1, r2)  == A("MoveEclass", r1, n, 0, FALSE, "", r2)
Strip              == A("StripInherit", "-", "-", 0, FALSE, "", "-")

Scen(name, w0, hist) == [name |-> name, w0 |-> w0, hist |-> hist]
Scenarios == {
    Scen("hit",              World("a", F(1, FALSE), None, None, None),        <<Rd, Rd, Rd>>),
    Scen("ebuild-edited",    World("a", F(1, FALSE), None, None, None),        <<Rd, EditEb(2, "a"), Rd, Rd>>),
    Scen("ebuild-touched",   World("a", F(1, FALSE), None, None, None),        <<Rd, TouchEb, Rd>>),
    Scen("ebuild-drops-inherit", World("ab", F(1, FALSE), F(1, FALSE), None, None), <<Rd, EditEb(1, ""), Rd, RemoveEc("m", "a"), Rd>>),
    Scen("eclass-edited",    World("a", F(1, FALSE), None, None, None),        <<Rd, EditEc("m", "a", 2, FALSE), Rd, Rd>>),
    Scen("eclass-touched",   World("a", F(1, FALSE), None, None, None),        <<Rd, TouchEc("m", "a"), Rd>>),
    Scen("indirect-edited",  World("a", F(1, TRUE), F(1, FALSE), None, None),  <<Rd, EditEc("m", "b", 2, FALSE), Rd, Rd>>),
    Scen("indirect-removed", World("a", F(1, TRUE), F(1, FALSE), None, None),  <<Rd, RemoveEc("m", "b"), Rd, EditEc("m", "a", 1, FALSE), Rd>>),
    Scen("nest-added",       World("a", F(1, FALSE), F(1, FALSE), None, None), <<Rd, EditEc("m", "a", 1, TRUE), Rd, EditEc("o", "b", 2, FALSE), Rd>>),
    Scen("removed-for-good", World("a", F(1, FALSE), None, None, None),        <<Rd, RemoveEc("m", "a"), Rd, EditEc("o", "a", 1, FALSE), Rd>>),
    Scen("removed-fallback", World("a", F(2, FALSE), None, F(1, FALSE), None), <<Rd, RemoveEc("o", "a"), Rd, Rd>>),
    Scen("removed-fallback-same-content", World("a", F(1, FALSE), None, F(1, FALSE), None), <<Rd, RemoveEc("o", "a"), Rd>>),
    Scen("unrelated-removed", World("a", F(1, FALSE), F(1, FALSE), None, None), <<Rd, RemoveEc("m", "b"), Rd>>),
    Scen("moved-to-overlay", World("ab", F(1, FALSE), F(1, FALSE), None, None), <<Rd, MoveEc("a", "m", "o"), Rd, MoveEc("a", "o", "m"), Rd>>),
    Scen("shadowed",         World("a", F(1, FALSE), None, None, None),        <<Rd, EditEc("o", "a", 2, FALSE), Rd, RemoveEc("o", "a"), Rd>>),
    Scen("shadowed-same-content", World("a", F(1, FALSE), None, None, None),   <<Rd, EditEc("o", "a", 1, FALSE), Rd>>),
    Scen("master-copy-edited-behind-overlay", World("a", F(1, FALSE), None, F(2, FALSE), None), <<Rd, EditEc("m", "a", 3, FALSE), Rd>>),
    Scen("strip-inherit",    World("ab", F(1, FALSE), F(1, FALSE), None, None), <<Rd, Strip, Rd, Rd>>),
    Scen("strip-inherit-then-edit", World("a", F(1, FALSE), None, None, None), <<Rd, Strip, EditEc("m", "a", 2, FALSE), Rd>>),
    Scen("no-eclasses",      World("", F(1, FALSE), None, None, None),         <<Rd, EditEc("m", "a", 2, FALSE), Rd, EditEb(2, ""), Rd>>),
    Scen("broken-from-start", World("ab", F(1, FALSE), None, None, None),      <<Rd, EditEc("o", "b", 1, FALSE), Rd, Rd>>) }

Cases == {[kind |-> k, name |-> s.name, w0 |-> s.w0, hist |-> s.hist] : k \in {"md5", "flat"}, s \in Scenarios}
\* sanity: a scenario starts with a read (filling the cache) and has a later read after an edit
ASSUME \A s \in Scenarios : /\ s.hist[1] = Rd /\ s.hist[Len(s.hist)] = Rd
                            /\ (s.name # "hit" => \E k \in DOMAIN s.hist : s.hist[k] # Rd)
ASSUME ndJsonSerialize(IOEnv.OUT, SetToSeq(Cases))
=============================================================================
