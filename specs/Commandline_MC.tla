---------------------------- MODULE Commandline_MC ----------------------------
(* Every history of at most MaxCalls calls of one Tool over the universe written by
   drivers/g08_commandline.py (IOEnv.UNI_FILE), explored hook by hook (StepM of Commandline.tla).
   First calls range over every command line of the universe and, for the plain command line of
   every subcommand, over every (hook, exception class) failure; later calls over the command lines.
   Invariants and action properties are the ones named in the header of Commandline.tla.      *)
EXTENDS Commandline, Json, IOUtils
CONSTANT MaxCalls

UFile == ndJsonDeserialize(IOEnv.UNI_FILE)[1]

Subs0 == SubNames \cup {"-"}
Doms0 == SeqSet(Uni.domains) \cup {"-", "zz"}
OptSets(pn) == IF pn = "-" THEN {<<>>}
               ELSE LET os == SeqSet(Par(pn).opts) IN {<<>>} \cup {<<<<o, "v" \o o>>>> : o \in os}
CallRec(sub, dom, subdom, cfg, ro, so, fh, fk) ==
    [sub |-> sub, dom |-> dom, subdom |-> subdom, cfgarg |-> cfg, ropts |-> ro, sopts |-> so, fh |-> fh, fk |-> fk]
ArgCalls == {CallRec(w[1], w[2], w[3], w[4], w[5], w[6], "-", "-") :
               w \in {v \in Subs0 \X Doms0 \X BOOLEAN \X {"-", "no", "missing"} \X OptSets("root") \X UNION {OptSets(s) : s \in Subs0} :
                        /\ (v[3] => (v[1] # "-" /\ v[2] # "-"))
                        /\ v[6] \in OptSets(v[1])
                        /\ (v[4] # "-" => v[2] = "-" /\ v[5] = <<>> /\ v[6] = <<>>)}}
Faulty == {h \in AllHooks : h.k \in {"reset", "pre", "early", "delayed", "raw", "ordered", "final", "main"}}
FaultCalls == {CallRec(s, "-", FALSE, "-", <<>>, <<>>, h.id, k) :
                 s \in Subs0, h \in Faulty, k \in {"argerr", "valerr", "usererr", "exit"}}
Calls1 == TLCEval(ArgCalls \cup FaultCalls)
Calls2 == TLCEval({cc \in ArgCalls : cc.cfgarg = "-" /\ cc.dom \in {"-", "zz"}})

VARIABLES st, x, c, n
vars == <<st, x, c, n>>
NoCall == CallRec("-", "-", FALSE, "-", <<>>, <<>>, "-", "-")
IdleX == Stage(StartM(St0, NoCall), "idle", <<>>)
Init == st = St0 /\ x = IdleX /\ c = NoCall /\ n = 0
Begin == /\ x.pc = "idle" /\ n < MaxCalls
         /\ \E cc \in (IF n = 0 THEN Calls1 ELSE Calls2) : c' = cc /\ x' = Start(st, cc)
         /\ n' = n + 1 /\ UNCHANGED st
Step == x.pc \notin {"idle", "end"} /\ x' = StepM(x, c) /\ UNCHANGED <<st, c, n>>
Finish == x.pc = "end" /\ st' = After(st, x) /\ x' = IdleX /\ UNCHANGED <<c, n>>
Next == Begin \/ Step \/ Finish
Spec == Init /\ [][Next]_vars

Log == x.m.log
Given == LET all == c.ropts \o c.sopts IN {all[i] : i \in DOMAIN all}
DelsOfCall == DelsOf(c)

AtEnd == x.pc = "end"     \* the log-only properties are prefix closed: judged once per call, on the complete log
InvAtMostOnce == AtEnd => AtMostOnceLog(Log)
InvPriorityOrder == AtEnd => PriorityOrderLog(Log)
InvStageOrder == AtEnd => StageOrderLog(Log)
InvConfigOnce == AtEnd =>
                 /\ ConfigOnceLog(Log)
                 /\ (st.opt.has /\ Has(st.opt.ns, "config") /\ Get(st.opt.ns, "config").k = "val" /\ "config" \notin DelsOfCall)
                       => \A i \in DOMAIN Log : Log[i].h # "config"
InvExplicitWins == AtEnd =>
    \A g \in Given :
       /\ (x.pc \in {"main", "end"} /\ x.m.pdone /\ g[1] \notin DelsOfCall) => Shown(x.m.ns, g[1]) = g[2]
       /\ \A i \in DOMAIN Log : (ParsedAt(Log) > 0 /\ i > ParsedAt(Log) /\ KindAt(Log, i) \in {"delayed", "raw"})
                                  => (g[1] \in DelsOfCall \/ HK(Log[i].h).n # g[1])
InvFinalsPopped == x.m.pdone => /\ \A i \in DOMAIN x.m.ns : x.m.ns[i].k # "fin"
                                /\ \A i \in DOMAIN x.m.snap : ~(Has(x.m.ns, x.m.snap[i].a) /\ Get(x.m.ns, x.m.snap[i].a) = x.m.snap[i])
InvPreOnce == AtEnd => \A i \in DOMAIN Log : KindAt(Log, i) = "pre" => HK(Log[i].h).par \notin st.pre
InvCached == AtEnd => \A i \in DOMAIN Log :
               (KindAt(Log, i) \in {"delayed", "raw", "cfg"} /\ st.opt.has)
                 => LET a == HK(Log[i].h).n IN
                    ~(Has(st.opt.ns, a) /\ Get(st.opt.ns, a).k = "val") \/ a \in DelsOfCall
InvOutcomeTotal == x.pc = "end" => Outcome(x.m).kind \in {"ret", "exit", "raise"}

\* nothing runs after a failure
PropFailStops == [][(x.pc # "idle" /\ ~Ok(x.m) /\ x'.pc # "idle") => (x'.m.log = x.m.log /\ x'.m.ns = x.m.ns /\ x'.pc = "end")]_vars
\* when a hook body runs in the delayed pass nothing of lower priority of the snapshot is still pending
PropOnlyAfter == [][(x.pc = "delayed" /\ x'.pc = "delayed" /\ x.q # <<>> /\ Len(x'.m.log) > Len(x.m.log))
                      => \A i \in DOMAIN x.m.snap :
                            PrioOf(x.m.snap[i]) < PrioOf(Head(x.q))
                              => ~(Has(x.m.ns, x.m.snap[i].a) /\ Get(x.m.ns, x.m.snap[i].a) = x.m.snap[i])]_vars
\* a call never un-does the pre-parse flags, and only a finished parse replaces the Tool's namespace
PropPreGrows == [][st.pre \subseteq st'.pre]_vars
=========================================================================
