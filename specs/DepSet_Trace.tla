---------------------------- MODULE DepSet_Trace ----------------------------
(* Judge of C09 observations.  One event per input text:
   {tid, i, fl, toks:[{k,v,neg}],                     the text fed to DepSet.parse (tokens)
    raised,                                            DepsetParseError?
    ast:[node],                                        the parsed restriction tree, projected
    rtoks:[tok],                                       str(depset), split on white space
    re_raised, re_ast:[node], eq,                      DepSet.parse(str(depset)); pkgcore's ==
    evals:[{use:[flag], ast:[node]}],                  evaluate_depset(U) for every U
    evals2: same, after node_conds / known_conditionals / has_conditionals have been read}
   node = {t,v,neg,ren,ch}.  Clauses:
     Rejects / Accepts        the verdict of the grammar (error / ok) against the parser
     Parse_wellformed, Parse_leaves, Parse_meaning     parsed tree vs Parse(toks)
     Render_parses, Render_meaning                     str() is grammatical and means the tree
     RoundTrip_reparse, RoundTrip_equal                parse(str(d)) == d
     Eval_condfree, Eval_leaves, Eval_meaning          evaluate_depset(U) vs the tree under U
     EvalAfterInspection_*                             the same for evals2                      *)
EXTENDS DepSet, TraceLib
VARIABLE l

ReportX(tid, i, bad) == \A c \in bad : PrintT(<<"VERDICT", tid, i, c[1], c[2]>>)
If(cond, clause, extra) == IF cond THEN {<<clause, extra>>} ELSE {}
None == <<>>

JudgeParsed(e, F) ==
  LET p == Parse(e.toks, F) IN
  IF p.st # "ok" THEN {}
  ELSE If(~WellFormed(e.ast), "Parse_wellformed", None)
       \cup (IF ~WellFormed(e.ast) THEN {}
             ELSE If(Leaves(e.ast) # Leaves(p.nodes) \/ Flags(e.ast) # Flags(p.nodes), "Parse_leaves", None)
                  \cup If(~SameMeaning(p.nodes, e.ast, Flags(p.nodes)), "Parse_meaning", None))

JudgeRender(e, F) ==
  LET rp == Parse(e.rtoks, F) IN
  If(rp.st = "error", "Render_parses", None)
  \cup If(rp.st = "ok" /\ (Leaves(rp.nodes) # Leaves(e.ast) \/ Flags(rp.nodes) # Flags(e.ast)
                           \/ ~SameMeaning(e.ast, rp.nodes, Flags(e.ast))),
          "Render_meaning", None)
  \cup If(e.re_raised, "RoundTrip_reparse", None)
  \cup If(~e.re_raised /\ (AsSet(e.re_ast) # AsSet(e.ast) \/ ~e.eq), "RoundTrip_equal", None)

JudgeEvalSeq(e, evs, tag) ==
  UNION {LET ev == evs[k] IN
         If(HasCond(ev.ast), tag \o "_condfree", ev.use)
         \cup If(~(Leaves(ev.ast) \subseteq Leaves(e.ast)), tag \o "_leaves", ev.use)
         \cup If(WellFormed(ev.ast) /\ ~EvaluatedMeaning(e.ast, AsSet(ev.use), ev.ast),
                 tag \o "_meaning", ev.use)
         \cup If(~WellFormed(ev.ast), tag \o "_wellformed", ev.use)
         : k \in DOMAIN evs}
\* evals: right after parsing; evals2: after node_conds / known_conditionals / has_conditionals were read
JudgeEvals(e) == JudgeEvalSeq(e, e.evals, "Eval") \cup JudgeEvalSeq(e, e.evals2, "EvalAfterInspection")

Judge(e) ==
  LET F == FlavourOf(e.fl)
      p == Parse(e.toks, F) IN
  If(p.st = "error" /\ ~e.raised, "Rejects", None)
  \cup If(p.st = "ok" /\ e.raised, "Accepts", None)
  \cup (IF e.raised THEN {}
        ELSE JudgeParsed(e, F)
             \cup (IF WellFormed(e.ast) THEN JudgeRender(e, F) \cup JudgeEvals(e) ELSE {}))

TraceInit == l = 0
TraceNext == /\ l < Len(Tr)
             /\ l' = l + 1
             /\ ReportX(Tr[l'].tid, Tr[l'].i, Judge(Tr[l']))
             /\ EndMark(l')
TraceSpec == TraceInit /\ [][TraceNext]_l
=========================================================================
