---------------------------- MODULE Keywording_Trace ----------------------------
(* Judges what the real match_packages did (drivers/c40_keywording.py):
   {tid, i, ev:"match", repo:{known, pkgs:[{name, ver, slot, kws:[[arch, st]]}]}, lines:[{op,name,ver,slot,written:[{t,arch,tilde}]}],
    opts:{stable, cc, only_new, filter, allarches}, out:[{line, name, ver, kws}], exc, crash}
   out[k].line = the line match_packages was working on when it yielded request k.            *)
EXTENDS Keywording, TraceLib
VARIABLE l
RepoOf(e) == [known |-> AsSet(e.repo.known),
              pkgs |-> {[name |-> e.repo.pkgs[k].name, ver |-> e.repo.pkgs[k].ver, slot |-> e.repo.pkgs[k].slot,
                         kws |-> {<<e.repo.pkgs[k].kws[j][1], e.repo.pkgs[k].kws[j][2]>> : j \in DOMAIN e.repo.pkgs[k].kws}] : k \in DOMAIN e.repo.pkgs}]
OptsOf(e) == [stable |-> e.opts.stable, cc |-> e.opts.cc, only_new |-> e.opts.only_new, filter |-> AsSet(e.opts.filter),
              allarches |-> e.opts.allarches]
Judge(e) ==
  IF e.ev # "match" THEN {"UnknownEvent"}
  ELSE LET repo == RepoOf(e)  o == OptsOf(e)
       IN IF ~(\A p \in repo.pkgs : PkgOk(p)) \/ ~(SeqToSet(o.cc) \subseteq repo.known) \/ ~ObsOk(repo, e.lines, e.out)
          THEN {"OutsideDomain"}
          \* an exception that is not one of the documented PkgcoreExceptions is a failure of the code
          ELSE Fails(repo, e.lines, o, e.out, e.exc) \cup (IF e.crash = "" THEN {} ELSE {"Match_Raised"})
TraceInit == l = 0
TraceNext == /\ l < Len(Tr)
             /\ l' = l + 1
             /\ Report(Tr[l'].tid, Tr[l'].i, Judge(Tr[l']))
             /\ EndMark(l')
TraceSpec == TraceInit /\ [][TraceNext]_l
=========================================================================
