---------------------------- MODULE IpcReply ----------------------------
(* C32: the request/reply discipline of the IPC helper channel
   (src/pkgcore/ebuild/ebd_ipc.py IpcCommand.__call__/_encode_ret, ebd.py run_generic_phase,
    data/lib/pkgcore/ebd/ebuild-daemon-lib.bash __ebd_ipc_cmd).

   The bash side writes one request = ReqLines lines
        <command> <nonfatal> <cwd> <phase> <options> <NUL separated args>
   and then reads exactly ONE line, `code BEL message`.  The python side must therefore
     * consume exactly the request's own lines,
     * write exactly one line (whatever the message text is: stderr of an external
       `install`, of patch, of tar ... may hold several lines),
     * with code = 0 exactly when the requested action succeeded,
     * and, when the action failed: return code+message if the request was nonfatal,
       otherwise fail the build (no further request is served).
   Pure operators only (no VARIABLES): shared by IpcReply_MC (design) and IpcReply_Trace
   (judge of the real code).                                                              *)
EXTENDS Naturals, Sequences, FiniteSets

ReqLines == 6

\* the lines of request k as the python side must consume them: <<k,1>> .. <<k,ReqLines>>
OwnLines(k) == [p \in 1..ReqLines |-> <<k, p>>]

\* ---- what the python side owes for one request -------------------------------------
\* succ: did the requested action succeed;  nonfatal: the request's nonfatal flag
WantCodeZero(succ) == succ
WantBuild(nonfatal, succ) == IF succ \/ nonfatal THEN "continues" ELSE "fails"
\* number of lines a reply may occupy on the wire
WantReplyLines == 1

\* ---- reply framing ------------------------------------------------------------------
\* A message is a sequence of text lines (>= 1; external tools produce several).
\* The wire form of a reply is a sequence of wire lines [req, code, cont]:
\*   cont = FALSE for a line that starts with `code BEL`, TRUE for a continuation line.
Flatten(k, code, msg) == << [req |-> k, code |-> code, cont |-> FALSE] >>
Raw(k, code, msg)     == [n \in 1..Len(msg) |-> [req |-> k, code |-> code, cont |-> (n > 1)]]

\* exit status of an external command -> did the action succeed
ExtSucceeded(ret) == ret = 0
=========================================================================
