---- MODULE PlanState_MC_TTrace_1790034190 ----
EXTENDS Sequences, TLCExt, Toolbox, Naturals, TLC, PlanState_MC

_expression ==
    LET PlanState_MC_TEExpression == INSTANCE PlanState_MC_TEExpression
    IN PlanState_MC_TEExpression!expression
----

_trace ==
    LET PlanState_MC_TETrace == INSTANCE PlanState_MC_TETrace
    IN PlanState_MC_TETrace!trace
----

_inv ==
    ~(
        TLCGet("level") = Len(_TETrace)
        /\
        st = ([slots |-> {}, plan |-> <<[p |-> "p1", b |-> "-", c |-> "c1", t |-> "add", force |-> FALSE, old |-> "-", oldc |-> "-", fold |-> FALSE], [p |-> "p1", b |-> "-", c |-> "c1", t |-> "remove", force |-> FALSE, old |-> "-", oldc |-> "-", fold |-> FALSE]>>, limiters |-> {}, choice |-> [p1 |-> "-", p2 |-> "-", p3 |-> "-", p4 |-> "-"], rev |-> (<<"c1", "b1">> :> 0 @@ <<"c1", "b2">> :> 0 @@ <<"c2", "b1">> :> 0 @@ <<"c2", "b2">> :> 0), refcnt |-> [b1 |-> 0, b2 |-> 0], vdb |-> {}, forced |-> [r1 |-> 0]])
    )
----

_init ==
    /\ st = _TETrace[1].st
----

_next ==
    /\ \E i,j \in DOMAIN _TETrace:
        /\ \/ /\ j = i + 1
              /\ i = TLCGet("level")
        /\ st  = _TETrace[i].st
        /\ st' = _TETrace[j].st

\* Uncomment the ASSUME below to write the states of the error trace
\* to the given file in Json format. Note that you can pass any tuple
\* to `JsonSerialize`. For example, a sub-sequence of _TETrace.
    \* ASSUME
    \*     LET J == INSTANCE Json
    \*         IN J!JsonSerialize("PlanState_MC_TTrace_1790034190.json", _TETrace)

=============================================================================

 Note that you can extract this module `PlanState_MC_TEExpression`
  to a dedicated file to reuse `expression` (the module in the 
  dedicated `PlanState_MC_TEExpression.tla` file takes precedence 
  over the module `PlanState_MC_TEExpression` below).

---- MODULE PlanState_MC_TEExpression ----
EXTENDS Sequences, TLCExt, Toolbox, Naturals, TLC, PlanState_MC

expression == 
    [
        \* To hide variables of the `PlanState_MC` spec from the error trace,
        \* remove the variables below.  The trace will be written in the order
        \* of the fields of this record.
        st |-> st
        
        \* Put additional constant-, state-, and action-level expressions here:
        \* ,_stateNumber |-> _TEPosition
        \* ,_stUnchanged |-> st = st'
        
        \* Format the `st` variable as Json value.
        \* ,_stJson |->
        \*     LET J == INSTANCE Json
        \*     IN J!ToJson(st)
        
        \* Lastly, you may build expressions over arbitrary sets of states by
        \* leveraging the _TETrace operator.  For example, this is how to
        \* count the number of times a spec variable changed up to the current
        \* state in the trace.
        \* ,_stModCount |->
        \*     LET F[s \in DOMAIN _TETrace] ==
        \*         IF s = 1 THEN 0
        \*         ELSE IF _TETrace[s].st # _TETrace[s-1].st
        \*             THEN 1 + F[s-1] ELSE F[s-1]
        \*     IN F[_TEPosition - 1]
    ]

=============================================================================



Parsing and semantic processing can take forever if the trace below is long.
 In this case, it is advised to uncomment the module below to deserialize the
 trace from a generated binary file.

\*
\*---- MODULE PlanState_MC_TETrace ----
\*EXTENDS IOUtils, TLC, PlanState_MC
\*
\*trace == IODeserialize("PlanState_MC_TTrace_1790034190.bin", TRUE)
\*
\*=============================================================================
\*

---- MODULE PlanState_MC_TETrace ----
EXTENDS TLC, PlanState_MC

trace == 
    <<
    ([st |-> [slots |-> {}, plan |-> <<>>, limiters |-> {}, choice |-> [p1 |-> "-", p2 |-> "-", p3 |-> "-", p4 |-> "-"], rev |-> (<<"c1", "b1">> :> 0 @@ <<"c1", "b2">> :> 0 @@ <<"c2", "b1">> :> 0 @@ <<"c2", "b2">> :> 0), refcnt |-> [b1 |-> 0, b2 |-> 0], vdb |-> {}, forced |-> [r1 |-> 0]]]),
    ([st |-> [slots |-> {"p1"}, plan |-> <<[p |-> "p1", b |-> "-", c |-> "c1", t |-> "add", force |-> FALSE, old |-> "-", oldc |-> "-", fold |-> FALSE]>>, limiters |-> {}, choice |-> [p1 |-> "c1", p2 |-> "-", p3 |-> "-", p4 |-> "-"], rev |-> (<<"c1", "b1">> :> 0 @@ <<"c1", "b2">> :> 0 @@ <<"c2", "b1">> :> 0 @@ <<"c2", "b2">> :> 0), refcnt |-> [b1 |-> 0, b2 |-> 0], vdb |-> {}, forced |-> [r1 |-> 0]]]),
    ([st |-> [slots |-> {}, plan |-> <<[p |-> "p1", b |-> "-", c |-> "c1", t |-> "add", force |-> FALSE, old |-> "-", oldc |-> "-", fold |-> FALSE], [p |-> "p1", b |-> "-", c |-> "c1", t |-> "remove", force |-> FALSE, old |-> "-", oldc |-> "-", fold |-> FALSE]>>, limiters |-> {}, choice |-> [p1 |-> "-", p2 |-> "-", p3 |-> "-", p4 |-> "-"], rev |-> (<<"c1", "b1">> :> 0 @@ <<"c1", "b2">> :> 0 @@ <<"c2", "b1">> :> 0 @@ <<"c2", "b2">> :> 0), refcnt |-> [b1 |-> 0, b2 |-> 0], vdb |-> {"p1"}, forced |-> [r1 |-> 0]]]),
    ([st |-> [slots |-> {"p1"}, plan |-> <<[p |-> "p1", b |-> "-", c |-> "c1", t |-> "add", force |-> FALSE, old |-> "-", oldc |-> "-", fold |-> FALSE], [p |-> "p1", b |-> "-", c |-> "c1", t |-> "remove", force |-> FALSE, old |-> "-", oldc |-> "-", fold |-> FALSE], [p |-> "p1", b |-> "-", c |-> "c1", t |-> "add", force |-> FALSE, old |-> "-", oldc |-> "-", fold |-> FALSE]>>, limiters |-> {}, choice |-> [p1 |-> "c1", p2 |-> "-", p3 |-> "-", p4 |-> "-"], rev |-> (<<"c1", "b1">> :> 0 @@ <<"c1", "b2">> :> 0 @@ <<"c2", "b1">> :> 0 @@ <<"c2", "b2">> :> 0), refcnt |-> [b1 |-> 0, b2 |-> 0], vdb |-> {"p1"}, forced |-> [r1 |-> 0]]]),
    ([st |-> [slots |-> {}, plan |-> <<[p |-> "p1", b |-> "-", c |-> "c1", t |-> "add", force |-> FALSE, old |-> "-", oldc |-> "-", fold |-> FALSE], [p |-> "p1", b |-> "-", c |-> "c1", t |-> "remove", force |-> FALSE, old |-> "-", oldc |-> "-", fold |-> FALSE], [p |-> "p1", b |-> "-", c |-> "c1", t |-> "add", force |-> FALSE, old |-> "-", oldc |-> "-", fold |-> FALSE], [p |-> "p1", b |-> "-", c |-> "c1", t |-> "remove", force |-> FALSE, old |-> "-", oldc |-> "-", fold |-> FALSE]>>, limiters |-> {}, choice |-> [p1 |-> "-", p2 |-> "-", p3 |-> "-", p4 |-> "-"], rev |-> (<<"c1", "b1">> :> 0 @@ <<"c1", "b2">> :> 0 @@ <<"c2", "b1">> :> 0 @@ <<"c2", "b2">> :> 0), refcnt |-> [b1 |-> 0, b2 |-> 0], vdb |-> {"p1"}, forced |-> [r1 |-> 0]]]),
    ([st |-> [slots |-> {}, plan |-> <<[p |-> "p1", b |-> "-", c |-> "c1", t |-> "add", force |-> FALSE, old |-> "-", oldc |-> "-", fold |-> FALSE], [p |-> "p1", b |-> "-", c |-> "c1", t |-> "remove", force |-> FALSE, old |-> "-", oldc |-> "-", fold |-> FALSE]>>, limiters |-> {}, choice |-> [p1 |-> "-", p2 |-> "-", p3 |-> "-", p4 |-> "-"], rev |-> (<<"c1", "b1">> :> 0 @@ <<"c1", "b2">> :> 0 @@ <<"c2", "b1">> :> 0 @@ <<"c2", "b2">> :> 0), refcnt |-> [b1 |-> 0, b2 |-> 0], vdb |-> {}, forced |-> [r1 |-> 0]]])
    >>
----


=============================================================================

---- CONFIG PlanState_MC_TTrace_1790034190 ----
CONSTANTS
    MaxPlan = 4
    Pkgs <- MCPkgs
    Choices <- MCChoices
    Blockers <- MCBlockers
    Restrs <- MCRestrs
    KeyOf <- MCKeyOf
    SlotOf <- MCSlotOf
    BKeyOf <- MCBKeyOf
    Blocks <- MCBlocks

INVARIANT
    _inv

CHECK_DEADLOCK
    \* CHECK_DEADLOCK off because of PROPERTY or INVARIANT above.
    FALSE

INIT
    _init

NEXT
    _next

CONSTANT
    _TETrace <- _trace

ALIAS
    _expression
=============================================================================
\* Generated on Mon Sep 21 23:43:18 UTC 2026