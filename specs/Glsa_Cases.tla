---------------------------- MODULE Glsa_Cases ----------------------------
(* Bounded pools shared by Glsa_MC (laws) and Glsa_Export (spec -> code). *)
EXTENDS Glsa
CONSTANT Size       \* 1 quick, 2 thorough
D(n) == <<n>>
S(k, n) == [k |-> k, n |-> n]
v1     == MkVer(<<D("1")>>, "", <<>>, <<>>)
v12    == MkVer(<<D("1"), D("2")>>, "", <<>>, <<>>)
v12r1  == MkVer(<<D("1"), D("2")>>, "", <<>>, D("1"))
v12r2  == MkVer(<<D("1"), D("2")>>, "", <<>>, D("2"))
v12r3  == MkVer(<<D("1"), D("2")>>, "", <<>>, D("3"))
v120   == MkVer(<<D("1"), <<"2", "0">>>>, "", <<>>, <<>>)
v123   == MkVer(<<D("1"), D("2"), D("3")>>, "", <<>>, <<>>)
v12al  == MkVer(<<D("1"), D("2")>>, "", <<S("alpha", <<>>)>>, <<>>)
v12p1  == MkVer(<<D("1"), D("2")>>, "", <<S("p", D("1"))>>, <<>>)
v12a   == MkVer(<<D("1"), D("2")>>, "a", <<>>, <<>>)
v13r1  == MkVer(<<D("1"), D("3")>>, "", <<>>, D("1"))
v2     == MkVer(<<D("2")>>, "", <<>>, <<>>)

PkgVers == IF Size = 1 THEN {v1, v12, v12r1, v12r2, v120, v123, v12al, v13r1}
           ELSE {v1, v12, v12r1, v12r2, v12r3, v120, v123, v12al, v12p1, v12a, v13r1, v2}
Pkg(n, v, s, kw) == [name |-> n, ver |-> v, slot |-> s, keywords |-> kw]
Pool == {Pkg("c/p", v, s, kw) : v \in PkgVers, s \in {"0", "1"}, kw \in {{"x86"}, {"amd64", "~arm"}}}
        \cup {Pkg("c/q", v12, "0", {"x86"})}

Rg(op, v, g, s) == [op |-> op, ver |-> v, glob |-> g, slot |-> s]
RangeVers == IF Size = 1 THEN {v12, v12r2} ELSE {v12, v12r1, v12r2, v13r1}
RangePool == {Rg(op, v, FALSE, s) : op \in RangeOps, v \in RangeVers, s \in {"", "1"}}
             \cup {Rg("eq", v, TRUE, s) : v \in {v1, v12} \cup (IF Size = 1 THEN {} ELSE {v12r1}), s \in {"", "1"}}
Entry(n, ar, vu, un) == [name |-> n, arches |-> ar, vuln |-> vu, unaff |-> un]
ArchSets == {{}, {"*"}, {"x86"}, {"arm", "amd64"}, {"sparc"}}
\* second ranges of the pairs (a sub-pool in the quick tier)
PairPool == IF Size = 1 THEN {r \in RangePool : r.ver \in {v12, v1} /\ (r.slot = "" \/ r.op \in {"ge", "rge", "eq"})}
            ELSE RangePool
Entries == {Entry("c/p", {}, <<r>>, <<>>) : r \in RangePool}
           \cup {Entry("c/p", {}, <<r>>, <<u>>) : r \in PairPool, u \in PairPool}
           \cup {Entry("c/p", {}, <<r, r2>>, <<>>) : r \in PairPool, r2 \in {Rg("rge", v12r2, FALSE, "1"), Rg("eq", v1, TRUE, "")}}
           \cup {Entry("c/p", ar, <<r>>, <<>>) : ar \in ArchSets, r \in {Rg("ge", v12, FALSE, ""), Rg("eq", v12, TRUE, "1")}}
           \cup {Entry("c/q", {}, <<Rg("ge", v1, FALSE, "")>>, <<>>), Entry("c/p", {}, <<>>, <<Rg("ge", v1, FALSE, "")>>)}
=========================================================================
