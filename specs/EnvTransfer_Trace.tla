---------------------------- MODULE EnvTransfer_Trace ----------------------------
(* Judge of what the REAL daemon did (C31).  Events, one transfer = one tid:
   i = 0   {ev:"transfer", mode, unit, hasdecl, declared, payload:[bytes as written to the pipe /
            the file], dlg:[{d,t}] = the processor hook's protocol lines projected to tokens,
            probed: the probe inside the daemon ran,
            marker:{present, names} = the PKGCORE_NONEXPORTED_VARS entry of THIS mapping}
   i >= 1  {ev:"var", name, sent:{present,kind,val,elems}, obs:{state,val,elems,idx,exported}}
            texts are byte sequences; obs is what bash itself reported inside the daemon's shell;
            the expected export flag is derived here from the marker of the transfer event the
            variable belongs to (the last transfer event read), never from earlier transfers
   and, independent of the daemon, the binding of the bash word model:
           {ev:"word", w:[chars], ok, val:[chars]}   what the real bash made of the word        *)
EXTENDS EnvTransfer, EnvTransfer_Quote, TraceLib
VARIABLES l, hdr

JudgeTransfer(e) ==
    (IF e.hasdecl /\ ~FramingOK(e.declared, e.payload, e.unit) THEN {"Framing"} ELSE {})
    \cup (IF Acknowledged(e.mode, e.dlg) THEN {} ELSE {"TransferAcknowledged"})
    \cup (IF DialogueOK(e.mode, e.dlg) THEN {} ELSE {"NextRequestAnswered"})
    \cup (IF e.probed THEN {} ELSE {"ShellObserved"})
JudgeVar(e) == ArrivalClauses([present |-> e.sent.present, kind |-> e.sent.kind, val |-> e.sent.val, elems |-> e.sent.elems,
                               exported |-> ExpectedExported(hdr.marker, e.name)], e.obs)
JudgeWord(e) == LET m == Word(e.w) IN
    IF m.ok /\ (~e.ok \/ e.val # m.val) THEN {"BashModel"} ELSE {}
Judge(e) == CASE e.ev = "transfer" -> JudgeTransfer(e)
              [] e.ev = "var"      -> JudgeVar(e)
              [] e.ev = "word"     -> JudgeWord(e)
              [] OTHER             -> {"UnknownEvent"}
NoHdr == [marker |-> [present |-> FALSE, names |-> <<>>]]
TraceInit == l = 0 /\ hdr = NoHdr
TraceNext == /\ l < Len(Tr)
             /\ l' = l + 1
             /\ hdr' = IF Tr[l'].ev = "transfer" THEN [marker |-> Tr[l'].marker] ELSE hdr
             /\ Report(Tr[l'].tid, Tr[l'].i, Judge(Tr[l']))
             /\ EndMark(l')
TraceSpec == TraceInit /\ [][TraceNext]_<<l, hdr>>
=============================================================================
