---------------------------- MODULE EnvTransfer_Trace ----------------------------
(* Judge of what the REAL daemon did (C31).  Events, one transfer = one tid:
   i = 0   {ev:"transfer", mode, unit, hasdecl, declared, payload:[bytes as written to the pipe /
            the file], dlg:[{d,t}] = the processor hook's protocol lines projected to tokens,
            probed: the probe inside the daemon ran}
   i >= 1  {ev:"var", name, sent:{present,kind,val,elems,exported}, obs:{state,val,elems,idx,exported}}
            texts are byte sequences; obs is what bash itself reported inside the daemon's shell
   and, independent of the daemon, the binding of the bash word model:
           {ev:"word", w:[chars], ok, val:[chars]}   what the real bash made of the word        *)
EXTENDS EnvTransfer, EnvTransfer_Quote, TraceLib
VARIABLE l

JudgeTransfer(e) ==
    (IF e.hasdecl /\ ~FramingOK(e.declared, e.payload, e.unit) THEN {"Framing"} ELSE {})
    \cup (IF Acknowledged(e.mode, e.dlg) THEN {} ELSE {"TransferAcknowledged"})
    \cup (IF DialogueOK(e.mode, e.dlg) THEN {} ELSE {"NextRequestAnswered"})
    \cup (IF e.probed THEN {} ELSE {"ShellObserved"})
JudgeVar(e) == ArrivalClauses(e.sent, e.obs)
JudgeWord(e) == LET m == Word(e.w) IN
    IF m.ok /\ (~e.ok \/ e.val # m.val) THEN {"BashModel"} ELSE {}
Judge(e) == CASE e.ev = "transfer" -> JudgeTransfer(e)
              [] e.ev = "var"      -> JudgeVar(e)
              [] e.ev = "word"     -> JudgeWord(e)
              [] OTHER             -> {"UnknownEvent"}
TraceInit == l = 0
TraceNext == /\ l < Len(Tr)
             /\ l' = l + 1
             /\ Report(Tr[l'].tid, Tr[l'].i, Judge(Tr[l']))
             /\ EndMark(l')
TraceSpec == TraceInit /\ [][TraceNext]_l
=============================================================================
