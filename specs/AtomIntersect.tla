---------------------------- MODULE AtomIntersect ----------------------------
(* C05: two atoms intersect iff some package matches both (Matches of AtomMatch.tla).

   The package space is infinite; the witness search is factored (the parts of Matches
   constrain independent fields of the package) and, for the version, restricted to the
   finite set Cands(a, b) of versions built from the two atoms' own versions - "a package
   matching both can be constructed from their versions".  AtomIntersect_MC checks that the
   factored form equals the direct definition and that Cands is complete w.r.t. a much
   larger version grammar (density lemma).

   Intersects3(a, b) is three valued:
     "T"  a witness exists that both atoms definitely match       -> must be reported
     "F"  no candidate is even possibly matched by both           -> must not be reported
     "U"  only witnesses through an "Unspecified" match exist     -> not judged            *)
EXTENDS AtomMatch

(* ---- candidate witness versions ---- *)
AppendSuf(v, k) == [nums |-> v.nums, letter |-> v.letter, sufs |-> Append(v.sufs, [k |-> k, n |-> <<>>]), rev |-> <<>>]
AppendNum(v, d) == [nums |-> Append(v.nums, d), letter |-> 0, sufs |-> <<>>, rev |-> <<>>]
\* v itself, without / with the next revision (the least version above v), just above every
\* revision of v (v_p), just below v (v_alpha), and one component deeper (v.0, v.1)
Around(v) == {v, NoRev(v), [v EXCEPT !.rev = DigInc(v.rev)], AppendSuf(v, "p"), AppendSuf(v, "alpha"),
              AppendNum(v, <<0>>), AppendNum(v, <<1>>)}
AnyVer == [nums |-> <<<<1>>>>, letter |-> 0, sufs |-> <<>>, rev |-> <<>>]
Cands(a, b) == IF a.op = "" /\ b.op = "" THEN {AnyVer}
               ELSE (IF a.op # "" THEN Around(a.ver) ELSE {}) \cup (IF b.op # "" THEN Around(b.ver) ELSE {})
VerOn(a, v) == VerPart(a, [ver |-> v])
VerT(a, b) == \E v \in Cands(a, b) : VerOn(a, v) = "T" /\ VerOn(b, v) = "T"
VerP(a, b) == \E v \in Cands(a, b) : VerOn(a, v) # "F" /\ VerOn(b, v) # "F"

(* ---- slot / sub-slot / repository: one value must satisfy both ---- *)
Agree(x, y) == x = "" \/ y = "" \/ x = y

(* ---- USE: per flag, one of the three states a package can be in must satisfy every dependency ---- *)
FlagStates == {"absent", "off", "on"}
DepAt(d, s) == IF s # "absent" THEN B3((s = "on") = ~d.neg)
               ELSE IF d.dflt = "+" THEN B3(~d.neg) ELSE IF d.dflt = "-" THEN B3(d.neg) ELSE "U"
DepsOn(a, b, f) == {d \in a.deps \cup b.deps : d.flag = f}
FlagsOf(a, b) == {d.flag : d \in a.deps \cup b.deps}
UseT(a, b) == \A f \in FlagsOf(a, b) : \E s \in FlagStates : \A d \in DepsOn(a, b, f) : DepAt(d, s) = "T"
UseP(a, b) == \A f \in FlagsOf(a, b) : \E s \in FlagStates : \A d \in DepsOn(a, b, f) : DepAt(d, s) # "F"

SameKey(a, b) == a.cat = b.cat /\ a.pkg = b.pkg
Definitely(a, b) == SameKey(a, b) /\ VerT(a, b) /\ Agree(a.slot, b.slot) /\ Agree(a.subslot, b.subslot)
                    /\ Agree(a.repo, b.repo) /\ UseT(a, b)
\* the parts that admit no witness at all
Impossible(a, b) == (IF SameKey(a, b) THEN {} ELSE {"key"})
                    \cup (IF VerP(a, b) THEN {} ELSE {"version"})
                    \cup (IF Agree(a.slot, b.slot) THEN {} ELSE {"slot"})
                    \cup (IF Agree(a.subslot, b.subslot) THEN {} ELSE {"subslot"})
                    \cup (IF Agree(a.repo, b.repo) THEN {} ELSE {"repo"})
                    \cup (IF UseP(a, b) THEN {} ELSE {"use"})
Intersects3(a, b) == IF Definitely(a, b) THEN "T" ELSE IF Impossible(a, b) # {} THEN "F" ELSE "U"
IPartOrder == <<"key", "version", "slot", "subslot", "repo", "use">>
FirstImpossible(a, b) == LET bad == {k \in 1..6 : IPartOrder[k] \in Impossible(a, b)} IN IPartOrder[AvLeast(bad)]
=========================================================================
