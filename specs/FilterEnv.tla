---------------------------- MODULE FilterEnv ----------------------------
(* C34 -- saved-environment filtering removes exactly the named definitions.

   Definition level.  A dump is a sequence of definitions
        d = [kind \in {"var","func"}, name, body]
   (body = identity of the value / of the function text as bash itself reports it).
   A filter configuration is
        cfg = [vnames, fnames (sets of names = literal alternation patterns),
               vwhite, fwhite (whitelist mode per kind)]
   Names of one kind select definitions of that kind only.  No pattern for a kind means that
   kind is left alone.  Whitelist mode with no pattern is Unspecified (the property speaks of
   "the non-matching ones", the command line cannot even express it) and never generated.

   Filter(defs, cfg) keeps the other definitions, in order, bodies untouched; sourcing the
   result therefore defines exactly SourceEnv(Filter(defs, cfg)).                          *)
EXTENDS Naturals, Sequences, FiniteSets

Kinds == {"var", "func"}
NamesOf(cfg, k) == IF k = "var" THEN cfg.vnames ELSE cfg.fnames
WhiteOf(cfg, k) == IF k = "var" THEN cfg.vwhite ELSE cfg.fwhite
Specified(cfg) == \A k \in Kinds : WhiteOf(cfg, k) => NamesOf(cfg, k) # {}

Matches(d, cfg) == d.name \in NamesOf(cfg, d.kind)
Removed(d, cfg) ==
    IF NamesOf(cfg, d.kind) = {} THEN FALSE
    ELSE IF WhiteOf(cfg, d.kind) THEN ~Matches(d, cfg) ELSE Matches(d, cfg)

RECURSIVE Filter(_, _)
Filter(defs, cfg) ==
    IF defs = <<>> THEN <<>>
    ELSE IF Removed(Head(defs), cfg) THEN Filter(Tail(defs), cfg)
    ELSE <<Head(defs)>> \o Filter(Tail(defs), cfg)
RemovedPart(defs, cfg) == Filter(defs, [cfg EXCEPT !.vwhite = ~cfg.vwhite, !.fwhite = ~cfg.fwhite])

\* what a shell holds after sourcing a dump: per (kind, name) the body of the LAST definition
Keys(defs) == {<<defs[k].kind, defs[k].name>> : k \in DOMAIN defs}
LastIdx(defs, key) == LET hits == {k \in DOMAIN defs : <<defs[k].kind, defs[k].name>> = key} IN
                      CHOOSE k \in hits : \A j \in hits : j <= k
SourceEnv(defs) == [key \in Keys(defs) |-> defs[LastIdx(defs, key)].body]

(* Judgement of one observed run.
   after : definitions found in a fresh bash after sourcing the filtered text (name universe =
           the input's names), as a set of [kind, name, body]
   Clauses:  RemovedStillDefined, KeptMissing, KeptBodyChanged                              *)
ExpectedEnv(defs, cfg) == SourceEnv(Filter(defs, cfg))
AfterEnvClauses(defs, cfg, after) ==
    LET want == ExpectedEnv(defs, cfg)
        got  == [key \in {<<a.kind, a.name>> : a \in after} |->
                    (CHOOSE a \in after : <<a.kind, a.name>> = key).body] IN
    (IF \E key \in DOMAIN got : key \notin DOMAIN want THEN {"RemovedStillDefined"} ELSE {})
    \cup (IF \E key \in DOMAIN want : key \notin DOMAIN got THEN {"KeptMissing"} ELSE {})
    \cup (IF \E key \in DOMAIN want \cap DOMAIN got : want[key] # got[key] THEN {"KeptBodyChanged"} ELSE {})

\* text level: the output, cut into the input's definition chunks, is the kept subsequence
KeptIndices(defs, cfg) == SelectSeq([k \in DOMAIN defs |-> k], LAMBDA k : ~Removed(defs[k], cfg))
=============================================================================
