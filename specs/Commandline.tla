---------------------------- MODULE Commandline ----------------------------
(* G08 -- the command line framework of pkgcore as a state machine:
   pkgcore.util.commandline.{ArgumentParser, Tool, StoreConfigObject, _ConfigArg, _SubParser, store_config}
   on top of snakeoil.cli.arghparse.ArgumentParser / snakeoil.cli.tool.Tool.

   One run of `Tool(parser)(argv)` is a walk through the stages below; every hook invocation is one
   step (StepM), the namespace is an ORDERED list of entries (order decides ties of equal priority
   and the order of final checks), the Tool keeps its namespace and the parsers keep "pre-parse
   done" across calls (record st).

     toolpre  Tool.pre_parse: PKGCORE_DEBUG=<verbosity> is exported iff the parser was built in debug mode
     pre      reset-default hooks (every call), then pre-parse hooks (first call of that parser object
              only), own bindings only
     fill     option defaults in option order, then parser defaults in binding order (inherited
              `parents=` first, then `config`, then own).  An attribute that is present WINS (this is why
              a subcommand cannot override a binding of the same name of the root, and why a Tool that is
              called again does not evaluate its defaults again).  Looking at a present attribute that is
              still pending collapses it on the spot (Namespace.__getattribute__): action Premature -- so a
              delayed default that shares its name with an option of the same parser (the usual
              "explicit wins" pattern) is evaluated before the command line has been read.
     early    early-parse hooks: those of inherited parsers first, then own
     opts     --config (kept as config_path: "no" = stub configuration, a missing path is a usage error),
              --domain NAME (deferred: DelayedParse at priority 20), plain stores; then the four stages
              of the selected subcommand (subcommands have neither --config nor --domain)
     bind     the subcommand's main function replaces the root's; unrecognised arguments are a usage error
     wipes    DelayedDefault.wipe entries by priority
     delayed  snapshot of the pending entries sorted by priority (stable: namespace order), one by one:
              bind_delayed_default -> runs only if its attribute is still pending (Guarded), sets it
              raw DelayedValue     -> runs, sets it             bind_parse_priority -> runs, attribute deleted
              config               -> load_config(location = config_path)          (priority 0)
              domain default / --domain -> looked up in the configuration           (priority 20)
              a hook that reads a pending attribute collapses it first (so it sees its value)
     finals   final checks in namespace order, each removed from the namespace, handed the ROOT parser
     main     main function removed from the namespace; without one: RuntimeError; its result is the status

   Failure: the stage decides what an exception becomes (Outcome): ArgumentError is a usage error
   (status 2, "prog: error:" line, traceback only with --debug) inside pre / early / opts / subcommand
   stages and the delayed pass, but escapes from root fill, final checks and the main function;
   ValueError/TypeError become TypeError in the delayed pass only; a UserException is a usage error
   unless --debug (then it propagates); SystemExit(n) is status n.  Nothing runs after a failure.

   Properties (checked by Commandline_MC on every reachable state / step, and clause by clause on
   recorded runs by Commandline_Trace):
     AtMostOnce     no hook body runs twice in one call (bind_parse_priority entries re-armed after a failed call excepted)
     ExplicitWins   an attribute given on the command line holds the given value when main runs, and its
                    default is not evaluated after the command line was read -- unless a reset hook / wipe of
                    a parser taking part in the call removes that attribute (a subcommand's reset hook runs
                    AFTER the root's options were stored: it discards them and the default applies again)
     PriorityOrder  top-level evaluations of the delayed pass happen in non-decreasing priority
     OnlyAfter      when a hook body runs in the delayed pass nothing of lower priority is still pending
     StageOrder     reset < pre < early (inherited < own) < parsed < delayed < finals < main
     FinalsPopped   when main runs no final check and no snapshot member is left in the namespace
     PreOnce        a pre-parse hook runs at most once per parser object, reset hooks on every call
     ConfigOnce     the configuration is loaded at most once per call and never when one is present
     FailStops      after a failure no hook runs and the log does not change
     Cached         in a later call of the same Tool a default is evaluated only if a reset hook / wipe
                    removed the attribute or an earlier call failed before evaluating it               *)
EXTENDS Naturals, Sequences, FiniteSets, TLC

CONSTANTS Uni,             \* [cfg, dom, debug, domains, defdom, parsers]
          GuardedDefault,  \* TRUE = as coded: bind_delayed_default checks that its attribute is still pending
          ConfigFirst,     \* TRUE = as coded: the config default has priority 0 (below the domain's 20)
          PreWiped         \* TRUE = as coded: pre-parse hooks are dropped once they ran

SeqSet(s) == {s[i] : i \in DOMAIN s}
RECURSIVE Cat(_)
Cat(ss) == IF ss = <<>> THEN <<>> ELSE Head(ss) \o Cat(Tail(ss))
Map1(Op(_), s) == [i \in DOMAIN s |-> Op(s[i])]

Par(n) == Uni.parsers[CHOOSE i \in DOMAIN Uni.parsers : Uni.parsers[i].name = n]
SubNames == {Uni.parsers[i].name : i \in {j \in DOMAIN Uni.parsers : Uni.parsers[j].sub}}
HookRec(pn, h) == [id |-> pn \o "." \o h.n, k |-> h.k, n |-> h.n, prio |-> h.prio, reads |-> h.reads,
                   dels |-> h.dels, par |-> pn]
Builtin(id, k, n, prio) == [id |-> id, k |-> k, n |-> n, prio |-> prio, reads |-> <<>>, dels |-> <<>>, par |-> "root"]
AllHooks == TLCEval({Builtin("config", "cfg", "config", IF ConfigFirst THEN 0 ELSE 30),
                     Builtin("domdef", "domdef", "domain", 20), Builtin("domparse", "domparse", "domain", 20)}
              \cup UNION {{HookRec(Uni.parsers[i].name, Uni.parsers[i].binds[j]) : j \in DOMAIN Uni.parsers[i].binds}
                          : i \in DOMAIN Uni.parsers})
HK(id) == CHOOSE h \in AllHooks : h.id = id
IsHook(id) == \E h \in AllHooks : h.id = id
DefaultKinds == {"delayed", "raw", "ordered", "wipe", "final", "main"}
PendKinds == {"delayed", "raw", "ordered", "wipe", "cfg", "domdef", "domparse"}

\* hooks of one parser of the given kinds, in binding order
Own(pn, kinds) == LET p == Par(pn) IN
                  Map1(LAMBDA h : HookRec(pn, h), SelectSeq(p.binds, LAMBDA h : h.k \in kinds))
WithInh(pn, kinds) == Cat(Map1(LAMBDA q : Own(q, kinds), Par(pn).inh)) \o Own(pn, kinds)

\* ---- namespace: ordered entries [a, k, v, h];  k: "val" plain, "dly" pending, "fin" final check, "main"
E(a, k, v, h) == [a |-> a, k |-> k, v |-> v, h |-> h]
Has(ns, a) == \E i \in DOMAIN ns : ns[i].a = a
Idx(ns, a) == CHOOSE i \in DOMAIN ns : ns[i].a = a
Get(ns, a) == ns[Idx(ns, a)]
Put(ns, e) == IF Has(ns, e.a) THEN [ns EXCEPT ![Idx(ns, e.a)] = e] ELSE Append(ns, e)
Del(ns, a) == SelectSeq(ns, LAMBDA e : e.a # a)
Pending(ns, a) == Has(ns, a) /\ Get(ns, a).k = "dly"
Shown(ns, a) == IF ~Has(ns, a) THEN "<missing>" ELSE
                LET e == Get(ns, a) IN IF e.k = "val" THEN e.v ELSE IF e.k = "dly" THEN "<delayed>" ELSE "<function>"

DefaultEntry(h) == CASE h.k = "final" -> E("__final_check__" \o h.n, "fin", "-", h.id)
                     [] h.k = "main"  -> E("main_func", "main", "-", h.id)
                     [] OTHER         -> E(h.n, "dly", "-", h.id)
\* parser defaults in the order of ArgumentParser._defaults
DefaultsOf(pn) == Map1(DefaultEntry, Cat(Map1(LAMBDA q : Own(q, DefaultKinds), Par(pn).inh)))
                  \o (IF pn = "root" /\ Uni.cfg THEN <<E("config", "dly", "-", "config")>> ELSE <<>>)
                  \o Map1(DefaultEntry, Own(pn, DefaultKinds))
\* default of option `o` added to parser q: the parser default of that name if there is one, else None
OptDefault(q, o) == LET ds == DefaultsOf(q) IN IF Has(ds, o) THEN Get(ds, o) ELSE E(o, "val", "<none>", "-")
OptsOf(pn) == Cat(Map1(LAMBDA q : Map1(LAMBDA o : OptDefault(q, o), Par(q).opts), Par(pn).inh))
              \o (IF pn = "root" /\ Uni.cfg THEN <<E("config_path", "val", "-", "-")>> ELSE <<>>)
              \o (IF pn = "root" /\ Uni.dom THEN <<E("domain", "dly", "-", "domdef")>> ELSE <<>>)
              \o Map1(LAMBDA o : OptDefault(pn, o), Par(pn).opts)

\* ---- the machine of one call
NoFault == [h |-> "-", kind |-> "-"]
Fail(m, kind) == [m EXCEPT !.fail = kind, !.fctx = m.ctx]
Ok(m) == m.fail = ""
Emit(m, hid, saw, p) == [m EXCEPT !.log = Append(m.log, [h |-> hid, saw |-> saw, p |-> p, d |-> m.depth])]
RECURSIVE JoinC(_)
JoinC(s) == IF s = <<>> THEN "" ELSE IF Len(s) = 1 THEN s[1] ELSE s[1] \o "," \o JoinC(Tail(s))
Val(hid, saw) == hid \o "<" \o JoinC(saw) \o ">"
PassedParser(h) == IF h.k \in {"reset", "pre", "early"} THEN h.par ELSE IF h.k = "final" THEN "root" ELSE "-"

RECURSIVE Collapse(_, _), Invoke(_, _, _), Body(_, _), ReadSeq(_, _, _)
\* Namespace.__getattribute__ on a pending entry: its DelayedValue is called with (namespace, attr)
Collapse(m, a) == IF Ok(m) /\ Pending(m.ns, a) THEN Invoke(m, Get(m.ns, a), a) ELSE m
ReadSeq(m, reads, acc) ==
    IF reads = <<>> \/ ~Ok(m) THEN [m EXCEPT !.saw = acc]
    ELSE LET m1 == Collapse(m, Head(reads)) IN
         IF ~Ok(m1) THEN m1 ELSE ReadSeq(m1, Tail(reads), Append(acc, Shown(m1.ns, Head(reads))))
\* a recording hook: read (one level deeper), log, fail if it is the call's faulty hook
Body(m, h) ==
    LET r == ReadSeq([m EXCEPT !.depth = m.depth + 1], h.reads, <<>>) IN
    IF ~Ok(r) THEN [r EXCEPT !.depth = m.depth]
    ELSE LET l == Emit([r EXCEPT !.depth = m.depth], h.id, r.saw, PassedParser(h)) IN
         IF m.fault.h = h.id THEN Fail(l, m.fault.kind) ELSE l
DelAll(ns, attrs) == SelectSeq(ns, LAMBDA e : e.a \notin SeqSet(attrs))
\* e is the entry whose DelayedValue object is being called (the snapshot's, not necessarily the current one)
Invoke(m, e, a) ==
    LET h == HK(e.h) IN
    CASE h.k = "delayed" ->
           IF GuardedDefault /\ ~Pending(m.ns, a) THEN m
           ELSE LET b == Body(m, h) IN IF Ok(b) THEN [b EXCEPT !.ns = Put(b.ns, E(a, "val", Val(h.id, b.saw), "-"))] ELSE b
      [] h.k = "raw" ->
           LET b == Body(m, h) IN IF Ok(b) THEN [b EXCEPT !.ns = Put(b.ns, E(a, "val", Val(h.id, b.saw), "-"))] ELSE b
      [] h.k = "ordered" -> LET b == Body(m, h) IN IF Ok(b) THEN [b EXCEPT !.ns = Del(b.ns, a)] ELSE b
      [] h.k = "wipe" -> [m EXCEPT !.ns = Del(DelAll(m.ns, h.dels), a)]
      [] h.k = "cfg" ->      \* store_config: load_config(location = namespace.config_path)
           LET loc == Shown(m.ns, "config_path")
               l == Emit(m, "config", <<loc>>, "-") IN
           [l EXCEPT !.ns = Put(l.ns, E(a, "val", "CFG:" \o loc, "-"))]
      [] h.k \in {"domdef", "domparse"} ->   \* StoreConfigObject.store_default / _real_call: need the configuration first
           LET c == Collapse(m, "config")
               want == IF h.k = "domdef" THEN Uni.defdom ELSE e.v IN
           IF ~Ok(c) THEN c
           ELSE IF want \in SeqSet(Uni.domains) THEN [c EXCEPT !.ns = Put(c.ns, E(a, "val", "DOM:" \o want, "-"))]
           ELSE Fail(c, "argerr")

\* ---- stages; x = [m, pc, q] where q is the work list of the stage (hooks / entries still to do)
Stage(m, pc, q) == [m |-> m, pc |-> pc, q |-> q]
Ctx(m, c) == [m EXCEPT !.ctx = c]
HasSubs == SubNames # {}
PreList(m, pn) == Own(pn, {"reset"}) \o (IF PreWiped /\ pn \in m.pre THEN <<>> ELSE Own(pn, {"pre"}))
FillList(pn) == OptsOf(pn) \o DefaultsOf(pn)
\* hasattr(namespace, dest): a pending entry is collapsed by the look; what is (still) there wins
FillOne(m, e) == IF ~Has(m.ns, e.a) THEN [m EXCEPT !.ns = Append(m.ns, e)]
                 ELSE LET c == Collapse(m, e.a) IN
                      IF Ok(c) /\ ~Has(c.ns, e.a) THEN [c EXCEPT !.ns = Append(c.ns, e)] ELSE c
RECURSIVE PutAll(_, _)
PutAll(ns, opts) == IF opts = <<>> THEN ns ELSE PutAll(Put(ns, E(opts[1][1], "val", opts[1][2], "-")), Tail(opts))
RootOpts(m, c) ==
    LET m1 == IF c.cfgarg = "missing" THEN Fail(m, "argerr")
              ELSE IF c.cfgarg \in {"no", "file"}
                   THEN [m EXCEPT !.ns = Put(m.ns, E("config_path", "val", IF c.cfgarg = "no" THEN "stub" ELSE "file", "-"))]
              ELSE m
        m2 == IF Ok(m1) /\ c.dom # "-" /\ ~c.subdom
              THEN [m1 EXCEPT !.ns = Put(m1.ns, E("domain", "dly", c.dom, "domparse"))] ELSE m1
        m3 == IF Ok(m2) THEN [m2 EXCEPT !.ns = PutAll(m2.ns, c.ropts)] ELSE m2 IN
    IF Ok(m3) /\ c.sub = "-" /\ HasSubs THEN Fail(Ctx(m3, "plain"), "argerr") ELSE m3   \* the subcommand is required (plain usage error)
SubOpts(m, c) == [m EXCEPT !.ns = PutAll(m.ns, c.sopts), !.unknown = (c.dom # "-" /\ c.subdom)]
\* stable sort of pending entries by priority
PrioOf(e) == HK(e.h).prio
RECURSIVE InsertP(_, _), SortP(_)
InsertP(s, e) == IF s = <<>> THEN <<e>> ELSE IF PrioOf(e) < PrioOf(s[1]) THEN <<e>> \o s ELSE <<s[1]>> \o InsertP(Tail(s), e)
SortP(s) == IF s = <<>> THEN <<>> ELSE InsertP(SortP(SubSeq(s, 1, Len(s) - 1)), s[Len(s)])
WipeQueue(ns) == SortP(SelectSeq(ns, LAMBDA e : e.k = "dly" /\ HK(e.h).k = "wipe"))
DelayQueue(ns) == SortP(SelectSeq(ns, LAMBDA e : e.k = "dly"))
FinalQueue(ns) == SelectSeq(ns, LAMBDA e : e.k = "fin")

StartM(st, c) == [ns |-> IF st.opt.has THEN st.opt.ns ELSE <<>>, log |-> <<>>, fail |-> "", fctx |-> "", ctx |-> "try",
                  depth |-> 0, saw |-> <<>>, fault |-> [h |-> c.fh, kind |-> c.fk], pre |-> st.pre, unknown |-> FALSE,
                  parsed |-> FALSE, pdone |-> FALSE, snap |-> <<>>]
Start(st, c) == Stage(StartM(st, c), "pre:root", PreList(StartM(st, c), "root"))

\* hook of a pre / early / final list
RunHook(m, h) == LET b == Body(m, h) IN
                 IF Ok(b) /\ h.k = "reset" THEN [b EXCEPT !.ns = DelAll(b.ns, h.dels)] ELSE b
Next1(x, c) ==      \* the successor of a stage whose work list is empty
    LET m == x.m IN
    CASE x.pc = "pre:root"   -> Stage(Ctx([m EXCEPT !.pre = m.pre \cup {"root"}], "raw"), "fill:root", FillList("root"))
      [] x.pc = "fill:root"  -> Stage(Ctx(m, "try"), "early:root", WithInh("root", {"early"}))
      [] x.pc = "early:root" -> LET o == RootOpts(m, c) IN
                                IF Ok(o) /\ c.sub # "-" THEN Stage(o, "pre:sub", PreList(o, c.sub)) ELSE Stage(o, "bind", <<>>)
      [] x.pc = "pre:sub"    -> Stage([m EXCEPT !.pre = m.pre \cup {c.sub}], "fill:sub", FillList(c.sub))
      [] x.pc = "fill:sub"   -> Stage(m, "early:sub", WithInh(c.sub, {"early"}))
      [] x.pc = "early:sub"  -> Stage(SubOpts(m, c), "bind", <<>>)
      [] x.pc = "bind"       ->
           LET mk == [Emit(m, "<parsed>", <<>>, "-") EXCEPT !.parsed = TRUE]
               mains == IF c.sub = "-" THEN <<>> ELSE Own(c.sub, {"main"})
               b == IF mains = <<>> THEN mk ELSE [mk EXCEPT !.ns = Put(mk.ns, DefaultEntry(mains[Len(mains)]))] IN
           IF m.unknown THEN Stage(Fail(Ctx(b, "plain"), "argerr"), "wipes", <<>>)
           ELSE Stage(Ctx(b, "raw"), "wipes", WipeQueue(b.ns))
      [] x.pc = "wipes"      -> LET dq == DelayQueue(m.ns) IN Stage([Ctx(m, "delayed") EXCEPT !.snap = dq], "delayed", dq)
      [] x.pc = "delayed"    -> Stage(Ctx(m, "raw"), "finals", FinalQueue(m.ns))
      [] x.pc = "finals"     -> IF Has(m.ns, "main_func") THEN Stage([Ctx(m, "main") EXCEPT !.pdone = TRUE], "main", <<Get(m.ns, "main_func")>>)
                                ELSE Stage(Fail(Ctx(m, "tool"), "nomain"), "end", <<>>)
      [] x.pc = "main"       -> Stage(m, "end", <<>>)
\* one step: either the next item of the current stage, or the move to the next stage
StepM(x, c) ==
    IF ~Ok(x.m) THEN Stage(x.m, "end", <<>>)
    ELSE IF x.q = <<>> THEN Next1(x, c)
    ELSE LET it == Head(x.q)  rest == Tail(x.q)  m == x.m IN
         CASE x.pc \in {"pre:root", "pre:sub", "early:root", "early:sub"} -> Stage(RunHook(m, it), x.pc, rest)
           [] x.pc \in {"fill:root", "fill:sub"} -> Stage(FillOne(m, it), x.pc, rest)
           [] x.pc \in {"wipes", "delayed"} -> Stage(Invoke(m, it, it.a), x.pc, rest)
           [] x.pc = "finals" -> Stage(Body([m EXCEPT !.ns = Del(m.ns, it.a)], HK(it.h)), x.pc, rest)
           [] x.pc = "main" -> Stage(Body([m EXCEPT !.ns = Del(m.ns, "main_func")], HK(it.h)), x.pc, rest)
RECURSIVE RunX(_, _)
RunX(x, c) == IF x.pc = "end" THEN x ELSE RunX(StepM(x, c), c)
RunCall(st, c) == RunX(Start(st, c), c)

\* ---- what the caller of Tool.__call__ sees
Res(kind, code, exc, errline, tb) == [kind |-> kind, code |-> code, exc |-> exc, errline |-> errline, tb |-> tb]
Usage == Res("ret", 2, "-", TRUE, Uni.debug)
Outcome(m) ==
    LET f == m.fail  cx == m.fctx IN
    CASE f = "" -> Res("ret", 0, "-", FALSE, FALSE)
      [] f = "exit" -> Res("ret", 3, "-", FALSE, FALSE)
      [] f = "nomain" -> Res("raise", 0, "RuntimeError", FALSE, FALSE)
      [] f = "argerr" -> IF cx = "plain" THEN Res("ret", 2, "-", TRUE, FALSE)
                         ELSE IF cx \in {"try", "delayed"} THEN Usage ELSE Res("raise", 0, "ArgumentError", FALSE, FALSE)
      [] f = "valerr" -> Res("raise", 0, IF cx = "delayed" THEN "TypeError" ELSE "ValueError", FALSE, FALSE)
      [] f = "usererr" -> IF Uni.debug THEN Res("raise", 0, "UserException", FALSE, FALSE)
                          ELSE Res(IF cx = "main" THEN "exit" ELSE "ret", 2, "-", TRUE, FALSE)
EnvDebug == IF Uni.debug THEN "0" ELSE "-"
\* the Tool's namespace and the parsers' pre-parse flags after the call
After(st, x) == [pre |-> x.m.pre,
                 opt |-> IF x.m.pdone \/ st.opt.has THEN [has |-> TRUE, ns |-> x.m.ns] ELSE st.opt]
St0 == [pre |-> {}, opt |-> [has |-> FALSE, ns |-> <<>>]]

\* ---- properties of a log (used on model states and on recorded logs alike)
HooksOf(log) == [i \in DOMAIN log |-> log[i].h]
NoDup(s) == \A i, j \in DOMAIN s : i # j => s[i] # s[j]
ParsedAt(log) == IF \E i \in DOMAIN log : log[i].h = "<parsed>" THEN CHOOSE i \in DOMAIN log : log[i].h = "<parsed>" ELSE 0
KindAt(log, i) == IF IsHook(log[i].h) THEN HK(log[i].h).k ELSE "-"
NoHook == [id |-> "-", k |-> "-", n |-> "-", prio |-> 0, reads |-> <<>>, dels |-> <<>>, par |-> "-"]
\* the hook record of every log entry, looked up once per judged log
Info(log) == TLCEval([i \in DOMAIN log |-> IF IsHook(log[i].h) THEN HK(log[i].h) ELSE NoHook])
\* (a bind_parse_priority entry deletes itself: one left pending by a failed call of a re-used Tool is collapsed
\*  AND re-armed by the next default filling, so it is exempt here and judged through the model's log only)
AtMostOnceLog(log) == LET I == Info(log) IN
                      \A i, j \in DOMAIN log : (i < j /\ log[i].h = log[j].h) => (log[i].h = "<parsed>" \/ I[i].k = "ordered")
\* top-level evaluations after the command line was read come in priority order; finals after them; main last
PriorityOrderLog(log) ==
    LET I == Info(log)
        p == ParsedAt(log)
        top == {i \in DOMAIN log : i > p /\ log[i].d = 0 /\ I[i].k \in PendKinds} IN
    p = 0 \/ \A i, j \in top : i < j => I[i].prio <= I[j].prio
Rank(k) == CASE k = "reset" -> 1 [] k = "pre" -> 2 [] k = "early" -> 3 [] k = "final" -> 6 [] k = "main" -> 7 [] OTHER -> 0
StageOrderLog(log) ==
    LET I == Info(log)
        R == TLCEval([i \in DOMAIN log |-> IF log[i].d = 0 THEN Rank(I[i].k) ELSE 0])
        p == ParsedAt(log)
        ranked == {i \in DOMAIN log : R[i] > 0}
        late == {i \in DOMAIN log : I[i].k \in {"final", "main"}} IN
    /\ \A i, j \in ranked : (i < j /\ I[i].par = I[j].par) => R[i] <= R[j]
    /\ \A i \in late : p > 0 /\ i > p
    /\ \A i \in DOMAIN log : I[i].k \in {"reset", "pre", "early"} => (p = 0 \/ i < p)
    /\ \A i \in late : \A j \in DOMAIN log : i < j => (I[j].k \notin (PendKinds \ {"cfg"}) \/ log[j].d > 0)
    /\ \A i \in DOMAIN log : I[i].k = "main" => i = Len(log)
\* attributes a reset hook / wipe of the parsers taking part in call c may remove
InCall(c) == {"root"} \cup SeqSet(Par("root").inh) \cup (IF c.sub = "-" THEN {} ELSE {c.sub} \cup SeqSet(Par(c.sub).inh))
DelsOf(c) == UNION {SeqSet(h.dels) : h \in {g \in AllHooks : g.k \in {"reset", "wipe"} /\ g.par \in InCall(c)}}
ConfigOnceLog(log) == Cardinality({i \in DOMAIN log : log[i].h = "config"}) <= 1
=========================================================================
