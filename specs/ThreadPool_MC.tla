---------------------------- MODULE ThreadPool_MC ----------------------------
(* Every interleaving of the feeder and the worker threads of map_async, for every
   input length 0..MaxItems, 1..MaxThreads requested threads, inputs with and without a
   length, and every assignment of 0..2 outputs per item.
   MayFail: the input iterable may raise while being fed (kill is set, the exception
   propagates after the join).
   SentinelRule = "perworker" is the design; "one" (a single shared sentinel) is explored
   by the driver to show that the termination property is not vacuous.
   QuitOnEmpty = TRUE is a worker function that stops consuming its queue iterator after an
   item that produces no result (e.g. a regeneration worker returning on a package with
   broken metadata); it must violate ExactlyOnceAtReturn (non-vacuity).
   QuitWhenIdle = TRUE is a worker that takes a momentarily empty queue for the end of the
   input (e.g. a get with a timeout while the producer is slower than the consumers); it must
   violate ExactlyOnceAtReturn as well.  In the design a worker BLOCKS on an empty queue: Get
   is simply not enabled, for however long the feeder takes.                               *)
EXTENDS ThreadPool, TLC
CONSTANTS MaxItems, MaxThreads, MayFail, SentinelRule, QuitOnEmpty, QuitWhenIdle

VARIABLES n, threads, haslen, out,      \* the call: chosen in Init, then constant
          fpc, started, fed, sent, q, kill, failed,
          wpc, witem, wleft, taken, results
cfgv == <<n, threads, haslen, out>>
vars == <<n, threads, haslen, out, fpc, started, fed, sent, q, kill, failed, wpc, witem, wleft, taken, results>>

T == Workers(n, threads, haslen)
NSent == IF SentinelRule = "perworker" THEN T ELSE Min2(T, 1)
W == 1..MaxThreads

Init == /\ n \in 0..MaxItems /\ threads \in 1..MaxThreads /\ haslen \in BOOLEAN
        /\ out \in [1..n -> 0..2]
        /\ fpc = "start" /\ started = 0 /\ fed = 0 /\ sent = 0 /\ q = <<>> /\ kill = FALSE /\ failed = FALSE
        /\ wpc = [w \in W |-> "unborn"] /\ witem = [w \in W |-> 0] /\ wleft = [w \in W |-> 0]
        /\ taken = [i \in 1..n |-> 0] /\ results = EmptyBag

(* ------------------------------ feeder ------------------------------ *)
StartThread == /\ fpc = "start"
               /\ IF started < T
                  THEN /\ started' = started + 1
                       /\ wpc' = [wpc EXCEPT ![started + 1] = "check"]
                       /\ UNCHANGED fpc
                  ELSE fpc' = "feed" /\ UNCHANGED <<started, wpc>>
               /\ UNCHANGED <<cfgv, fed, sent, q, kill, failed, witem, wleft, taken, results>>
Feed == /\ fpc = "feed"
        /\ \/ /\ fed < n /\ q' = Append(q, fed + 1) /\ fed' = fed + 1 /\ UNCHANGED <<fpc, kill, failed>>
           \/ /\ fed = n /\ fpc' = "sentinels" /\ UNCHANGED <<q, fed, kill, failed>>
           \/ /\ MayFail /\ fed < n /\ kill' = TRUE /\ failed' = TRUE /\ fpc' = "sentinels" /\ UNCHANGED <<q, fed>>
        /\ UNCHANGED <<cfgv, started, sent, wpc, witem, wleft, taken, results>>
PutSentinel == /\ fpc = "sentinels"
               /\ IF sent < NSent THEN q' = Append(q, 0) /\ sent' = sent + 1 /\ UNCHANGED fpc
                  ELSE fpc' = "join" /\ UNCHANGED <<q, sent>>
               /\ UNCHANGED <<cfgv, started, fed, kill, failed, wpc, witem, wleft, taken, results>>
Join == /\ fpc = "join" /\ \A w \in 1..T : wpc[w] = "done"
        /\ fpc' = "done"
        /\ UNCHANGED <<cfgv, started, fed, sent, q, kill, failed, wpc, witem, wleft, taken, results>>

(* ------------------------------ worker w ------------------------------ *)
Check(w) == /\ wpc[w] = "check"
            /\ wpc' = [wpc EXCEPT ![w] = IF kill THEN "done" ELSE "get"]
            /\ UNCHANGED <<cfgv, fpc, started, fed, sent, q, kill, failed, witem, wleft, taken, results>>
Get(w) == /\ wpc[w] = "get" /\ q # <<>>
          /\ q' = Tail(q)
          /\ IF Head(q) = 0
             THEN wpc' = [wpc EXCEPT ![w] = "done"] /\ UNCHANGED <<witem, wleft, taken>>
             ELSE /\ witem' = [witem EXCEPT ![w] = Head(q)]
                  /\ wleft' = [wleft EXCEPT ![w] = out[Head(q)]]
                  /\ taken' = [taken EXCEPT ![Head(q)] = @ + 1]
                  /\ wpc' = [wpc EXCEPT ![w] = IF out[Head(q)] = 0 THEN (IF QuitOnEmpty THEN "done" ELSE "check") ELSE "emit"]
          /\ UNCHANGED <<cfgv, fpc, started, fed, sent, kill, failed, results>>
EmitOne(w) == /\ wpc[w] = "emit"
              /\ results' = BagAdd(results, <<witem[w], wleft[w]>>)
              /\ wleft' = [wleft EXCEPT ![w] = @ - 1]
              /\ wpc' = [wpc EXCEPT ![w] = IF wleft[w] = 1 THEN "check" ELSE "emit"]
              /\ UNCHANGED <<cfgv, fpc, started, fed, sent, q, kill, failed, witem, taken>>
GiveUp(w) == /\ QuitWhenIdle /\ wpc[w] = "get" /\ q = <<>>
             /\ wpc' = [wpc EXCEPT ![w] = "done"]
             /\ UNCHANGED <<cfgv, fpc, started, fed, sent, q, kill, failed, witem, wleft, taken, results>>
Worker(w) == Check(w) \/ Get(w) \/ EmitOne(w) \/ GiveUp(w)

Next == StartThread \/ Feed \/ PutSentinel \/ Join \/ \E w \in W : Worker(w)
Spec == Init /\ [][Next]_vars
FairSpec == Spec /\ WF_vars(StartThread) /\ WF_vars(Feed) /\ WF_vars(PutSentinel) /\ WF_vars(Join)
                 /\ \A w \in W : WF_vars(Worker(w))

(* ------------------------------ properties ------------------------------ *)
TypeOK == /\ fed \in 0..n /\ started \in 0..T /\ sent \in 0..T
          /\ \A w \in W : wpc[w] \in {"unborn", "check", "get", "emit", "done"}
          /\ \A w \in W : w > T => wpc[w] = "unborn"
AtMostOnce  == TakenTwice(n, taken) = {}
NoPhantom   == \A i \in 1..n : taken[i] > 0 => i <= fed
\* results only ever hold outputs of items that were taken
ResultsSound == \A t \in DOMAIN results : t[1] \in 1..n /\ taken[t[1]] > 0 /\ t[2] \in 1..out[t[1]] /\ results[t] = 1
Expected == [t \in {<<i, j>> : i \in 1..n, j \in 1..2} \cap {x \in (1..n) \X (1..2) : x[2] <= out[x[1]]} |-> 1]
\* what map_async returns: at the join of a call whose input did not raise
ExactlyOnceAtReturn == (fpc = "done" /\ ~failed) =>
        /\ NotProcessed(n, taken) = {} /\ TakenTwice(n, taken) = {}
        /\ Missing(Expected, results) = {} /\ Extra(Expected, results) = {}
        /\ q = <<>>
\* no worker is left waiting on an empty queue once every sentinel has been put
NoStuck == ~(fpc = "join" /\ q = <<>> /\ \E w \in 1..T : wpc[w] = "get")
Termination == <>(fpc = "done")
=========================================================================
