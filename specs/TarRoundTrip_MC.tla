---------------------------- MODULE TarRoundTrip_MC ----------------------------
(* Design model of write_set / generate_contents as two processes over the archive:
   the WRITER emits the set member by member in an arbitrary order (directories first), keeping a
   table inode -> first member written; the READER consumes the members in sequence keeping a
   cache  member name -> inode  (tar names hard link targets by path).  Every interleaving-free
   order of every in-domain subset (<= MaxEntries) of the pool is explored.

   Invariants: the reader never meets a link whose target it has not seen (LinkTargetKnown);
   when both are done the result is equivalent to Expected(cset), inode groups as partitions
   (RoundTrip) and equals the declarative ReadArchive (ReaderIsReadArchive).
   Vacuity guards, TLC must report RoundTrip violated for both: variant "nolink" (every file
   written with its own data: the groups fall apart) and variant "inokey" (the table of stored
   files keyed by the inode NUMBER only: a group on a second device with a colliding number is
   stored as separate copies once the first device occupies the slot).                          *)
EXTENDS TarRoundTrip_Universe, TLC
CONSTANTS Variant, MaxEntries

VARIABLES cset, todo, arch, seen, phase, rpos, cache, raw
vars == <<cset, todo, arch, seen, phase, rpos, cache, raw>>

Init == /\ cset \in SmallSets(MaxEntries)
        /\ todo = cset /\ arch = <<>> /\ seen = {} /\ phase = "write" /\ rpos = 0 /\ cache = {} /\ raw = {}

\* the writer's table of files already stored:  key -> first entry written under that key
\* (dict.setdefault).  The key is <<dev, ino>>; variant "inokey" keys by the inode number alone.
KeyOf(e) == IF Variant = "inokey" THEN <<0, e.ino>> ELSE <<e.dev, e.ino>>
Emit(e) ==
    LET hit == {x \in seen : e.type = "file" /\ x.key = KeyOf(e)}
        \* _can_be_hardlinked: same device, same inode, inode known (attributes agree: GroupsConsistent)
        link == hit # {} /\ Variant # "nolink" /\ SameInode(e, (CHOOSE x \in hit : TRUE).ent) IN
    /\ todo' = todo \ {e}
    /\ IF link
       THEN /\ arch' = Append(arch, Member(e, "lnk", (CHOOSE x \in hit : TRUE).ent.path)) /\ seen' = seen
       ELSE /\ arch' = Append(arch, Member(e, KindOf(e), <<>>))
            /\ seen' = IF e.type = "file" /\ hit = {} THEN seen \cup {[key |-> KeyOf(e), ent |-> e]} ELSE seen
WriteStep == /\ phase = "write" /\ todo # {}
             /\ \E e \in todo : /\ (e.type # "dir" => \A d \in todo : d.type # "dir")
                                /\ Emit(e)
             /\ UNCHANGED <<cset, phase, rpos, cache, raw>>
WriteDone == /\ phase = "write" /\ todo = {} /\ phase' = "read"
             /\ UNCHANGED <<cset, todo, arch, seen, rpos, cache, raw>>

CacheGet(name) == {x \in cache : x[1] = name}
ReadStep ==
    /\ phase = "read" /\ rpos < Len(arch)
    /\ LET m == arch[rpos + 1] IN
       IF m.kind = "lnk" /\ CacheGet(m.link) = {}
       THEN /\ phase' = "error" /\ UNCHANGED <<rpos, cache, raw>>
       ELSE LET ino == IF m.kind = "lnk" THEN (CHOOSE x \in CacheGet(m.link) : TRUE)[2]
                       ELSE IF m.kind = "reg" THEN rpos + 1 ELSE 0
                ent == IF m.kind \in {"reg", "lnk"}
                       THEN [m.ent EXCEPT !.path = m.name, !.type = "file", !.dev = 1, !.ino = ino, !.cid = arch[ino].ent.cid]
                       ELSE [m.ent EXCEPT !.path = m.name, !.type = m.kind, !.dev = 0, !.ino = 0]
            IN /\ rpos' = rpos + 1
               /\ cache' = IF m.kind \in {"reg", "lnk"} THEN (cache \ CacheGet(m.name)) \cup {<<m.name, ino>>} ELSE cache
               /\ raw' = {x \in raw : x.path # m.name} \cup {ent}
               /\ phase' = phase
    /\ UNCHANGED <<cset, todo, arch, seen>>
ReadDone == /\ phase = "read" /\ rpos = Len(arch) /\ phase' = "done"
            /\ UNCHANGED <<cset, todo, arch, seen, rpos, cache, raw>>
Next == WriteStep \/ WriteDone \/ ReadStep \/ ReadDone
Spec == Init /\ [][Next]_vars

Result == LET r == Resolve(raw) IN r \cup {DirStub(p) : p \in MissingDirs(r)}

\* CONSTRAINT for the "inokey" guard run: only sets that hold the hard link pair of the second device
SecondDevicePair == Cardinality({e \in cset : e.dev = 2}) = 2

LinkTargetKnown == phase # "error"
RoundTrip == phase = "done" => Equivalent(Result, Expected(cset), MissingDirs(Resolve(cset)))
ReaderIsReadArchive == phase = "done" => Result = ReadArchive(arch)
\* the writer's archive, whatever the order: one member per entry, links only backwards to data
ArchiveShape == phase # "write" => /\ Len(arch) = Cardinality(cset) /\ LinksResolvable(arch)
                                  /\ {arch[k].name : k \in DOMAIN arch} = PathsOf(cset)
=========================================================================
