---------------------------- MODULE BuildPhases_Export ----------------------------
(* spec -> code, operations API: every operations class with up to two _cmd_api_ methods
   (each: standalone or not, implemented or not, support check absent / accepting / refusing) and
   every pair of enable / disable overrides over the existing names.  The driver builds the class
   with type(), instantiates it and records what it offers (BuildPhases_Trace, Api_* clauses).  *)
EXTENDS BuildPhases, TLC, Json, IOUtils, SequencesExt
Names == {"x", "y"}
Desc(nm) == {[name |-> nm, standalone |-> s, impl |-> i, check |-> c] : s \in BOOLEAN, i \in BOOLEAN, c \in {"none", "yes", "no"}}
Classes == {{}} \cup {{d} : d \in Desc("x")} \cup {{d1, d2} : <<d1, d2>> \in Desc("x") \X Desc("y")}
Cases == {[descs |-> SetToSeq(cl), en |-> SetToSeq(en), dis |-> SetToSeq(dis)] :
            <<cl, en, dis>> \in {t \in Classes \X (SUBSET Names) \X (SUBSET Names) :
                                   t[2] \subseteq {d.name : d \in t[1]}}}
ASSUME ndJsonSerialize(IOEnv.OUT, SetToSeq(Cases))
=============================================================================
