---------------------------- MODULE TarRoundTrip_Laws ----------------------------
(* Constant-level laws, evaluated by TLC over EVERY in-domain subset of the pool of at most
   MaxLaw entries:  Read(Write(s)) ~ Expected(s); resolution is idempotent and leaves nothing below
   a link; the archive a writer produces only links backwards, to a data-bearing member.       *)
EXTENDS TarRoundTrip_Universe, TLC
CONSTANT MaxLaw

Sets == SmallSets(MaxLaw)
\* directories first (any order among them), then the rest: what the real writer does
Order(s) == SetToSeq({e \in s : e.type = "dir"}) \o SetToSeq({e \in s : e.type # "dir"})

ASSUME Cardinality(Sets) > 100
\* the round trip
ASSUME \A s \in Sets : LET arch == WriteSeq(Order(s)) IN
          /\ LinksResolvable(arch)
          /\ Equivalent(ReadArchive(arch), Expected(s), MissingDirs(Resolve(s)))
\* ... also when directories are NOT written first (the order is an optimisation only)
ASSUME \A s \in Sets : Equivalent(ReadArchive(WriteSeq(SetToSeq(s))), Expected(s), MissingDirs(Resolve(s)))
\* resolution: idempotent, nothing is left below a link, types/attributes untouched
ASSUME \A s \in Sets : LET r == Resolve(s) IN
          /\ InDomain(r) /\ Resolve(r) = r
          /\ \A e \in r : \A q \in ProperPrefixes(e.path) : ~\E y \in SymsOf(r) : y.path = q
          /\ Cardinality(r) = Cardinality(s)
\* a set without links below links is its own resolution
ASSUME \A s \in Sets : (\A e \in s : \A q \in ProperPrefixes(e.path) : ~\E y \in SymsOf(s) : y.path = q) => Resolve(s) = s
\* the empty archive
ASSUME ReadArchive(<<>>) = {} /\ WriteSeq(<<>>) = <<>> /\ Expected({}) = {}
\* spot checks of the walk (chain, nested, absolute, "..", "." and ".." at the root)
T(loc, ab, tc) == [loc |-> loc, tabs |-> ab, tcomps |-> tc]
ASSUME Walk({T(<<"a">>, FALSE, <<"b">>), T(<<"b">>, FALSE, <<"c">>)}, <<>>, <<"a", "x">>, Fuel).p = <<"c", "x">>
ASSUME Walk({T(<<"a">>, TRUE, <<"p", "q">>)}, <<>>, <<"z", "..", "a">>, Fuel).p = <<"p", "q">>
ASSUME Walk({T(<<"d", "u">>, FALSE, <<"..", "..", "e">>)}, <<>>, <<"d", "u", ".", "s">>, Fuel).p = <<"e", "s">>
ASSUME ~Walk({T(<<"a">>, FALSE, <<"b">>), T(<<"b">>, FALSE, <<"a">>)}, <<>>, <<"a", "x">>, Fuel).ok
=========================================================================
