---------------------------- MODULE Fetch_Trace ----------------------------
(* Judges recorded runs of the real fetcher.fetch (drivers/c36_fetch.py).
   One event per run:
     {tid, i, kind, budget, nuris, init:F, atts:[{pre:F, cmd, post:F, exit, kept}],
      result, final:F, finalkept}          F = {ex, sz, esz, same}
   init/pre/post/final are what was on disk (size, equality with the reference
   content); the classes and every clause are evaluated here.                     *)
EXTENDS Fetch, TraceLib
VARIABLE l
ToRun(e) == [kind |-> e.kind, budget |-> e.budget, nuris |-> e.nuris, init |-> Class(e.init),
             atts |-> [k \in DOMAIN e.atts |->
                          [pre |-> Class(e.atts[k].pre), cmd |-> e.atts[k].cmd, post |-> Class(e.atts[k].post),
                           exit |-> e.atts[k].exit, kept |-> e.atts[k].kept]],
             result |-> e.result, final |-> Class(e.final), finalkept |-> e.finalkept]
Judge(e) == IF e.kind \notin Kinds \/ e.budget < 1 \/ e.nuris < 1 THEN {"OutsideDomain"} ELSE Broken(ToRun(e))
TraceInit == l = 0
TraceNext == /\ l < Len(Tr)
             /\ l' = l + 1
             /\ Report(Tr[l'].tid, Tr[l'].i, Judge(Tr[l']))
             /\ EndMark(l')
TraceSpec == TraceInit /\ [][TraceNext]_l
=========================================================================
