SPECIFICATION Spec
CONSTANTS
  MaxPlan = 4
  Pkgs <- MCPkgs
  ChoicePts <- MCChoicePts
  Blockers <- MCBlockers
  Restrs <- MCRestrs
  KeyOf <- MCKeyOf
  SlotOf <- MCSlotOf
  BKeyOf <- MCBKeyOf
  Blocks <- MCBlocks
CONSTRAINT Bound
INVARIANT InvReplay
INVARIANT InvRefcnt
INVARIANT InvLimiters
INVARIANT InvRevSum
INVARIANT InvChoices
PROPERTY RollbackExact
