---------------------------- MODULE AtomicFile_MC ----------------------------
(* Design check shared by C24 (CONTENTS), C27 (cache entries), C28 (Manifest), C30 (world file):
   replacing a file so that a crash at ANY point leaves the complete old or the complete new file.
   Variant "temp"   : what snakeoil's AtomicWriteFile does - create .update.<name>, chmod, chown,
                      write chunk by chunk, close, rename over the target; on an I/O error the
                      temp file is discarded.
   Variant "inplace": open(target, "w") and write chunk by chunk.
   Every reachable state is a crash point (a power cut simply stops the writer), an I/O error may
   hit any step.  TLC shows OldOrNew holds for "temp" and fails for "inplace".                    *)
EXTENDS FsModel, TLC
CONSTANTS Variant, NChunks, OldExists

Target == <<"d", "f">>
Temp   == <<"d", ".update.f">>
OldObj == [type |-> "file", cid |-> "old", size |-> 3, mode |-> 420, uid |-> 0, gid |-> 0, target |-> "-"]
NewObj(k) == [type |-> "file", cid |-> IF k = 0 THEN "empty" ELSE IF k = NChunks THEN "new" ELSE "part", size |-> k,
              mode |-> 384, uid |-> 0, gid |-> 0, target |-> "-"]
DirObj == [type |-> "dir", cid |-> "-", size |-> 0, mode |-> 493, uid |-> 0, gid |-> 0, target |-> "-"]

Fs0 == LET s0 == [names |-> {}, inodes |-> <<>>, handles |-> {}]
           s1 == Create(s0, <<"d">>, DirObj).s
       IN IF OldExists THEN Create(s1, Target, OldObj).s ELSE s1

VARIABLES fs, pc, written, failed
vars == <<fs, pc, written, failed>>
Init == fs = Fs0 /\ pc = "start" /\ written = 0 /\ failed = FALSE

Do(r, next) == r.ok /\ fs' = r.s /\ pc' = next
\* an I/O error at this step: the step does not happen, the writer goes to its error path
Fail(next) == ~failed /\ failed' = TRUE /\ pc' = next /\ UNCHANGED <<fs, written>>

TempStep ==
  \/ pc = "start"  /\ Do(Open(fs, Temp, 1, TRUE, FALSE, NewObj(0)), "chmod") /\ UNCHANGED <<written, failed>>
  \/ pc = "start"  /\ Fail("done")
  \/ pc = "chmod"  /\ Do(Chmod(fs, Temp, 420), "write") /\ UNCHANGED <<written, failed>>
  \/ pc = "chmod"  /\ Fail("discard")
  \/ pc = "write"  /\ written < NChunks /\ Do(Write(fs, 1, NewObj(written + 1).cid, written + 1), "write")
                   /\ written' = written + 1 /\ UNCHANGED failed
  \/ pc = "write"  /\ written < NChunks /\ Fail("discard")
  \/ pc = "write"  /\ written = NChunks /\ Do(Close(fs, 1), "rename") /\ UNCHANGED <<written, failed>>
  \/ pc = "rename" /\ Do(Rename(fs, Temp, Target), "done") /\ UNCHANGED <<written, failed>>
  \/ pc = "rename" /\ Fail("discard")
  \/ pc = "discard" /\ Do(Unlink(Close(fs, 1).s, Temp), "done") /\ UNCHANGED <<written, failed>>

InplaceStep ==
  \/ pc = "start"  /\ OldExists  /\ Do(Open(fs, Target, 1, FALSE, TRUE, NewObj(0)), "write") /\ UNCHANGED <<written, failed>>
  \/ pc = "start"  /\ ~OldExists /\ Do(Open(fs, Target, 1, TRUE, FALSE, NewObj(0)), "write") /\ UNCHANGED <<written, failed>>
  \/ pc = "write"  /\ written < NChunks /\ Do(Write(fs, 1, NewObj(written + 1).cid, written + 1), "write")
                   /\ written' = written + 1 /\ UNCHANGED failed
  \/ pc = "write"  /\ written < NChunks /\ Fail("done")
  \/ pc = "write"  /\ written = NChunks /\ Do(Close(fs, 1), "done") /\ UNCHANGED <<written, failed>>

Next == IF Variant = "temp" THEN TempStep ELSE InplaceStep
Spec == Init /\ [][Next]_vars

\* The property: at every crash point the target is the complete old file (or absent, if there
\* was none) or the complete new file.
OldOrNew == LET o == Look(fs, Target) IN
    \/ (OldExists /\ o.type = "file" /\ o.cid = "old")
    \/ (~OldExists /\ o.type = "absent")
    \/ (o.type = "file" /\ o.cid = "new" /\ o.size = NChunks)
\* after an uninterrupted run the new file is in place (unless an I/O error was reported) and no temp is left
Completes == pc = "done" => /\ ~HasName(fs, Temp)
                            /\ (~failed => Look(fs, Target).cid = "new")
=========================================================================
