---------------------------- MODULE FsTrace ----------------------------
(* Generic judge for recorded filesystem-mutation traces (pylib/fsrec.py).
   Per trace (tid):
     i = 0  ev "init"  : names, inodes (the root before the operation), and the clauses to
                         evaluate after EVERY later event (= at every crash point):
                           watch : [{path, allowed:[descriptor,..]}]   object at path fits one of them
                           units : [{root, files:[{path,cid}]}], views:[[v1,..,vn],..]
                                   vector of unit views ("absent"/"complete"/"partial") is allowed
                           frame : [prefix,..]  every mutated path lies under one of them
     i > 0  ev "sys"   : one recorded syscall (op, p, ...)
            ev "final" : the real lstat snapshot after the operation: model must equal it
            ev "reader": what the REAL reader saw after a cut at mutation k (view) and the
                         views it may legitimately report (allowed)
   The syscalls are replayed through FsModel; a syscall the model cannot perform is reported
   as Model_<op> (recorder and model disagree: treated by the driver as machinery failure). *)
EXTENDS FsModel, TraceLib
VARIABLES l, fs, cfg

EmptyFs == [names |-> {}, inodes |-> <<>>, handles |-> {}]
EmptyCfg == [watch |-> <<>>, units |-> <<>>, views |-> <<>>, frame |-> <<>>]

InitFs(e) == [names |-> {[path |-> e.names[k].path, ino |-> e.names[k].ino] : k \in DOMAIN e.names},
              inodes |-> [k \in DOMAIN e.inodes |-> [MkObj(e.inodes[k]) EXCEPT !.mtime = e.inodes[k].mtime]],
              handles |-> {}]

Step(s, e) ==
  CASE e.op = "open"      -> Open(s, e.p, e.h, e.created, e.truncated, e.obj)
    [] e.op = "write"     -> Write(s, e.h, e.cid, e.size)
    [] e.op = "ftruncate" -> Write(s, e.h, e.cid, e.size)
    [] e.op = "truncate"  -> SetContentAt(s, e.p, e.cid, e.size)
    [] e.op = "close"     -> Close(s, e.h)
    [] e.op = "rename"    -> Rename(s, e.src, e.dst)
    [] e.op = "unlink"    -> Unlink(s, e.p)
    [] e.op = "rmdir"     -> Rmdir(s, e.p)
    [] e.op = "mkdir"     -> Create(s, e.p, e.obj)
    [] e.op = "symlink"   -> Create(s, e.p, e.obj)
    [] e.op = "mkfifo"    -> Create(s, e.p, e.obj)
    [] e.op = "mknod"     -> Create(s, e.p, e.obj)
    [] e.op = "link"      -> Link(s, e.src, e.p)
    [] e.op = "chmod"     -> Chmod(s, e.p, e.mode)
    [] e.op = "chown"     -> Chown(s, e.p, e.uid, e.gid)
    [] e.op = "utime"     -> Utime(s, e.p, e.mtime)
    [] e.op = "fault"     -> R(s, TRUE)
    [] OTHER              -> R(s, FALSE)

WatchOk(s, c) == \A k \in DOMAIN c.watch :
    \E a \in DOMAIN c.watch[k].allowed : Fits(Look(s, c.watch[k].path), c.watch[k].allowed[a])

UnitView(s, u) ==
  IF ~HasName(s, u.root) THEN "absent"
  ELSE IF \A k \in DOMAIN u.files : HasName(s, u.files[k].path) /\ ObjAt(s, u.files[k].path).type = "file"
                                     /\ ObjAt(s, u.files[k].path).cid = u.files[k].cid
       THEN "complete" ELSE "partial"
Views(s, c) == [k \in DOMAIN c.units |-> UnitView(s, c.units[k])]
UnitsOk(s, c) == c.units = <<>> \/ \E v \in DOMAIN c.views : c.views[v] = Views(s, c)

Touched(e) == IF e.op = "rename" THEN {e.src, e.dst} ELSE IF e.op = "link" THEN {e.p} ELSE {e.p}
FrameOk(c, e) == c.frame = <<>> \/ e.op \in {"close", "fault"} \/
    \A p \in Touched(e) : \E k \in DOMAIN c.frame : IsPrefix(c.frame[k], p)

FinalOk(s, e) ==
  /\ {n.path : n \in s.names} = {e.snap[k].path : k \in DOMAIN e.snap}
  /\ \A k \in DOMAIN e.snap : HasName(s, e.snap[k].path) => Fits(ObjAt(s, e.snap[k].path), e.snap[k].obj)
FinalSizeOk(s, e) == \A k \in DOMAIN e.snap :
     (HasName(s, e.snap[k].path) /\ e.snap[k].obj.type = "file") => ObjAt(s, e.snap[k].path).size = e.snap[k].obj.size
FinalLinksOk(s, e) == \A j, k \in DOMAIN e.snap :
     (HasName(s, e.snap[j].path) /\ HasName(s, e.snap[k].path) /\ e.snap[j].obj.type = "file" /\ e.snap[k].obj.type = "file")
       => ((InoOf(s, e.snap[j].path) = InoOf(s, e.snap[k].path)) <=> (e.snap[j].grp = e.snap[k].grp))

JudgeSys(s1, ok, c, e) ==
    (IF ok THEN {} ELSE {"Model_" \o e.op})
    \cup (IF WatchOk(s1, c) THEN {} ELSE {"Watch"})
    \cup (IF UnitsOk(s1, c) THEN {} ELSE {"Units"})
    \cup (IF FrameOk(c, e) THEN {} ELSE {"Frame"})
JudgeFinal(s, e) ==
    (IF FinalOk(s, e) THEN {} ELSE {"FinalState"})
    \cup (IF FinalSizeOk(s, e) THEN {} ELSE {"FinalSize"})
    \cup (IF FinalLinksOk(s, e) THEN {} ELSE {"FinalLinks"})
JudgeReader(e) == IF \E k \in DOMAIN e.allowed : e.allowed[k] = e.view THEN {} ELSE {"ReaderOldOrNew"}

TraceInit == l = 0 /\ fs = EmptyFs /\ cfg = EmptyCfg
TraceNext ==
  /\ l < Len(Tr) /\ l' = l + 1
  /\ LET e == Tr[l'] IN
     CASE e.ev = "init" ->
            /\ fs' = InitFs(e)
            /\ cfg' = [watch |-> e.watch, units |-> e.units, views |-> e.views, frame |-> e.frame]
            /\ Report(e.tid, e.i, (IF WatchOk(fs', cfg') THEN {} ELSE {"Watch"}) \cup (IF UnitsOk(fs', cfg') THEN {} ELSE {"Units"}))
       [] e.ev = "sys" ->
            LET r == Step(fs, e) IN
            /\ fs' = r.s /\ UNCHANGED cfg
            /\ Report(e.tid, e.i, JudgeSys(r.s, r.ok, cfg, e))
       [] e.ev = "final" ->
            /\ UNCHANGED <<fs, cfg>>
            /\ Report(e.tid, e.i, JudgeFinal(fs, e))
       [] e.ev = "reader" ->
            /\ UNCHANGED <<fs, cfg>>
            /\ Report(e.tid, e.i, JudgeReader(e))
  /\ EndMark(l')
TraceSpec == TraceInit /\ [][TraceNext]_<<l, fs, cfg>>
=========================================================================
