---------------------------- MODULE Helpers ----------------------------
(* C33: what the PMS install helpers put under the image directory.

   Vocabulary
     path    sequence of component names below the image root (<<>> = the root itself)
     item    one helper argument naming something in the working directory:
               [pre   directory part of the argument (sequence, may be empty)
                name  its basename
                kind  "file" | "dir" | "sym" | "missing"
                cid   content id of a file;  lnk  link text of a symlink
                tree  for a directory: sequence of [rel (non-empty path below it), kind, cid, lnk]
                stem, lang, sec   doman: name = stem[.lang].sec  ("" = part absent)
                ext   dohtml: file extension without the dot ("" = none)]
     entry   [path, kind "file"|"dir"|"sym", mode (permission bits; -1 = not prescribed), cid, lnk]
     st      destination state of the phase: into / insinto / exeinto (paths), docinto (path
             below the doc dir), insmode / exemode / dirmode / libmode (from *opts -mMODE)
   Placement(h, eapi, st, a, pk) = [status |-> "ok" | "reject" | "unspec", entries |-> set of entry]
     "reject"  PMS forbids the call (or the helper does not exist in that EAPI)
     "unspec"  PMS leaves the outcome open: counted, never judged
   Entries are the EXPLICIT results; directories needed above them are implied (kind only).
   No VARIABLES: used by Helpers_Laws, Helpers_MC, Helpers_Export and Helpers_Trace.          *)
EXTENDS Naturals, Integers, Sequences, FiniteSets

(* ------------------------------------------------------------------ paths *)
Dir(p) == SubSeq(p, 1, Len(p) - 1)
Last(p) == p[Len(p)]
IsPrefix(a, b) == Len(a) <= Len(b) /\ SubSeq(b, 1, Len(a)) = a
ProperAncestors(p) == {SubSeq(p, 1, n) : n \in 1..(Len(p) - 1)}

\* lexical normalisation below a starting directory: "" and "." vanish, ".." pops (never above the root)
RECURSIVE Walk(_, _)
Walk(rest, acc) ==
    IF rest = <<>> THEN acc
    ELSE LET c == Head(rest) IN
         IF c = "." \/ c = "" THEN Walk(Tail(rest), acc)
         ELSE IF c = ".." THEN Walk(Tail(rest), IF acc = <<>> THEN <<>> ELSE Dir(acc))
         ELSE Walk(Tail(rest), Append(acc, c))
Norm(p) == Walk(p, <<>>)
\* where a relative link text `rel`, stored in directory d, leads
Resolve(d, rel) == Walk(rel, d)

Plain(c) == c \notin {"", ".", ".."}
\* directory that holds the link named tgt (the last component of a link name is a plain name)
LinkDir(tgt) == Norm(Dir(tgt))

RECURSIVE CommonLen(_, _)
CommonLen(a, b) == IF a = <<>> \/ b = <<>> \/ Head(a) # Head(b) THEN 0 ELSE 1 + CommonLen(Tail(a), Tail(b))
Ups(n) == [k \in 1..n |-> ".."]
\* PMS 8 dosym -r: the relative path from the link's directory to the (absolute) source
RelTarget(src, tgt) ==
    LET s == Norm(src)
        d == LinkDir(tgt)
        k == CommonLen(s, d)
        r == Ups(Len(d) - k) \o SubSeq(s, k + 1, Len(s))
    IN IF r = <<>> THEN <<".">> ELSE r

(* ------------------------------------------------------------------ EAPI table (PMS) *)
DodocRecursive(eapi)  == eapi >= 4
DoinsSymlinks(eapi)   == eapi >= 4
DomanLangDetect(eapi) == eapi >= 2
DomanI18n(eapi)       == eapi >= 4
DosymRelative(eapi)   == eapi >= 8
DomoUsesInto(eapi)    == eapi <= 6
Exists(h, eapi) == CASE h = "dohard" -> eapi <= 3
                     [] h = "dohtml" -> eapi <= 6
                     [] h = "dolib"  -> eapi <= 6
                     [] OTHER -> TRUE

M644 == 420
M755 == 493
DefaultState == [into |-> <<"usr">>, insinto |-> <<>>, exeinto |-> <<>>, docinto |-> <<>>,
                 insmode |-> M644, exemode |-> M755, dirmode |-> M755, libmode |-> M644,
                 insset |-> FALSE, exeset |-> FALSE]

\* destination commands: "/" means the image root
SetInto(st, p)    == [st EXCEPT !.into = p]
SetInsinto(st, p) == [st EXCEPT !.insinto = p, !.insset = TRUE]
SetExeinto(st, p) == [st EXCEPT !.exeinto = p, !.exeset = TRUE]
SetDocinto(st, p) == [st EXCEPT !.docinto = p]
SetMode(st, which, m) == CASE which = "insopts" -> [st EXCEPT !.insmode = m]
                           [] which = "exeopts" -> [st EXCEPT !.exemode = m]
                           [] which = "diropts" -> [st EXCEPT !.dirmode = m]
                           [] which = "libopts" -> [st EXCEPT !.libmode = m]

(* ------------------------------------------------------------------ entries *)
File(p, m, cid) == [path |-> p, kind |-> "file", mode |-> m, cid |-> cid, lnk |-> ""]
DirE(p, m)      == [path |-> p, kind |-> "dir", mode |-> m, cid |-> "", lnk |-> ""]
Sym(p, lnk)     == [path |-> p, kind |-> "sym", mode |-> -1, cid |-> "", lnk |-> lnk]
\* may: directories the helper may create although nothing ends up in them (its destination directory)
OkIn(es, may) == [status |-> "ok", entries |-> es, may |-> may]
Ok(es)   == OkIn(es, {})
Reject   == [status |-> "reject", entries |-> {}, may |-> {}]
Unspec   == [status |-> "unspec", entries |-> {}, may |-> {}]

Seqs(s) == {s[k] : k \in DOMAIN s}
\* one regular argument placed under dest: files / symlinks by basename, directories recursively
PlaceItem(dest, it, fmode, dmode, keep(_)) ==
    CASE it.kind = "file" -> {File(Append(dest, it.name), fmode, it.cid)}
      [] it.kind = "sym"  -> {Sym(Append(dest, it.name), it.lnk)}
      [] it.kind = "dir"  ->
            {DirE(Append(dest, it.name), dmode)} \cup
            {LET t == it.tree[k] p == Append(dest, it.name) \o t.rel IN
                 CASE t.kind = "file" -> File(p, fmode, t.cid)
                   [] t.kind = "dir"  -> DirE(p, dmode)
                   [] t.kind = "sym"  -> Sym(p, t.lnk)
             : k \in {j \in DOMAIN it.tree : it.tree[j].kind # "file" \/ keep(it.tree[j])}}
      [] OTHER -> {}
KeepAll(t) == TRUE

\* the common shape: install every argument under dest; directories only with -r (when the helper
\* and EAPI know -r), nonexistent arguments are errors
HasSym(items) == \E it \in Seqs(items) : it.kind = "sym"
InstallAll(dest, items, fmode, dmode, rec) ==
    IF \E it \in Seqs(items) : it.kind = "missing" THEN Reject
    ELSE IF (\E it \in Seqs(items) : it.kind = "dir") /\ ~rec THEN Reject
    ELSE OkIn(UNION {PlaceItem(dest, it, fmode, dmode, KeepAll) : it \in Seqs(items)}, {dest})

DocDir(pk) == <<"usr", "share", "doc", pk.PF>>
ValidSection(s) == s \in {"0", "1", "2", "3", "4", "5", "6", "7", "8", "9", "n"}
HtmlDefault == {"css", "gif", "htm", "html", "jpeg", "jpg", "js", "png"}

ManEntry(eapi, i18n, it) ==
    LET full == IF it.lang = "" THEN it.stem \o "." \o it.sec ELSE it.stem \o "." \o it.lang \o "." \o it.sec
        base == <<"usr", "share", "man">>
    IN IF i18n # "" /\ DomanI18n(eapi)
       THEN File(base \o <<i18n, "man" \o it.sec, full>>, M644, it.cid)
       ELSE IF it.lang # "" /\ DomanLangDetect(eapi)
       THEN File(base \o <<it.lang, "man" \o it.sec, it.stem \o "." \o it.sec>>, M644, it.cid)
       ELSE File(base \o <<"man" \o it.sec, full>>, M644, it.cid)

(* a: [items, rec, i18n, dirs, src, srcabs, tgt, tgtslash, rel, hx (dohtml -A: sequence of extra allowed extensions)]
   pk: [PF, PN]                                                                                      *)
Placement(h, eapi, st, a, pk) ==
  IF ~Exists(h, eapi) THEN Reject ELSE
  CASE h = "doins"    -> IF ~st.insset THEN Unspec
                         ELSE IF (\E it \in Seqs(a.items) : it.kind = "sym") /\ ~DoinsSymlinks(eapi) THEN Unspec
                         ELSE InstallAll(st.insinto, a.items, st.insmode, st.dirmode, a.rec)
    [] h = "doexe"    -> IF ~st.exeset \/ a.rec \/ HasSym(a.items) THEN Unspec   \* (only doins is told to keep symlinks)
                         ELSE InstallAll(st.exeinto, a.items, st.exemode, st.dirmode, FALSE)
    [] h = "dobin"    -> IF a.rec \/ HasSym(a.items) THEN Unspec ELSE InstallAll(Append(st.into, "bin"), a.items, M755, M755, FALSE)
    [] h = "dosbin"   -> IF a.rec \/ HasSym(a.items) THEN Unspec ELSE InstallAll(Append(st.into, "sbin"), a.items, M755, M755, FALSE)
    [] h = "dolib.so" -> IF a.rec \/ HasSym(a.items) THEN Unspec ELSE InstallAll(Append(st.into, "lib"), a.items, M755, M755, FALSE)
    [] h = "dolib.a"  -> IF a.rec \/ HasSym(a.items) THEN Unspec ELSE InstallAll(Append(st.into, "lib"), a.items, M644, M755, FALSE)
    [] h = "dolib"    -> IF a.rec \/ HasSym(a.items) THEN Unspec ELSE InstallAll(Append(st.into, "lib"), a.items, st.libmode, M755, FALSE)
    [] h = "dodoc"    -> IF HasSym(a.items) THEN Unspec
                         ELSE IF a.rec /\ ~DodocRecursive(eapi) /\ ~(\E it \in Seqs(a.items) : it.kind \in {"dir", "missing"})
                         THEN Unspec     \* "-r" is then just a (missing) file name for PMS
                         ELSE InstallAll(DocDir(pk) \o st.docinto, a.items, M644, M755, a.rec /\ DodocRecursive(eapi))
    [] h = "doman"    -> IF a.i18n # "" /\ ~DomanI18n(eapi) THEN Unspec
                         ELSE IF \E it \in Seqs(a.items) : it.kind # "file" \/ ~ValidSection(it.sec) THEN Reject
                         ELSE OkIn({ManEntry(eapi, a.i18n, it) : it \in Seqs(a.items)}, {<<"usr", "share", "man">>})
    [] h = "domo"     -> IF \E it \in Seqs(a.items) : it.kind # "file" THEN Reject
                         ELSE LET base == (IF DomoUsesInto(eapi) THEN st.into ELSE <<"usr">>) \o <<"share", "locale">> IN
                              OkIn({File(base \o <<it.stem, "LC_MESSAGES", pk.PN \o ".mo">>, M644, it.cid) : it \in Seqs(a.items)}, {base})
    [] h = "dohtml"   -> IF st.docinto # <<>> \/ HasSym(a.items) THEN Unspec
                         ELSE LET allowed == HtmlDefault \cup Seqs(a.hx)
                                  keep(t) == t.ext \in allowed
                                  dest == Append(DocDir(pk), "html")
                              IN IF \E it \in Seqs(a.items) : it.kind = "missing" THEN Reject
                                 ELSE IF (\E it \in Seqs(a.items) : it.kind = "dir") /\ ~a.rec THEN Reject
                                 ELSE OkIn(UNION {PlaceItem(dest, it, M644, M755, keep)
                                                  : it \in {x \in Seqs(a.items) : x.kind = "dir" \/ (x.kind = "file" /\ keep(x))}}, {dest})
    [] h = "dodir"    -> Ok({DirE(Norm(a.dirs[k]), st.dirmode) : k \in DOMAIN a.dirs})
    [] h = "keepdir"  -> Ok({DirE(Norm(a.dirs[k]), st.dirmode) : k \in DOMAIN a.dirs}
                            \cup {File(Append(Norm(a.dirs[k]), ".keep*"), -1, "") : k \in DOMAIN a.dirs})
    [] h = "dosym"    -> IF a.tgtslash \/ a.tgt = <<>> THEN Reject          \* no link name
                         ELSE IF a.rel /\ ~DosymRelative(eapi) THEN Reject
                         ELSE IF a.rel /\ ~a.srcabs THEN Unspec
                         ELSE Ok({Sym(Norm(a.tgt), IF a.rel THEN "*rel*" ELSE a.srctext)})
    [] h = "dohard"   -> Ok({[path |-> Norm(a.tgt), kind |-> "file", mode |-> -1, cid |-> "*hard*", lnk |-> ""]})
    [] OTHER -> Unspec

(* ------------------------------------------------------------------ judging one observed image *)
\* img, prev: sets of observed entries [path, kind, mode, cid, lnk, lnkabs, lnkc, ino]
At(img, p) == CHOOSE e \in img : e.path = p
Has(img, p) == \E e \in img : e.path = p
Paths(es) == {e.path : e \in es}

\* a directory made inside a set-gid directory inherits that bit (mkdir semantics, nothing a helper asks for)
SetGid(m) == (m \div 1024) % 2 = 1
ModeFits(img, e) ==
    LET o == At(img, e.path) IN
    \/ o.mode = e.mode
    \/ /\ e.kind = "dir" /\ ~SetGid(e.mode) /\ o.mode = e.mode + 1024
       /\ Len(e.path) > 1 /\ Has(img, Dir(e.path)) /\ SetGid(At(img, Dir(e.path)).mode)

\* clauses violated by `img` as the result of an accepted call with explicit entries `es`
\* a: the call (for dosym -r / dohard);  may: directories that may appear without content
ImageClauses(prev, img, es, may, a) ==
    LET want == Paths(es)
        implied == UNION {ProperAncestors(p) : p \in want} \cup ((may \cup UNION {ProperAncestors(p) : p \in may}) \ want)
        keepname(p) == IF Len(p) > 0 /\ Last(p) = ".keep*" THEN TRUE ELSE FALSE
        exact == {e \in es : ~keepname(e.path)}
        keeps == {e \in es : keepname(e.path)}
        \* observed entries standing for a ".keep*" expectation: files in that dir whose name starts with .keep
        iskeep(o) == o.keep /\ \E e \in keeps : Dir(e.path) = Dir(o.path)
    IN (IF \A e \in exact : Has(img, e.path) THEN {} ELSE {"Missing"})
       \cup (IF \A e \in keeps : \E o \in img : o.keep /\ Dir(o.path) = Dir(e.path) /\ o.kind = "file" /\ o.cid = "" THEN {} ELSE {"MissingKeepFile"})
       \cup (IF \A o \in img : o.path \in want \/ o.path \in implied \/ Has(prev, o.path) \/ iskeep(o) THEN {} ELSE {"Extra"})
       \cup (IF \A e \in exact : Has(img, e.path) => At(img, e.path).kind = e.kind THEN {} ELSE {"Kind"})
       \cup (IF \A p \in implied : Has(img, p) => At(img, p).kind = "dir" THEN {} ELSE {"ImpliedDir"})
       \cup (IF \A e \in exact : Has(img, e.path) /\ At(img, e.path).kind = e.kind /\ e.mode # -1 /\ e.kind # "sym"
                                 => ModeFits(img, e) THEN {} ELSE {"Mode"})
       \cup (IF \A e \in exact : Has(img, e.path) /\ e.kind = "file" /\ At(img, e.path).kind = "file" /\ e.cid # "*hard*"
                                 => At(img, e.path).cid = e.cid THEN {} ELSE {"Content"})
       \cup (IF \A e \in exact : Has(img, e.path) /\ e.kind = "sym" /\ At(img, e.path).kind = "sym" /\ e.lnk # "*rel*"
                                 => At(img, e.path).lnk = e.lnk THEN {} ELSE {"LinkText"})
       \cup (IF \A e \in exact : Has(img, e.path) /\ e.kind = "sym" /\ At(img, e.path).kind = "sym" /\ e.lnk = "*rel*"
                                 => LET o == At(img, e.path) IN ~o.lnkabs /\ Resolve(Dir(e.path), o.lnkc) = Norm(a.src)
             THEN {} ELSE {"RelativeLink"})
       \cup (IF \A e \in exact : Has(img, e.path) /\ e.cid = "*hard*" /\ At(img, e.path).kind = "file"
                                 => Has(img, Norm(a.src)) /\ At(img, Norm(a.src)).ino = At(img, e.path).ino
             THEN {} ELSE {"HardLink"})
       \cup (IF \A o \in prev : o.path \notin want
                                 => Has(img, o.path) /\ At(img, o.path).kind = o.kind /\ At(img, o.path).cid = o.cid
                                    /\ At(img, o.path).lnk = o.lnk /\ (o.path \notin implied => At(img, o.path).mode = o.mode)
             THEN {} ELSE {"Frame"})

(* ------------------------------------------------------------------ reference result (design model) *)
\* an accepted call is applicable to an image when it does not need a non-directory to be a directory
\* (or the reverse); otherwise the operating system refuses and PMS says nothing
Applicable(img, es) ==
    LET want == Paths(es) implied == UNION {ProperAncestors(p) : p \in want} IN
    /\ \A p \in implied : Has(img, p) => At(img, p).kind = "dir"
    /\ \A p \in implied : ~\E e \in es : e.path = p /\ e.kind # "dir"
    /\ \A e \in es : Has(img, e.path) => (At(img, e.path).kind = "dir") = (e.kind = "dir")
    /\ \A e \in es : e.kind # "dir" => ~\E o \in img : o.path # e.path /\ IsPrefix(e.path, o.path)
\* observed form of an expected entry; a: the call
ObsOf(e, a, img) ==
    [path |-> e.path, kind |-> e.kind,
     mode |-> IF e.mode = -1 THEN (IF e.kind = "sym" THEN 511 ELSE M644) ELSE e.mode,
     cid |-> IF e.cid = "*hard*" THEN At(img, Norm(a.src)).cid ELSE e.cid,
     lnk |-> IF e.lnk = "*rel*" THEN "rel" ELSE e.lnk,
     lnkabs |-> FALSE,
     lnkc |-> IF e.lnk = "*rel*" THEN RelTarget(a.src, a.tgt) ELSE <<>>,
     keep |-> (Len(e.path) > 0 /\ Last(e.path) = ".keep*"),
     ino |-> IF e.cid = "*hard*" THEN At(img, Norm(a.src)).ino ELSE e.path]
ImpliedDir(p) == [path |-> p, kind |-> "dir", mode |-> M755, cid |-> "", lnk |-> "", lnkabs |-> FALSE, lnkc |-> <<>>,
                  keep |-> FALSE, ino |-> p]
Apply(img, es, a) ==
    LET want == Paths(es)
        implied == UNION {ProperAncestors(p) : p \in want}
        kept == {o \in img : o.path \notin want}
    IN kept \cup {ObsOf(e, a, img) : e \in es}
            \cup {ImpliedDir(p) : p \in {q \in implied : ~Has(img, q) /\ q \notin want}}
=========================================================================
