---------------------------- MODULE Resolver_Laws ----------------------------
(* Constant-level laws of the Resolver specification, evaluated by TLC over LawFamilyOf(Family):
     Formulations  the clause-by-clause judge (PlanViolations, applied to the plan that merges
                   F's source packages and removes the installed ones F drops) and the
                   brute-force oracle's ValidFinal agree on EVERY candidate final set F;
     RobustIsResolvable  the domain in which the policy clauses are judged lies inside the
                   resolvable inputs;
     MatchLaws     the comparison operators partition the versions; the version order is a strict
                   total order reading components as numbers (9 < 10, 1.9 < 1.10, 1 < 1.0).          *)
EXTENDS Resolver_Worlds, SequencesExt

OpsFor(w, F) == SetToSeq({[t |-> "remove", p |-> p.id, old |-> "-"] : p \in Vdb(w) \ F})
                \o SetToSeq({[t |-> "add", p |-> p.id, old |-> "-"] : p \in F \ Vdb(w)})

\* (the laws take the family as a parameter: TLC evaluates zero-arity definitions eagerly)
Formulations(fam) ==
  \A c \in fam :
    LET w == WorldOfSeq(c.pkgs)  ts == SeqSet(TargetsOfSeq(c.targets)) IN
    \A F \in SUBSET w : (PlanViolations(w, ts, OpsFor(w, F)) = {}) <=> ValidFinal(w, ts, F)

RobustIsResolvable(fam) ==
  \A c \in fam :
    LET w == WorldOfSeq(c.pkgs)  ts == SeqSet(TargetsOfSeq(c.targets)) IN
    WellFormed(w) /\ (Robust(w, ts) => Resolvable(w, ts))

P0(v) == [id |-> "x", key |-> "k", ver |-> v, slot |-> "0", repo |-> "src"]
LawVersions == {<<1>>, <<2>>, <<9>>, <<10>>, <<1, 0>>, <<1, 9>>, <<1, 10>>, <<2, 9>>, <<2, 10>>, <<1, 9, 1>>}
MatchLaws(vs) ==
  /\ \A v \in vs, n \in vs :
       LET p == P0(v)  at(op) == [key |-> "k", op |-> op, ver |-> n, slot |-> "*", blk |-> "none"] IN
       /\ (Matches(at(">="), p) <=> ~Matches(at("<"), p))
       /\ (Matches(at("<="), p) <=> ~Matches(at(">"), p))
       /\ (Matches(at("="), p) <=> (Matches(at(">="), p) /\ Matches(at("<="), p)))
       /\ Matches(at("any"), p)
       /\ ~Matches([at("any") EXCEPT !.slot = "1"], p) /\ ~Matches([at("any") EXCEPT !.key = "j"], p)
  \* the version order is a strict total order that reads components as numbers
  /\ \A a, b \in vs : (a = b) \/ VLess(a, b) \/ VLess(b, a)
  /\ \A a, b \in vs : ~(VLess(a, b) /\ VLess(b, a))
  /\ \A a, b, c \in vs : (VLess(a, b) /\ VLess(b, c)) => VLess(a, c)
  /\ VLess(<<9>>, <<10>>) /\ VLess(<<1, 9>>, <<1, 10>>) /\ VLess(<<2, 9>>, <<2, 10>>)
  /\ VLess(<<1>>, <<1, 0>>) /\ VLess(<<1, 10>>, <<2>>) /\ VLess(<<1, 9>>, <<1, 9, 1>>)

ASSUME MatchLaws(LawVersions)
ASSUME RobustIsResolvable(LawFamilyOf(Family))
ASSUME Formulations(LawFamilyOf(Family))
=========================================================================
