---------------------------- MODULE Resolver_Laws ----------------------------
(* Constant-level laws of the Resolver specification, evaluated by TLC over LawFamilyOf(Family):
     Formulations  the clause-by-clause judge (PlanViolations, applied to the plan that merges
                   F's source packages and removes the installed ones F drops) and the
                   brute-force oracle's ValidFinal agree on EVERY candidate final set F;
     RobustIsResolvable  the domain in which the policy clauses are judged lies inside the
                   resolvable inputs;
     MatchLaws     the comparison operators partition the versions as PMS says.          *)
EXTENDS Resolver_Worlds, SequencesExt

OpsFor(w, F) == SetToSeq({[t |-> "remove", p |-> p.id, old |-> "-"] : p \in Vdb(w) \ F})
                \o SetToSeq({[t |-> "add", p |-> p.id, old |-> "-"] : p \in F \ Vdb(w)})

\* (the laws take the family as a parameter: TLC evaluates zero-arity definitions eagerly)
Formulations(fam) ==
  \A c \in fam :
    LET w == WorldOfSeq(c.pkgs)  ts == SeqSet(TargetsOfSeq(c.targets)) IN
    \A F \in SUBSET w : (PlanViolations(w, ts, OpsFor(w, F)) = {}) <=> ValidFinal(w, ts, F)

RobustIsResolvable(fam) ==
  \A c \in fam :
    LET w == WorldOfSeq(c.pkgs)  ts == SeqSet(TargetsOfSeq(c.targets)) IN
    WellFormed(w) /\ (Robust(w, ts) => Resolvable(w, ts))

P0(v) == [id |-> "x", key |-> "k", ver |-> v, slot |-> "0", repo |-> "src"]
MatchLaws(top) ==
  \A v \in 0..top, n \in 0..top :
    LET p == P0(v)  at(op) == [key |-> "k", op |-> op, ver |-> n, slot |-> "*", blk |-> "none"] IN
    /\ (Matches(at(">="), p) <=> ~Matches(at("<"), p))
    /\ (Matches(at("<="), p) <=> ~Matches(at(">"), p))
    /\ (Matches(at("="), p) <=> (Matches(at(">="), p) /\ Matches(at("<="), p)))
    /\ Matches(at("any"), p)
    /\ ~Matches([at("any") EXCEPT !.slot = "1"], p) /\ ~Matches([at("any") EXCEPT !.key = "j"], p)

ASSUME MatchLaws(4)
ASSUME RobustIsResolvable(LawFamilyOf(Family))
ASSUME Formulations(LawFamilyOf(Family))
=========================================================================
