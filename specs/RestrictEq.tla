---------------------------- MODULE RestrictEq ----------------------------
(* C07: restrictions that compare equal are interchangeable.

   The law (what the property says; which objects ARE equal is not prescribed):
       a == b   =>   hash(a) = hash(b)  /\  \A x : a.match(x) = b.match(x)
   and its consequence for every restriction-keyed cache (caching_repo, the lru_cache on compiled
   REQUIRED_USE constraints, snakeoil's instance cache keyed by constructor arguments): a lookup
   never returns what was computed for a key with a different meaning.

   Part 1  the law over one observation record (used by RestrictEq_Trace)
   Part 2  a reference model of version-match restrictions (ebuild/restricts.py _VersionMatch):
           descriptions, their meaning, and two candidate equality keys / hashes -- the one the
           snapshot ships and the repaired one.  RestrictEq_MC / _Laws decide which of them are
           congruences for matching (a design question TLC answers exhaustively).
   Part 3  the cache: a Python dict (hash bucket first, then ==) or a linear == scan.           *)
EXTENDS Integers, FiniteSets, Sequences

(* ---- Part 1 ---- *)
\* o: [eq: did any == between the two (either order, before or after hashing) say TRUE,
\*     heq: hashes equal, mx, my: match vectors over the same universe]
HashLaw(o)  == o.eq => o.heq
MatchLaw(o) == o.eq => o.mx = o.my

(* ---- Part 2: _VersionMatch(op, ver, rev, negate) ---- *)
Ops == {"<", "<=", "=", ">=", ">", "~"}
OpVals(op) == CASE op = "<" -> {-1} [] op = "<=" -> {-1, 0} [] op = "=" -> {0} [] op = ">=" -> {0, 1}
                [] op = ">" -> {1} [] op = "~" -> {0}
DropRev(d) == d.op = "~"
Sign(a, b) == IF a < b THEN -1 ELSE IF a > b THEN 1 ELSE 0
\* package version x = [v, r] against restriction d = [op, v, r, neg]
Cmp(d, x) == IF DropRev(d) THEN Sign(x.v, d.v)
             ELSE IF x.v # d.v THEN Sign(x.v, d.v) ELSE Sign(x.r, d.r)
VmMatch(d, x) == (Cmp(d, x) \in OpVals(d.op)) # d.neg

\* shipped (restricts.py at the snapshot): negation folded into the operator set -- except for ~,
\* where the negate flag is simply lost; the hash uses the raw flag and the raw operator set
ShippedOps(d) == IF d.neg /\ ~DropRev(d) THEN {-1, 0, 1} \ OpVals(d.op) ELSE OpVals(d.op)
ShippedKey(d)  == <<DropRev(d), d.v, d.r, ShippedOps(d)>>
ShippedHash(d) == <<DropRev(d), d.v, d.r, d.neg, OpVals(d.op)>>
\* repaired: the flag stays part of the key where it cannot be folded; hash = key
FixedKey(d)  == <<DropRev(d), d.v, d.r, ShippedOps(d), DropRev(d) /\ d.neg>>
FixedHash(d) == FixedKey(d)

Congruence(Key(_), D, X) == \A a, b \in D : Key(a) = Key(b) => \A x \in X : VmMatch(a, x) = VmMatch(b, x)
HashAgrees(Key(_), Hash(_), D) == \A a, b \in D : Key(a) = Key(b) => Hash(a) = Hash(b)

(* ---- Part 3: cache keyed by restrictions ---- *)
\* entries: set of [key, val]; a lookup for k may only see entries the container's search can reach
Reachable(store, k, Key(_), Hash(_), scan) ==
    {e \in store : Key(e.key) = Key(k) /\ (scan \/ Hash(e.key) = Hash(k))}
=========================================================================
