---------------------------- MODULE AtomVer_MC ----------------------------
(* Design check of the version order used by the atom specs (C03/C04/C05): over a bounded
   grammar of versions TLC visits every triple (one state each) and checks that VerCmp is a
   total preorder, that the six operators are the usual readings of it, and the laws that tie
   the glob operator to the order.  Pair laws are only evaluated on the states with z = x.  *)
EXTENDS AtomVer, TLC
CONSTANTS Size          \* 1 = quick grammar, 2, 3 = thorough grammars
Weight(v) == (Len(v.nums) - 1) + (IF v.letter # 0 THEN 1 ELSE 0) + Len(v.sufs) + (IF v.rev # <<>> THEN 1 ELSE 0)
Small == VersOf({<<1>>, <<1, 0>>}, {<<0>>, <<0, 1>>, <<1>>}, 2, {0, 1},
                {"alpha", "p"}, {<<>>, <<1>>}, 1, {<<>>, <<0>>, <<1>>})
Base == VersOf({<<1>>, <<2>>, <<1, 0>>}, {<<0>>, <<1>>, <<0, 1>>, <<1, 0>>, <<0, 1, 0>>}, 2, {0, 1, 2},
               {"alpha", "rc", "p"}, {<<>>, <<0>>, <<1>>}, 2, {<<>>, <<0>>, <<1>>, <<0, 1>>})
Tiny == VersOf({<<1>>, <<1, 0>>}, {<<0>>, <<0, 1>>}, 2, {0, 1}, {"alpha", "p"}, {<<1>>}, 1, {<<>>, <<1>>})
GVers == TLCEval(IF Size = 1 THEN {v \in Tiny : Weight(v) <= 1}
                 ELSE IF Size = 2 THEN {v \in Base : Weight(v) <= 1}
                 ELSE {v \in Small : Weight(v) <= 2})
ASSUME PrintT(<<"GVers", Cardinality(GVers)>>)
VARIABLES x, y, z, ph
vars == <<x, y, z, ph>>
Init == x \in GVers /\ y = x /\ z = x /\ ph = 0
Next == ph = 0 /\ ph' = 1 /\ x' = x /\ y' \in GVers /\ z' \in GVers
Spec == Init /\ [][Next]_vars

Refl     == ph = 0 => VerCmp(x, x) = 0
AntiSym  == z = x => VerCmp(x, y) = 0 - VerCmp(y, x)
Trans    == (VerCmp(x, y) <= 0 /\ VerCmp(y, z) <= 0) => VerCmp(x, z) <= 0
TransEq  == (VerCmp(x, y) = 0 /\ VerCmp(y, z) = 0) => VerCmp(x, z) = 0
Ops      == z = x =>
            /\ (OpHolds("<=", x, y) <=> (OpHolds("<", x, y) \/ OpHolds("=", x, y)))
            /\ (OpHolds(">=", x, y) <=> (OpHolds(">", x, y) \/ OpHolds("=", x, y)))
            /\ (OpHolds("<", x, y) <=> OpHolds(">", y, x))
            /\ Cardinality({o \in {"<", "=", ">"} : OpHolds(o, x, y)}) = 1
            /\ (OpHolds("~", x, y) <=> OpHolds("=", NoRev(x), NoRev(y)))
\* glob laws: own version, equality never contradicts the glob, prefix-of-prefix
GlobSelf == ph = 0 => Glob(x, x) = "T"
GlobEq   == z = x => /\ (OpHolds("=", y, x) => Glob(x, y) # "F")
                     /\ (x.rev = <<>> /\ OpHolds("~", y, x) => Glob(x, y) # "F")
GlobTrans == (Glob(x, y) = "T" /\ y.rev = <<>> /\ Glob(y, z) = "T") => Glob(x, z) = "T"
\* a (non-zero) revision written in the glob only ever matches that very revision
GlobRev  == z = x => ((NatCmp(x.rev, <<>>) # 0 /\ Glob(x, y) # "F") => VerCmp(x, y) = 0)
\* a glob without revision matches every revision of what it matches
GlobAnyRev == z = x => (x.rev = <<>> => Glob(x, y) = Glob(x, NoRev(y)))
\* the text is faithful: equal records <=> equal text
TextInj  == z = x => ((VerText(x) = VerText(y)) <=> (x = y))
IncLaw   == z = x => /\ NatCmp(DigInc(x.rev), x.rev) = 1
                     /\ (NatCmp(y.rev, x.rev) = 1 => NatCmp(y.rev, DigInc(x.rev)) >= 0)
=========================================================================
