---------------------------- MODULE AtomVer_MC ----------------------------
(* Design check of the version order used by the atom specs: over a bounded grammar of
   versions TLC visits every triple (one state each) and checks that VerCmp is a total
   preorder, that the six operators are the usual readings of it, and the laws that tie the
   glob operator to the order.                                                           *)
EXTENDS AtomVer, TLC
CONSTANTS Size          \* 1 = quick grammar, 2 = thorough grammar
D(n) == IF n < 10 THEN <<n>> ELSE <<n \div 10, n % 10>>
GVers == IF Size = 1
         THEN VersOf({<<1>>, <<2>>, <<1, 0>>}, {<<0>>, <<1>>, <<0, 1>>, <<1, 0>>}, 2, {0, 1}, {"alpha", "p"}, {<<>>, <<1>>}, 1, {<<>>, <<0>>, <<1>>})
         ELSE VersOf({<<0>>, <<1>>, <<2>>, <<1, 0>>}, {<<0>>, <<1>>, <<0, 1>>, <<1, 0>>, <<0, 1, 0>>}, 2, {0, 1, 2}, {"alpha", "rc", "p"}, {<<>>, <<0>>, <<1>>}, 1, {<<>>, <<0>>, <<1>>, <<0, 1>>})
VARIABLES x, y, z
Init == x \in GVers /\ y \in GVers /\ z \in GVers
Next == UNCHANGED <<x, y, z>>
Spec == Init /\ [][Next]_<<x, y, z>>

Refl     == VerCmp(x, x) = 0
AntiSym  == VerCmp(x, y) = 0 - VerCmp(y, x)
Trans    == (VerCmp(x, y) <= 0 /\ VerCmp(y, z) <= 0) => VerCmp(x, z) <= 0
TransEq  == (VerCmp(x, y) = 0 /\ VerCmp(y, z) = 0) => VerCmp(x, z) = 0
Ops      == /\ (OpHolds("<=", x, y) <=> (OpHolds("<", x, y) \/ OpHolds("=", x, y)))
            /\ (OpHolds(">=", x, y) <=> (OpHolds(">", x, y) \/ OpHolds("=", x, y)))
            /\ (OpHolds("<", x, y) <=> OpHolds(">", y, x))
            /\ Cardinality({o \in {"<", "=", ">"} : OpHolds(o, x, y)}) = 1
            /\ (OpHolds("~", x, y) <=> OpHolds("=", NoRev(x), NoRev(y)))
\* glob laws: own version, equality never contradicts the glob, prefix-of-prefix, congruence
GlobSelf == Glob(x, x) = "T"
GlobEq   == (OpHolds("=", y, x) => Glob(x, y) # "F") /\ (x.rev = <<>> /\ OpHolds("~", y, x) => Glob(x, y) # "F")
GlobTrans == (Glob(x, y) = "T" /\ y.rev = <<>> /\ Glob(y, z) = "T") => Glob(x, z) = "T"
\* a version with a revision written in the glob only ever matches that very revision
GlobRev  == (x.rev # <<>> /\ Glob(x, y) # "F") => VerCmp(x, y) = 0
\* the text is faithful: equal records <=> equal text
TextInj  == (VerText(x) = VerText(y)) <=> (x = y)
IncLaw   == NatCmp(DigInc(x.rev), x.rev) = 1 /\ (NatCmp(y.rev, x.rev) = 1 => NatCmp(y.rev, DigInc(x.rev)) >= 0)
=========================================================================
