---------------------------- MODULE CacheStore_Trace ----------------------------
(* code -> spec for C27.  Events recorded from the real flat_hash.database / md5_cache:
   {tid, i, ev:"store",  layout, known:[key..], stored:ENTRY, got:VIEW, keys:[cpv..], before:[cpv..], cpv}
        an uninterrupted  cache[cpv] = values ; got = cache[cpv] read back by a FRESH cache object,
        keys = list(cache.keys()) afterwards, before = the packages stored beforehand
   {tid, i, ev:"reader", kind, k, got:VIEW, keys:[..], old:VIEW, new:VIEW, before:[..], cpv}
        the store was cut (kind "cut"/"cut-half") or hit an I/O error (kind "eio") at mutation k; got/keys
        = what the real readers return afterwards; old / new = what they return on the untouched old
        state and after the completed store
   ENTRY = {vals:[{k,v}..], hasecl, ecl:[{name,dir,mtime,md5}..], chf:{mtime,md5}}
   VIEW  = {state:"ok"|"absent"|"corrupt", entry:ENTRY}                                        *)
EXTENDS CacheStore, TraceLib
VARIABLE l
Ent(x) == [vals |-> {[k |-> x.vals[j].k, v |-> x.vals[j].v] : j \in DOMAIN x.vals}, hasecl |-> x.hasecl,
           ecl |-> {[name |-> x.ecl[j].name, dir |-> x.ecl[j].dir, mtime |-> x.ecl[j].mtime, md5 |-> x.ecl[j].md5] : j \in DOMAIN x.ecl},
           chf |-> [mtime |-> x.chf.mtime, md5 |-> x.chf.md5]]
View(v) == IF v.state = "ok" THEN [state |-> "ok", e |-> Ent(v.entry)] ELSE [state |-> v.state]
JudgeStore(e) ==
  LET known == AsSet(e.known)  st == Ent(e.stored) IN
  IF e.got.state # "ok" THEN {"ReadBack"}
  ELSE LET ld == Ent(e.got.entry) IN
       (IF RoundTripVals(e.layout, known, st, ld) THEN {} ELSE {"RoundTripVals"})
       \cup (IF RoundTripEcl(e.layout, known, st, ld) THEN {} ELSE {"RoundTripEcl"})
       \cup (IF RoundTripChf(e.layout, known, st, ld) THEN {} ELSE {"RoundTripChf"})
       \cup (IF Len(e.keys) = Cardinality(AsSet(e.keys)) /\ AsSet(e.keys) = AsSet(e.before) \cup {e.cpv} THEN {} ELSE {"KeysAfterStore"})
JudgeReader(e) ==
  (IF GetOldOrNew(View(e.got), View(e.old), View(e.new)) THEN {} ELSE {"GetOldOrNew"})
  \cup (IF KeysOnlyPackages(AsSet(e.keys), AsSet(e.before) \cup {e.cpv}) THEN {} ELSE {"KeysOnlyPackages"})
  \cup (IF KeysKeepOthers(AsSet(e.keys), AsSet(e.before), e.cpv) THEN {} ELSE {"KeysKeepOthers"})
  \cup (IF (e.cpv \in AsSet(e.keys)) <=> (e.got.state # "absent") THEN {} ELSE {"KeysMatchGet"})
Judge(e) == CASE e.ev = "store" -> JudgeStore(e) [] e.ev = "reader" -> JudgeReader(e) [] OTHER -> {"UnknownEvent"}
TraceInit == l = 0
TraceNext == /\ l < Len(Tr) /\ l' = l + 1
             /\ Report(Tr[l'].tid, Tr[l'].i, Judge(Tr[l']))
             /\ EndMark(l')
TraceSpec == TraceInit /\ [][TraceNext]_l
=========================================================================
