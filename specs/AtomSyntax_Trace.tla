---------------------------- MODULE AtomSyntax_Trace ----------------------------
(* code -> spec for C03.  One event per string handed to the real atom():
     {tid, i, chars, eapi, accepted, raised,
      attrs : {blocks, op, cat, pkg, ver, rev, slot, subslot, slotop, repo, use}   what the parser read
      rendered,                      str(atom) as code points
      rt_ok, rt_equal,               atom(str(atom), eapi) parsed / compares equal (both ways)
      m1, m2,                        match vectors of the atom / the re-parsed atom on a package universe
      kls_accepted, kls_equal}       the same text through the EAPI object's own atom class (EAPI.atom_kls, what
                                     dependency strings of ebuilds and profile files are parsed with): accepted,
                                     and equal to the atom built with atom(text, eapi=...); for "no EAPI" there
                                     is no such class and the two fields repeat accepted / TRUE
   (attrs ... m2 are dummies when the string was not accepted).
   Clauses: AcceptedInvalid_<why> , RejectedValid , ParsedAttrs_<field> , Render_faithful ,
            Roundtrip_reparse , Roundtrip_equal , Roundtrip_matches ,
            AcceptedInvalidByEapiClass_<why> , RejectedValidByEapiClass , EapiClass_differs ;
            "Unspecified" = not judged. *)
EXTENDS AtomSyntax, TraceLib
VARIABLE l
ObsSt(o) == [blocks |-> o.blocks, op |-> o.op, cat |-> o.cat, pkg |-> o.pkg, ver |-> o.ver, rev |-> o.rev, slot |-> o.slot,
             subslot |-> o.subslot, slotop |-> o.slotop, repo |-> o.repo, use |-> AsSet(o.use)]
FieldNames == {"blocks", "op", "cat", "pkg", "ver", "rev", "slot", "subslot", "slotop", "repo", "use"}
Differ(x, y) == {f \in FieldNames : x[f] # y[f]}
Judge(e) ==
    LET p == Parse(e.chars, e.eapi) IN
    IF p.v = "Unspecified" THEN {"Unspecified"}
    ELSE IF p.v = "Reject" THEN (IF e.accepted THEN {"AcceptedInvalid_" \o p.why} ELSE {})
                                \cup (IF e.kls_accepted THEN {"AcceptedInvalidByEapiClass_" \o p.why} ELSE {})
    ELSE IF ~e.accepted \/ ~e.kls_accepted
         THEN (IF e.accepted THEN {} ELSE {"RejectedValid"}) \cup (IF e.kls_accepted THEN {} ELSE {"RejectedValidByEapiClass"})
    ELSE LET q == Parse(e.rendered, e.eapi) IN
         (IF e.kls_equal THEN {} ELSE {"EapiClass_differs"}) \cup
         {"ParsedAttrs_" \o f : f \in Differ(ObsSt(e.attrs), p.st)}
         \cup (IF q.v = "Accept" /\ q.st = p.st THEN {} ELSE {"Render_faithful"})
         \cup (IF e.rt_ok THEN {} ELSE {"Roundtrip_reparse"})
         \cup (IF e.rt_ok /\ ~e.rt_equal THEN {"Roundtrip_equal"} ELSE {})
         \cup (IF e.rt_ok /\ e.m1 # e.m2 THEN {"Roundtrip_matches"} ELSE {})
TraceInit == l = 0
TraceNext == /\ l < Len(Tr)
             /\ l' = l + 1
             /\ Report(Tr[l'].tid, Tr[l'].i, Judge(Tr[l']))
             /\ EndMark(l')
TraceSpec == TraceInit /\ [][TraceNext]_l
=========================================================================
