---------------------------- MODULE Incremental_Export ----------------------------
(* spec -> code: every token stream of length <= N over the alphabet. *)
EXTENDS Incremental_Alphabet, TLC, Json, IOUtils, SequencesExt
CONSTANT N
Cases == {[toks |-> s] : s \in Streams(N)}
ASSUME ndJsonSerialize(IOEnv.OUT, SetToSeq(Cases))
=========================================================================
