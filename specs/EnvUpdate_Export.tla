---------------------------- MODULE EnvUpdate_Export ----------------------------
(* spec -> code for the pure functions: every env.d made of at most MaxFiles files of XTable,
   with the CONFIG_PROTECT extras and probe paths; the driver builds each tree, calls
   collapse_envd / perform_env_update / gen_config_protect_filter and records what they
   return; EnvUpdate_Trace judges.  Also evaluates the constant-level laws.              *)
EXTENDS EnvUpdate_Universe, TLC, Json, IOUtils, SequencesExt, FiniteSetsExt
CONSTANT MaxFiles
XIds == {XTable[n].id : n \in DOMAIN XTable}
Subsets == UNION {kSubset(k, XIds) : k \in 0..MaxFiles}
Probes == UNION {{r.comps \o <<"f">>, r.comps \o <<"sub", "f">>} \cup (IF r.comps = <<>> THEN {} ELSE {r.comps}) : r \in PathTable}
Extras == << [p |-> {}, m |-> {}], [p |-> {"/opt/cfg"}, m |-> {"/opt/cfg/sub"}], [p |-> {"/usr/share/app"}, m |-> {"/etc"}] >>
Cases == {[t |-> "case", envd |-> SetToSeq(S), extras |-> [n \in DOMAIN Extras |-> [p |-> SetToSeq(Extras[n].p), m |-> SetToSeq(Extras[n].m)]],
           probes |-> SetToSeq(Probes)] : S \in Subsets}
Header == [t |-> "universe", hist |-> HistTable, x |-> XTable, paths |-> SetToSeq(PathTable),
           names |-> [idx |-> SetToSeq(IndexNames), hid |-> SetToSeq(HiddenNames), info |-> SetToSeq(InfoNames)],
           outcome |-> [n \in 1..Cardinality(InfoNames) |-> LET f == SetToSeq(InfoNames)[n] IN [f |-> f, o |-> Outcome(f)]]]
ASSUME ndJsonSerialize(IOEnv.OUT, <<Header>> \o SetToSeq(Cases))

(* laws of the fold (over the whole exported space) *)
XF(S) == {TableFile(XTable, i) : i \in S}
\* ineligible names never matter
ASSUME \A S \in Subsets : Digest(XF(S)) = Digest(Elig(XF(S)))
\* the order of variable names is the one the spec claims: VarSeq has no duplicates
ASSUME NoDups(VarSeq)
\* a plain variable never accumulates, an incremental one never loses a piece
ASSUME \A S \in Subsets : ~Broken(XF(S)) => \A k \in Defined(XF(S)) :
          LET c == Collapsed(XF(S), k) IN
          IF c.kind = "str" THEN \E f \in Elig(XF(S)) : k \in DefinedIn(f) /\ c.str = Cat(ValIn(f, k))
          ELSE \A f \in Elig(XF(S)) : k \in DefinedIn(f) =>
                  \A p \in SeqSet(SplitAt(ValIn(f, k), IF k \in ColonVars(XF(S)) THEN Col ELSE Sp)) : Cat(p) \in SeqSet(c.list)
\* adding a mask never protects more, adding a protect never protects less
ASSUME \A S \in kSubset(2, XIds) : \A q \in Probes :
          /\ Protected(XF(S), {}, {"/etc/app"}, q) => Protected(XF(S), {}, {}, q)
          /\ Protected(XF(S), {}, {}, q) => Protected(XF(S), {"/opt/cfg"}, {}, q)
=========================================================================
