---------------------------- MODULE ConfigCentral ----------------------------
(* G04: the configuration manager as a state machine
   (src/pkgcore/config/central.py ConfigManager / CollapsedConfig / _ConfigMapping,
    src/pkgcore/config/basics.py LazySectionRef / DictConfigSection).

   C43 (ConfigInherit) specifies WHICH VALUES a collapsed section has.  This module specifies
   the manager over time: what it lists, caches, calls and hands out after any sequence of
       collapse_named_section / .instantiate / objects.<type>[name] / objects.<type>.keys() /
       get_default / lazy-reference use / reload / add_config_source
   including the calls that fail.

   WORLD.  Lib is a library of config sources; a source is an ORDERED list of bindings
       [name, kind, ty, beh, refs, want, lazy, lwant, dflt, load, inh]
     kind "obj"     a configurable of type ty; its callable returns an object (beh "ok"), raises
                    (beh "raise") or returns None (beh "none")
          "loader"  a configurable of type "configsection"; called while the environment switch
                    sw is FALSE/TRUE it returns source number load[1]/load[2] (0: it raises)
          "noclass" a section without class, "inhonly" an inherit-only section
     refs (typed want)   : names of sections handed over INSTANTIATED  (ref: / refs:)
     lazy (typed lwant)  : names handed over as lazy references         (lazy_ref: / lazy_refs:)
     dflt                : default = true
     inh                 : inherit = these names (never its own name).  WHICH VALUES are inherited is
                           C43's business: a collapsible section that inherits states all its own
                           keys, so here inheriting can only FAIL (target defined nowhere, cycle) --
                           and a failure must leave no trace, like every other failed query
   A binding whose name is in AutoNames ("autoload...") is executed while its source is loaded.

   MANAGER STATE  m = [orig, sw, stk, ren, inst, lzc, seq, broken]
     orig  : Seq(source number)          original_config_sources
     sw    : BOOLEAN                      the environment switch (not part of the manager)
     stk   : name -> Seq(source number)   sections_lookup, newest definition first; DOMAIN = sections()
     ren   : name -> source number        rendered_sections: the definition a cached collapse used
     inst  : name -> [tok, args, child]   the ONE object made for that section: serial number of the
                                          callable invocation that made it, the objects it was given
     lzc   : SUBSET (name \X Nat)         lazy references that hold a collapsed config
     seq   : Nat                          invocations of configurables so far (any manager outcome)
     broken: BOOLEAN                      a reload failed: contents unspecified until one succeeds

   Every public call is an operator  m |-> [m, calls, exc, sec, tok, ty, flag, keys]
   (calls = the configurables invoked by that call, in order).

   WHAT A USER RELIES ON (checked by ConfigCentral_MC on the model, by ConfigCentral_Trace on the code)
     AtMostOnce       between two loads a section's configurable succeeds at most once; everybody
                      (direct, by reference, objects.<type>, get_default, lazy reference) gets that object
     OnlyAfter        a configurable is invoked only after every section it references has been
                      instantiated, and is given exactly those objects
     CacheCoherent    a cached collapse always is the collapse of the newest definition
     OrderIndependent the outcome of a query is a function of the loaded sources, never of earlier queries
     NoResidue        a failed query changes neither sections() nor the sources, releases the
                      recursion guard, and the same query fails the same way again; a refused
                      add_config_source leaves the manager exactly as it was (AddIsAtomic)
     Include          an autoload section acts where it stands: definitions before it in its source
                      are older than what it loads, definitions after it are newer; what it loads
                      may not redefine anything that has been collapsed already (RefuseRedefinition)
   The three CONSTANT switches select the specified design (TRUE) or a broken variant TLC must
   refute (vacuity guards in the driver).                                                      *)
EXTENDS Integers, Sequences, FiniteSets, TLC

CONSTANTS Lib, AutoNames,
          RefuseRedefinition,    \* a source may not redefine a section that is collapsed already
          LazyCheckBeforeCache,  \* a lazy reference keeps a config only after its type was checked
          AddIsAtomic            \* a refused add_config_source leaves no trace

(* ---------- the library ---------- *)
SrcNames(s)  == {Lib[s][k].name : k \in DOMAIN Lib[s]}
DefAt(s, n)  == Lib[s][CHOOSE k \in DOMAIN Lib[s] : Lib[s][k].name = n]
TypeOfDef(d) == IF d.kind = "loader" THEN "configsection" ELSE d.ty
Collapsible(d) == d.kind \in {"obj", "loader"}

Empty == <<>>      \* the function with empty domain
Put(f, k, v) == (k :> v) @@ f

(* ---------- collapse_named_section ----------
   ren is threaded through: sections collapsed on the way stay cached even when the
   section that asked for them fails.  guard = the names being collapsed (_refs).      *)
\* _get_inherited_sections: breadth first over the inherit lists; q = names still to look at
RECURSIVE Chain(_, _, _), ChainIn(_, _, _, _, _)
Chain(stk, q, seen) ==
  IF q = <<>> THEN TRUE ELSE ChainIn(stk, Tail(q), seen, DefAt(stk[q[1]][1], q[1]).inh, 1)
ChainIn(stk, q, seen, inh, k) ==
  IF k > Len(inh) THEN Chain(stk, q, seen)
  ELSE IF inh[k] \in seen THEN FALSE                   \* "Inherit .. is recursive"
  ELSE IF inh[k] \notin DOMAIN stk THEN FALSE          \* "Inherit target .. cannot be found"
  ELSE ChainIn(stk, Append(q, inh[k]), seen \cup {inh[k]}, inh, k + 1)
InheritOk(stk, n) == Chain(stk, <<n>>, {n})

RECURSIVE Col(_, _, _, _), ColRefs(_, _, _, _, _, _)
Col(stk, ren, n, guard) ==
  IF n \in guard THEN [st |-> "error", ren |-> ren]                \* "Reference to .. is recursive"
  ELSE IF n \in DOMAIN ren THEN [st |-> "ok", ren |-> ren]
  ELSE IF n \notin DOMAIN stk THEN [st |-> "missing", ren |-> ren]
  ELSE LET s == stk[n][1]
           d == DefAt(s, n)
       IN IF ~Collapsible(d) \/ ~InheritOk(stk, n) THEN [st |-> "error", ren |-> ren]
          ELSE LET r == ColRefs(stk, ren, d.refs, 1, d.want, guard \cup {n})
               IN IF r.st = "ok" THEN [st |-> "ok", ren |-> Put(r.ren, n, s)]
                  ELSE [st |-> "error", ren |-> r.ren]
ColRefs(stk, ren, refs, k, want, guard) ==
  IF k > Len(refs) THEN [st |-> "ok", ren |-> ren]
  ELSE LET c == Col(stk, ren, refs[k], guard)
       IN IF c.st # "ok" THEN [st |-> "error", ren |-> c.ren]
          ELSE IF TypeOfDef(DefAt(c.ren[refs[k]], refs[k])) # want THEN [st |-> "error", ren |-> c.ren]
          ELSE ColRefs(stk, c.ren, refs, k + 1, want, guard)

\* collapsing a whole set of names: failures are skipped (objects.<type>.keys(), manager.types)
RECURSIVE ColAll(_, _, _)
ColAll(stk, ren, S) ==
  IF S = {} THEN ren
  ELSE LET n == CHOOSE x \in S : TRUE IN ColAll(stk, Col(stk, ren, n, {}).ren, S \ {n})

(* ---------- CollapsedConfig.instantiate ----------
   x = [ok, inst, seq, calls]; referenced sections first, in the order they are listed;
   a section that has its object is never invoked again; the first failure ends the attempt. *)
X0(m) == [ok |-> TRUE, inst |-> m.inst, seq |-> m.seq, calls |-> <<>>]
RECURSIVE Ins(_, _, _, _), InsRefs(_, _, _, _, _)
Ins(ren, sw, x, n) ==
  IF n \in DOMAIN x.inst THEN x
  ELSE LET s == ren[n]
           d == DefAt(s, n)
           r == InsRefs(ren, sw, x, d.refs, 1)
       IN IF ~r.ok THEN r
          ELSE LET q     == r.seq + 1
                   child == IF d.kind = "loader" THEN d.load[IF sw THEN 2 ELSE 1] ELSE 0
                   good  == IF d.kind = "loader" THEN child # 0 ELSE d.beh = "ok"
                   args  == [k \in DOMAIN d.refs |-> r.inst[d.refs[k]].tok]
                   call  == [src |-> s, name |-> n, args |-> args, seq |-> q, child |-> child]
               IN [ok |-> good, seq |-> q, calls |-> Append(r.calls, call),
                   inst |-> IF good THEN Put(r.inst, n, [tok |-> q, args |-> args, child |-> child]) ELSE r.inst]
InsRefs(ren, sw, x, refs, k) ==
  IF k > Len(refs) THEN x
  ELSE LET r == Ins(ren, sw, x, refs[k]) IN IF ~r.ok THEN r ELSE InsRefs(ren, sw, r, refs, k + 1)

(* ---------- loading the sources (reload / __init__ / add_config_source) ----------
   The agenda is a stack of [src, pos]: pos = 0 "about to enter the source".  A binding is
   pushed on its name's stack; an autoload binding is then collapsed against WHAT IS LOADED SO
   FAR, must be a configsection, is instantiated, and the source it returns is loaded in place
   before the rest of the enclosing source.  Neither a source as a whole (checked on entry) nor
   a later binding of the source being loaded may define a name that is collapsed already:
   the cached collapse would hide the new definition for good.                               *)
RECURSIVE Load(_, _)
Load(x, ag) ==
  IF x.err # "" \/ ag = <<>> THEN x
  ELSE LET f == ag[1] IN
    IF f.pos = 0 THEN
      IF RefuseRedefinition /\ SrcNames(f.src) \cap DOMAIN x.ren # {}
      THEN [x EXCEPT !.err = "ConfigurationError"]
      ELSE Load(x, <<[f EXCEPT !.pos = 1]>> \o Tail(ag))
    ELSE IF f.pos > Len(Lib[f.src]) THEN Load(x, Tail(ag))
    ELSE LET n    == Lib[f.src][f.pos].name
             old  == IF n \in DOMAIN x.stk THEN x.stk[n] ELSE <<>>
             x1   == [x EXCEPT !.stk = Put(x.stk, n, <<f.src>> \o old)]
             rest == <<[f EXCEPT !.pos = @ + 1]>> \o Tail(ag)
         IN IF RefuseRedefinition /\ n \in DOMAIN x.ren       \* collapsed meanwhile by an autoload of this very source
            THEN [x EXCEPT !.err = "ConfigurationError"]
            ELSE IF n \notin AutoNames THEN Load(x1, rest)
            ELSE LET c == Col(x1.stk, x1.ren, n, {}) IN
                 IF c.st # "ok" THEN [x1 EXCEPT !.ren = c.ren, !.err = "ConfigurationError"]
                 ELSE IF TypeOfDef(DefAt(c.ren[n], n)) # "configsection"
                      THEN [x1 EXCEPT !.ren = c.ren, !.err = "ConfigurationError"]
                 ELSE LET i  == Ins(c.ren, x1.sw, [ok |-> TRUE, inst |-> x1.inst, seq |-> x1.seq, calls |-> x1.calls], n)
                          x2 == [x1 EXCEPT !.ren = c.ren, !.inst = i.inst, !.seq = i.seq, !.calls = i.calls]
                      IN IF ~i.ok THEN [x2 EXCEPT !.err = "AutoloadInstantiationError", !.sec = n]
                         ELSE Load(x2, <<[src |-> i.inst[n].child, pos |-> 0]>> \o rest)

LoadAll(orig, sw, seq) ==
  Load([stk |-> Empty, ren |-> Empty, inst |-> Empty, seq |-> seq, calls |-> <<>>, err |-> "", sec |-> "-", sw |-> sw],
       [k \in DOMAIN orig |-> [src |-> orig[k], pos |-> 0]])

(* ---------- results ---------- *)
Res(m, calls, exc, sec, tok, ty, flag, keys) ==
  [m |-> m, calls |-> calls, exc |-> exc, sec |-> sec, tok |-> tok, ty |-> ty, flag |-> flag, keys |-> keys]
Fail(m, calls, exc, sec) == Res(m, calls, exc, sec, 0, "-", FALSE, {})
Tok(m, calls, tok)       == Res(m, calls, "", "-", tok, "-", FALSE, {})

(* ---------- public calls ---------- *)
\* ConfigManager(sources) / manager.reload(): everything cached is thrown away
DoLoad(m, orig) ==
  LET x  == LoadAll(orig, m.sw, m.seq)
      m1 == [orig |-> orig, sw |-> m.sw, stk |-> x.stk, ren |-> x.ren, inst |-> x.inst, lzc |-> {},
             seq |-> x.seq, broken |-> x.err # ""]
  IN IF x.err = "" THEN Tok(m1, x.calls, 0) ELSE Fail(m1, x.calls, x.err, x.sec)
DoInit(orig, sw, seq) == DoLoad([sw |-> sw, seq |-> seq], orig)
DoReload(m) == DoLoad(m, m.orig)

\* manager.add_config_source(source number s)
DoAdd(m, s) ==
  LET r == DoLoad(m, Append(m.orig, s))
  IN IF r.exc = "" \/ ~AddIsAtomic THEN r
     ELSE Fail([m EXCEPT !.seq = r.m.seq], r.calls, r.exc, r.sec)     \* refused: as if never asked

\* the environment changes what loaders return from now on
DoFlip(m) == Tok([m EXCEPT !.sw = ~@], <<>>, 0)

\* manager.collapse_named_section(n)
DoCollapse(m, n) ==
  LET c  == Col(m.stk, m.ren, n, {})
      m1 == [m EXCEPT !.ren = c.ren]
  IN IF c.st # "ok" THEN Fail(m1, <<>>, "ConfigurationError", "-")
     ELSE LET d == DefAt(c.ren[n], n) IN Res(m1, <<>>, "", "-", c.ren[n], TypeOfDef(d), d.dflt, {})

InstIn(m, ren, n, failexc, failsec) ==
  LET i  == Ins(ren, m.sw, X0(m), n)
      m1 == [m EXCEPT !.ren = ren, !.inst = i.inst, !.seq = i.seq]
  IN IF i.ok THEN Tok(m1, i.calls, i.inst[n].tok) ELSE Fail(m1, i.calls, failexc, failsec)

\* manager.collapse_named_section(n).instantiate()
DoInstantiate(m, n) ==
  LET c == Col(m.stk, m.ren, n, {})
  IN IF c.st # "ok" THEN Fail([m EXCEPT !.ren = c.ren], <<>>, "ConfigurationError", "-")
     ELSE InstIn(m, c.ren, n, "InstantiationError", n)

\* manager.objects.<t>[n]
DoObjGet(m, t, n) ==
  LET c == Col(m.stk, m.ren, n, {})
  IN IF c.st = "missing" THEN Fail(m, <<>>, "KeyError", "-")
     ELSE IF c.st = "error" THEN Fail([m EXCEPT !.ren = c.ren], <<>>, "ConfigurationError", "-")
     ELSE IF TypeOfDef(DefAt(c.ren[n], n)) # t THEN Fail([m EXCEPT !.ren = c.ren], <<>>, "KeyError", "-")
     ELSE InstIn(m, c.ren, n, "InstantiationError", n)

\* n in manager.objects.<t>
DoContains(m, t, n) ==
  LET c == Col(m.stk, m.ren, n, {})
  IN IF c.st = "missing" THEN Res(m, <<>>, "", "-", 0, "-", FALSE, {})
     ELSE IF c.st = "error" THEN Fail([m EXCEPT !.ren = c.ren], <<>>, "ConfigurationError", "-")
     ELSE Res([m EXCEPT !.ren = c.ren], <<>>, "", "-", 0, "-", TypeOfDef(DefAt(c.ren[n], n)) = t, {})

\* list(manager.objects.<t>.keys()): sections that cannot be collapsed are not an error here
DoObjKeys(m, t) ==
  LET ren1 == ColAll(m.stk, m.ren, DOMAIN m.stk)
  IN Res([m EXCEPT !.ren = ren1], <<>>, "", "-", 0, "-", FALSE,
         {n \in DOMAIN m.stk : n \in DOMAIN ren1 /\ TypeOfDef(DefAt(ren1[n], n)) = t})

\* manager.get_default(t): every section that is not inherit-only has to collapse
TypedNames(m) == {n \in DOMAIN m.stk : DefAt(m.stk[n][1], n).kind # "inhonly"}
DoGetDefault(m, t) ==
  LET cand == TypedNames(m)
      ren1 == ColAll(m.stk, m.ren, cand)
      m1   == [m EXCEPT !.ren = ren1]
  IN IF \E n \in cand : n \notin DOMAIN ren1 THEN Fail(m1, <<>>, "ConfigurationError", "-")
     ELSE LET ds == {n \in cand : LET d == DefAt(ren1[n], n) IN TypeOfDef(d) = t /\ d.dflt}
          IN IF ds = {} THEN Tok(m1, <<>>, 0)
             ELSE IF Cardinality(ds) > 1 THEN Fail(m1, <<>>, "ConfigurationError", "-")
             ELSE InstIn(m, ren1, CHOOSE n \in ds : TRUE, "ConfigurationError", "-")

\* the holder of lazy reference number k of collapsed section n uses it: ref.instantiate()
CanForce(m, n, k) == n \in DOMAIN m.ren /\ k \in DOMAIN DefAt(m.ren[n], n).lazy
DoForce(m, n, k) ==
  LET d == DefAt(m.ren[n], n)
      t == d.lazy[k]
  IN IF <<n, k>> \in m.lzc THEN InstIn(m, m.ren, t, "InstantiationError", t)
     ELSE LET c == Col(m.stk, m.ren, t, {}) IN
          IF c.st # "ok" THEN Fail([m EXCEPT !.ren = c.ren], <<>>, "ConfigurationError", "-")
          ELSE LET tyok == TypeOfDef(DefAt(c.ren[t], t)) = d.lwant
                   m1   == [m EXCEPT !.ren = c.ren,
                                     !.lzc = IF tyok \/ ~LazyCheckBeforeCache THEN @ \cup {<<n, k>>} ELSE @]
               IN IF ~tyok THEN Fail(m1, <<>>, "ConfigurationError", "-")
                  ELSE InstIn(m1, c.ren, t, "InstantiationError", t)

\* one operation record [op, n, t, s, k] applied to m
Apply(m, o) ==
  CASE o.op = "collapse"    -> DoCollapse(m, o.n)
    [] o.op = "instantiate" -> DoInstantiate(m, o.n)
    [] o.op = "objget"      -> DoObjGet(m, o.t, o.n)
    [] o.op = "contains"    -> DoContains(m, o.t, o.n)
    [] o.op = "objkeys"     -> DoObjKeys(m, o.t)
    [] o.op = "getdefault"  -> DoGetDefault(m, o.t)
    [] o.op = "force"       -> DoForce(m, o.n, o.k)
    [] o.op = "reload"      -> DoReload(m)
    [] o.op = "add"         -> DoAdd(m, o.s)
    [] o.op = "flip"        -> DoFlip(m)
IsQuery(o) == o.op \in {"collapse", "instantiate", "objget", "contains", "objkeys", "getdefault", "force"}
Enabled(m, o) ==
  CASE o.op = "force" -> ~m.broken /\ CanForce(m, o.n, o.k)
    [] IsQuery(o)     -> ~m.broken
    [] OTHER          -> TRUE

(* ---------- properties of one state ---------- *)
Nested(m) == DOMAIN m.inst \subseteq DOMAIN m.ren /\ DOMAIN m.ren \subseteq DOMAIN m.stk
CacheCoherent(m) == \A n \in DOMAIN m.ren : m.ren[n] = m.stk[n][1]
\* what a collapsed section refers to is collapsed too and has the demanded type
RenderedClosed(m) == \A n \in DOMAIN m.ren : LET d == DefAt(m.ren[n], n) IN
    /\ Collapsible(d)
    /\ \A k \in DOMAIN d.refs : d.refs[k] \in DOMAIN m.ren
                                 /\ TypeOfDef(DefAt(m.ren[d.refs[k]], d.refs[k])) = d.want
\* the object a section was given for a reference IS the object of that section
SharedInstances(m) == \A n \in DOMAIN m.inst : LET d == DefAt(m.ren[n], n) IN
    /\ Len(m.inst[n].args) = Len(d.refs)
    /\ \A k \in DOMAIN d.refs : d.refs[k] \in DOMAIN m.inst /\ m.inst[n].args[k] = m.inst[d.refs[k]].tok
DistinctObjects(m) == \A a, b \in DOMAIN m.inst : a # b => m.inst[a].tok # m.inst[b].tok
\* the cache never changes an answer
OrderIndependent(m, names) == \A n \in names : Col(m.stk, m.ren, n, {}).st = Col(m.stk, Empty, n, {}).st
LazyCacheSound(m) == \A p \in m.lzc : /\ p[1] \in DOMAIN m.ren
                                        /\ LET d == DefAt(m.ren[p[1]], p[1]) t == d.lazy[p[2]]
                                           IN t \in DOMAIN m.ren /\ TypeOfDef(DefAt(m.ren[t], t)) = d.lwant

(* ---------- properties of one step  m --o--> r  ---------- *)
\* no configurable that already made its object is invoked again, none succeeds twice
StepAtMostOnce(m, o, r) ==
  /\ IsQuery(o) => \A n \in DOMAIN m.inst : n \in DOMAIN r.m.inst /\ r.m.inst[n] = m.inst[n]
  /\ IsQuery(o) => \A k \in DOMAIN r.calls : r.calls[k].name \notin DOMAIN m.inst
  /\ \A j, k \in DOMAIN r.calls : j < k /\ r.calls[j].name = r.calls[k].name => r.calls[j].name \notin DOMAIN r.m.inst
\* every object handed to a configurable was made before, by the referenced section
StepOnlyAfter(m, o, r) ==
  \A k \in DOMAIN r.calls :
    LET c == r.calls[k]  d == DefAt(c.src, c.name) IN
    /\ Len(c.args) = Len(d.refs)
    /\ \A a \in DOMAIN c.args :
         \/ IsQuery(o) /\ d.refs[a] \in DOMAIN m.inst /\ m.inst[d.refs[a]].tok = c.args[a]
         \/ \E j \in 1..(k - 1) : r.calls[j].name = d.refs[a] /\ r.calls[j].seq = c.args[a]
\* a failed query: nothing the user can see moved, asking again fails the same way
StepNoResidue(m, o, r) ==
  (IsQuery(o) /\ r.exc # "") =>
     /\ r.m.stk = m.stk /\ r.m.orig = m.orig /\ r.m.broken = m.broken
     /\ Apply(r.m, o).exc = r.exc
\* a successful query asked again gives the same answer and invokes nothing
StepRepeatable(m, o, r) ==
  (IsQuery(o) /\ r.exc = "") =>
     LET r2 == Apply(r.m, o) IN
     r2.exc = "" /\ r2.tok = r.tok /\ r2.keys = r.keys /\ r2.ty = r.ty /\ r2.flag = r.flag /\ r2.calls = <<>> /\ r2.m.inst = r.m.inst
StepAddAtomic(m, o, r) ==
  (o.op = "add" /\ r.exc # "") => r.m = [m EXCEPT !.seq = r.m.seq]
=========================================================================
