---------------------------- MODULE RepoOps_MC ----------------------------
(* One operation object of kind K under every sequence of stage calls, every
   scripted outcome (True / false value / exception) of the format-specific stages.
   Variant / Recheck select the shipped design or a broken one (vacuity guards). *)
EXTENDS RepoOps
CONSTANTS K, Variant, Recheck
VARIABLE st
Scripts == [UserStages -> Outcomes]
Init == st = InitSt
Next == \E s \in StagesOf(K), sc \in Scripts :
          st' = CallStage(K, Variant, st, s, sc, Recheck).st
Spec == Init /\ [][Next]_st
InvClosed == Closed(K, st)
InvLock == LockOk(st)
InvUnderway == UnderwayOk(st)
InvNotifyOnce == NotifyOnce(st)
InvNotifyAfterData == NotifyAfterData(K, st)
\* a completed stage stays completed; notifications are never taken back
Monotone == [][st.done \subseteq st'.done /\ st'.nadd >= st.nadd /\ st'.nrem >= st.nrem]_st
\* calling finish with every stage succeeding always completes the operation and frees the lock
FinishCompletes == \A sc \in Scripts : (\A u \in UserStages : sc[u] = "T") =>
                      LET r == CallStage(K, Variant, st, "finish", sc, Recheck)
                      IN r.out = "True" /\ r.st.done = StagesOf(K) /\ r.st.lock = 0
Bound == st.lock <= 3
=============================================================================
