---------------------------- MODULE Version_Gram ----------------------------
(* C01: the bounded version grammars that TLC enumerates (model checking of the
   order laws over all pairs / triples, and export of cases to the real code).
   A grammar is a union of products, each aimed at one rule of the PMS
   algorithm (numeric components with leading zeros, letter, stacked suffixes,
   revisions) plus a mixed product, so that every rule meets every other one.
   Variable-free.                                                             *)
EXTENDS Version, FiniteSets

VSeqsUpTo(S, lo, hi) == UNION {[1..n -> S] : n \in lo..hi}

VProd(NS, L, SS, R) ==
    {[nums |-> ns, letter |-> l, sufs |-> ss, rev |-> r] : ns \in NS, l \in L, ss \in SS, r \in R}

VSuf(K, N) == {[k |-> k, n |-> n] : k \in K, n \in N}

\* numeric components: plain, multi digit, leading zeros, trailing zeros
C9 == {<<0>>, <<1>>, <<2>>, <<9>>, <<1, 0>>, <<0, 0>>, <<0, 1>>, <<0, 9>>, <<0, 1, 0>>}
C5 == {<<0>>, <<1>>, <<1, 0>>, <<0, 1>>, <<0, 1, 0>>}
C3 == {<<0>>, <<1>>, <<0, 1>>}
VNone == {<<>>}
AllK == VSufKinds
N3 == {<<>>, <<0>>, <<1>>}
N4 == {<<>>, <<0>>, <<1>>, <<0, 2>>}
R4 == {<<>>, <<0>>, <<1>>, <<0, 1>>}

(* ---- quick (about 100 versions) ---- *)
QNums   == VSeqsUpTo(C9, 1, 1)
           \cup {<<<<1>>, c>> : c \in C9}
           \cup {<<<<0, 1>>, c>> : c \in C3}
           \cup {<<<<1>>, <<0>>, c>> : c \in C3}
QSufs1  == VSeqsUpTo(VSuf(AllK, N3), 0, 1)
QSufs2  == VSeqsUpTo(VSuf({"alpha", "p"}, {<<>>, <<1>>}), 2, 2)
VersQuick ==
         VProd(QNums, {0}, VNone, VNone)
    \cup VProd({<<<<1>>>>}, {0, 1, 2}, VNone, {<<>>, <<0>>, <<1>>})
    \cup VProd({<<<<1>>, <<0>>>>}, {0, 1}, VNone, VNone)
    \cup VProd({<<<<1>>>>}, {0}, QSufs1, {<<>>, <<1>>})
    \cup VProd({<<<<1>>>>}, {0}, QSufs2, VNone)
    \cup VProd({<<<<1>>>>, <<<<1>>, <<0, 1>>>>}, {0, 1},
               {<<>>, <<[k |-> "rc", n |-> <<>>]>>, <<[k |-> "p", n |-> <<1>>]>>}, {<<>>, <<0, 1>>})

(* ---- thorough, triples (about 300 versions) ---- *)
TNums   == VSeqsUpTo(C9, 1, 2)
           \cup {<<f, a, b>> : f \in {<<1>>}, a \in C5, b \in C3}
TSufs   == VSeqsUpTo(VSuf(AllK, N3), 0, 1)
           \cup VSeqsUpTo(VSuf({"alpha", "p"}, {<<>>, <<1>>}), 2, 2)
           \cup {<<s, s, s>> : s \in VSuf({"alpha", "p"}, {<<>>})}
VersThorough ==
         VProd(TNums, {0}, VNone, VNone)
    \cup VProd({<<<<1>>>>, <<<<1>>, <<0>>>>}, {0, 1, 2, 26}, VNone, R4)
    \cup VProd({<<<<1>>>>}, {0}, TSufs, {<<>>, <<1>>})
    \cup VProd({<<<<1>>>>, <<<<0, 1>>>>, <<<<1>>, <<0, 1>>>>}, {0, 1},
               VSeqsUpTo(VSuf({"rc", "p"}, {<<>>, <<1>>}), 0, 1), {<<>>, <<0>>, <<0, 1>>})

(* ---- thorough, pairs replayed into the code (about 500 versions) ---- *)
PNums   == VSeqsUpTo(C9, 1, 2)
           \cup {<<f, a, b>> : f \in {<<1>>, <<0, 1>>}, a \in C5, b \in C5}
PSufs   == VSeqsUpTo(VSuf(AllK, N4), 0, 1)
           \cup VSeqsUpTo(VSuf({"alpha", "rc", "p"}, {<<>>, <<1>>}), 2, 2)
           \cup {<<s, s, s>> : s \in VSuf(AllK, {<<>>})}
VersPairs ==
         VProd(PNums, {0}, VNone, VNone)
    \cup VProd({<<<<1>>>>, <<<<1>>, <<0>>>>, <<<<1>>, <<0, 0>>>>, <<<<1, 0>>>>}, {0, 1, 2, 26}, VNone, R4)
    \cup VProd({<<<<1>>>>}, {0}, PSufs, {<<>>, <<1>>})
    \cup VProd({<<<<1>>>>, <<<<0, 1>>>>, <<<<1>>, <<0, 1>>>>, <<<<1>>, <<0, 1, 0>>>>}, {0, 1},
               VSeqsUpTo(VSuf({"alpha", "rc", "p"}, {<<>>, <<1>>}), 0, 1), {<<>>, <<0>>, <<0, 1>>})
=============================================================================
