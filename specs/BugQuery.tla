---------------------------- MODULE BugQuery ----------------------------
(* C37: Bugzilla searches (src/pkgcore/bugzilla/query.py).

   A search is  [simple, charts, limit, offset, order]:
     simple : Seq([key, vals])      repeated plain parameters; Bugzilla ORs the values of one
                                    key and ANDs across keys, so their meaning is the SET of
                                    <<key, value>> pairs
     charts : Seq(Chart)            boolean-chart conditions, ANDed at top level
     Chart ::= Crit(field, op, vals, neg) | Group(join, kids)
   Rendering produces ordered parameters.  TLC cannot look inside strings, so a parameter
   name is carried split:  [k, n, key, v, iv]
     k = "s"                       plain parameter  key=v
     k \in {"f","o","v","n","j"}   chart parameter  <k><n>=v           (n = slot number)
     k \in {"limit","offset"}      iv = the integer ; k = "order" : v
   The REFERENCE BUGZILLA-CHART EVALUATOR is ParseCharts: collect the chart parameters by slot,
   walk the slots in increasing order, f=OP opens a group joined by j<n>, f=CP closes it.
   ChartHolds/QHolds give the truth value of a parsed search on a bug (a set of
   <<field, word>> pairs), so "keeps its meaning" can be judged as a truth table.          *)
EXTENDS Integers, Sequences, SequencesExt, FiniteSets, TLC

NoNum   == -1        \* limit / offset not set
NoOrder == ""        \* order not set

SeqSet(s) == {s[i] : i \in DOMAIN s}

(* ------------------------------ terms ------------------------------ *)
Crit(f, o, vs, n, sp) == [t |-> "crit", field |-> f, op |-> o, vals |-> vs, neg |-> n, split |-> sp,
                          join |-> "", kids |-> <<>>]
Group(j, ks)          == [t |-> "group", field |-> "", op |-> "", vals |-> <<>>, neg |-> FALSE, split |-> FALSE,
                          join |-> j, kids |-> ks]
SKey(k, vs)           == [key |-> k, vals |-> vs]
Query(s, c, lim, off, ord) == [simple |-> s, charts |-> c, limit |-> lim, offset |-> off, order |-> ord]
EmptyQ        == Query(<<>>, <<>>, NoNum, NoNum, NoOrder)
SimpleQ(k, vs) == Query(<<SKey(k, vs)>>, <<>>, NoNum, NoNum, NoOrder)
ChartQ(c)     == Query(<<>>, <<c>>, NoNum, NoNum, NoOrder)

(* ------------------------- named constructors ------------------------- *)
\* BugQuery.<name>(*args): what each named constructor means (names + docstrings of query.py)
Ctor(name, args) ==
  CASE name = "ids"         -> SimpleQ("id", args)
    [] name = "product"     -> SimpleQ("product", args)
    [] name = "component"   -> SimpleQ("component", args)
    [] name = "category"    -> Query(<<SKey("product", <<"Gentoo Linux">>), SKey("component", args)>>, <<>>,
                                     NoNum, NoNum, NoOrder)
    [] name = "unresolved"  -> SimpleQ("resolution", <<"---">>)
    [] name = "resolution"  -> SimpleQ("resolution", args)
    [] name = "status"      -> SimpleQ("bug_status", args)
    [] name = "cc"          -> SimpleQ("cc", args)
    [] name = "assigned_to" -> SimpleQ("assigned_to", args)
    [] name = "keywords"    -> ChartQ(Crit("keywords", "anywords", args, FALSE, FALSE))
    [] name = "flag"        -> ChartQ(Crit("flagtypes.name", "anywords",
                                           [i \in 1..(Len(args) - 1) |-> args[1] \o args[i + 1]], FALSE, FALSE))
    [] name = "without_tags" -> ChartQ(Crit("tag", "nowordssubstr", args, FALSE, FALSE))
    [] name = "package_list_any" -> ChartQ(Crit("cf_stabilisation_atoms", "anywords", args, FALSE, TRUE))

(* ----------------------------- combinators ----------------------------- *)
\* a & b : both sets of constraints; right-hand paging/order wins (pinned by the test-suite)
And(a, b) == Query(a.simple \o b.simple, a.charts \o b.charts,
                   IF b.limit # NoNum THEN b.limit ELSE a.limit,
                   IF b.offset # NoNum THEN b.offset ELSE a.offset,
                   IF b.order # NoOrder THEN b.order ELSE a.order)

\* the charts of ONE search are ANDed: as a member of a group they are one conjunction
AsOne(cs) == IF Len(cs) = 1 THEN cs[1] ELSE Group("AND", cs)
\* any_of(q1..qn): OR of the searches; plain parameters cannot take part in a chart group
AnyOfOk(qs) == \A i \in DOMAIN qs : qs[i].simple = <<>>
AnyOf(qs)   == ChartQ(Group("OR", [i \in DOMAIN qs |-> AsOne(qs[i].charts)]))
Paged(q, lim, off) == [q EXCEPT !.limit = lim, !.offset = off]

(* ------------------------------ meaning ------------------------------ *)
SimplePairs(q) == UNION {{<<q.simple[i].key, q.simple[i].vals[j]>> : j \in DOMAIN q.simple[i].vals} : i \in DOMAIN q.simple}

\* semantic-preserving normal form of a chart: the split marker is not part of the meaning;
\* AND/OR groups of one member are that member; a group directly inside a group of the same
\* join is spliced (associativity).  Member order is kept.
RECURSIVE Norm(_)
Norm(c) ==
  IF c.t = "crit" THEN [c EXCEPT !.split = FALSE]
  ELSE LET flat == c.join \in {"AND", "OR"}
           nk == [i \in DOMAIN c.kids |-> Norm(c.kids[i])]
           ks == FlattenSeq([i \in DOMAIN nk |-> IF flat /\ nk[i].t = "group" /\ nk[i].join = c.join
                                                  THEN nk[i].kids ELSE <<nk[i]>>])
       IN IF flat /\ Len(ks) = 1 THEN ks[1] ELSE Group(c.join, ks)
\* top level = an AND group
NormTop(cs) == LET nk == [i \in DOMAIN cs |-> Norm(cs[i])]
               IN FlattenSeq([i \in DOMAIN nk |-> IF nk[i].t = "group" /\ nk[i].join = "AND" THEN nk[i].kids ELSE <<nk[i]>>])

(* ----------------------------- rendering ----------------------------- *)
Par(k, n, key, v, iv) == [k |-> k, n |-> n, key |-> key, v |-> v, iv |-> iv]
ChartKinds == {"f", "o", "v", "n", "j"}

RECURSIVE RenderChart(_, _)
RECURSIVE RenderSeq(_, _)
RenderChart(c, slot) ==      \* -> [ps, next]
  IF c.t = "crit"
  THEN [ps |-> <<Par("f", slot, "", c.field, 0), Par("o", slot, "", c.op, 0)>>
                \o [i \in DOMAIN c.vals |-> Par("v", slot, "", c.vals[i], 0)]
                \o (IF c.neg THEN <<Par("n", slot, "", "1", 0)>> ELSE <<>>),
        next |-> slot + 1]
  ELSE LET inner == RenderSeq(c.kids, slot + 1)
       IN [ps |-> <<Par("f", slot, "", "OP", 0), Par("j", slot, "", c.join, 0)>> \o inner.ps
                   \o <<Par("f", inner.next, "", "CP", 0)>>,
           next |-> inner.next + 1]
RenderSeq(cs, slot) ==
  IF cs = <<>> THEN [ps |-> <<>>, next |-> slot]
  ELSE LET h == RenderChart(Head(cs), slot)
           t == RenderSeq(Tail(cs), h.next)
       IN [ps |-> h.ps \o t.ps, next |-> t.next]

Render(q) ==
  FlattenSeq([i \in DOMAIN q.simple |-> [j \in DOMAIN q.simple[i].vals |-> Par("s", 0, q.simple[i].key, q.simple[i].vals[j], 0)]])
  \o RenderSeq(q.charts, 1).ps
  \o (IF q.limit # NoNum THEN <<Par("limit", 0, "", "", q.limit)>> ELSE <<>>)
  \o (IF q.offset > 0 THEN <<Par("offset", 0, "", "", q.offset)>> ELSE <<>>)
  \o (IF q.order # NoOrder THEN <<Par("order", 0, "", q.order, 0)>> ELSE <<>>)

\* number of slots a chart occupies / slot of the i-th top-level chart
RECURSIVE Slots(_)
Slots(c) == IF c.t = "crit" THEN 1
            ELSE 2 + FoldLeft(LAMBDA acc, k : acc + Slots(k), 0, c.kids)
SlotOfTop(cs, i) == 1 + FoldLeft(LAMBDA acc, k : acc + Slots(k), 0, SubSeq(cs, 1, i - 1))

(* ------------------- the reference chart evaluator ------------------- *)
ChartPs(ps)   == SelectSeq(ps, LAMBDA p : p.k \in ChartKinds)
SlotNums(cps) == {cps[i].n : i \in DOMAIN cps}
At(cps, k, N) == SelectSeq(cps, LAMBDA p : p.k = k /\ p.n = N)
SortedSlots(cps) == SetToSortSeq(SlotNums(cps), LAMBDA a, b : a < b)

\* every condition / marker has its own slot
UniqueSlots(cps) == \A N \in SlotNums(cps) : Len(At(cps, "f", N)) = 1
FKind(cps, N) == At(cps, "f", N)[1].v
\* the parameters found under a slot are those its kind is read with
SlotShape(cps) ==
  \A N \in SlotNums(cps) :
    LET f == FKind(cps, N)
        cnt(k) == Len(At(cps, k, N))
    IN CASE f = "OP" -> cnt("j") = 1 /\ cnt("o") = 0 /\ cnt("v") = 0 /\ cnt("n") = 0
         [] f = "CP" -> cnt("j") = 0 /\ cnt("o") = 0 /\ cnt("v") = 0 /\ cnt("n") = 0
         [] OTHER    -> cnt("o") = 1 /\ cnt("j") = 0 /\ cnt("n") <= 1
                        /\ (cnt("n") = 1 => At(cps, "n", N)[1].v = "1")
\* group markers balanced at every prefix of the slot order
Balanced(cps) ==
  LET seq == SortedSlots(cps)
      opens(m)  == Cardinality({i \in 1..m : FKind(cps, seq[i]) = "OP"})
      closes(m) == Cardinality({i \in 1..m : FKind(cps, seq[i]) = "CP"})
  IN /\ \A m \in 0..Len(seq) : opens(m) >= closes(m)
     /\ opens(Len(seq)) = closes(Len(seq))

RECURSIVE ParseSeq(_, _, _)
ParseSeq(cps, seq, i) ==     \* members from position i of the slot order up to CP / the end
  IF i > Len(seq) THEN [kids |-> <<>>, next |-> i]
  ELSE LET N == seq[i]
           f == FKind(cps, N)
       IN IF f = "CP" THEN [kids |-> <<>>, next |-> i + 1]
          ELSE IF f = "OP"
          THEN LET inner == ParseSeq(cps, seq, i + 1)
                   rest  == ParseSeq(cps, seq, inner.next)
               IN [kids |-> <<Group(At(cps, "j", N)[1].v, inner.kids)>> \o rest.kids, next |-> rest.next]
          ELSE LET rest == ParseSeq(cps, seq, i + 1)
                   vs   == At(cps, "v", N)
               IN [kids |-> <<Crit(f, At(cps, "o", N)[1].v, [j \in DOMAIN vs |-> vs[j].v],
                                    At(cps, "n", N) # <<>>, FALSE)>> \o rest.kids,
                   next |-> rest.next]
\* defined when UniqueSlots /\ SlotShape /\ Balanced
ParseCharts(cps) == ParseSeq(cps, SortedSlots(cps), 1).kids
ParsePairs(ps)   == {<<ps[i].key, ps[i].v>> : i \in {j \in DOMAIN ps : ps[j].k = "s"}}
ParseNum(ps, k)  == LET s == SelectSeq(ps, LAMBDA p : p.k = k) IN IF s = <<>> THEN NoNum ELSE s[1].iv
ParseOrder(ps)   == LET s == SelectSeq(ps, LAMBDA p : p.k = "order") IN IF s = <<>> THEN NoOrder ELSE s[1].v

(* --------------------- truth value on a bug --------------------- *)
\* a bug is a set of <<field, word>> pairs
WordsOf(bug, f) == {pr[2] : pr \in {x \in bug : x[1] = f}}
OpHolds(op, ws, vs) ==
  CASE op \in {"allwords", "allwordssubstr"}           -> vs \subseteq ws
    [] op \in {"nowords", "nowordssubstr", "notequals"} -> ws \cap vs = {}
    [] OTHER                                            -> ws \cap vs # {}     \* anywords, anyexact, equals, ...
RECURSIVE ChartHolds(_, _)
ChartHolds(c, bug) ==
  IF c.t = "crit" THEN OpHolds(c.op, WordsOf(bug, c.field), SeqSet(c.vals)) # c.neg
  ELSE IF c.join = "OR" THEN \E i \in DOMAIN c.kids : ChartHolds(c.kids[i], bug)
  ELSE \A i \in DOMAIN c.kids : ChartHolds(c.kids[i], bug)
ChartsHold(cs, bug) == \A i \in DOMAIN cs : ChartHolds(cs[i], bug)
SimpleHolds(pairs, bug) == \A k \in {pr[1] : pr \in pairs} : \E pr \in pairs : pr[1] = k /\ pr \in bug
QHolds(pairs, cs, bug) == SimpleHolds(pairs, bug) /\ ChartsHold(cs, bug)

RECURSIVE ChartPairs(_)
ChartPairs(c) == IF c.t = "crit" THEN {<<c.field, c.vals[i]>> : i \in DOMAIN c.vals}
                 ELSE UNION {ChartPairs(c.kids[i]) : i \in DOMAIN c.kids}
QueryPairs(q) == SimplePairs(q) \cup UNION {ChartPairs(q.charts[i]) : i \in DOMAIN q.charts}

(* ----------------------- search expressions ----------------------- *)
(* What callers write:  e ::= ctor name(args) | raw q | a & b | any_of(e1..en) | e.paged(limit, offset)
   as records [e, name, args, subs, limit, offset, q].                                        *)
RECURSIVE Den(_)
Den(e) ==                     \* [ok, q]: the search an expression denotes, or refused
  CASE e.e = "ctor"  -> [ok |-> TRUE, q |-> Ctor(e.name, e.args)]
    [] e.e = "raw"   -> [ok |-> TRUE, q |-> e.q]
    [] e.e = "and"   -> LET a == Den(e.subs[1])  b == Den(e.subs[2])
                        IN IF a.ok /\ b.ok THEN [ok |-> TRUE, q |-> And(a.q, b.q)] ELSE [ok |-> FALSE, q |-> EmptyQ]
    [] e.e = "anyof" -> LET ds == [i \in DOMAIN e.subs |-> Den(e.subs[i])]
                            qs == [i \in DOMAIN ds |-> ds[i].q]
                        IN IF (\A i \in DOMAIN ds : ds[i].ok) /\ AnyOfOk(qs) THEN [ok |-> TRUE, q |-> AnyOf(qs)]
                           ELSE [ok |-> FALSE, q |-> EmptyQ]
    [] e.e = "paged" -> LET a == Den(e.subs[1])
                        IN IF a.ok THEN [ok |-> TRUE, q |-> Paged(a.q, e.limit, e.offset)] ELSE a

\* the property's domain: every member of an any_of carries at least one chart condition
\* (an empty member would be "always true", which a chart group cannot say; a member with plain
\* parameters is in the domain: it must be refused)
RECURSIVE InDomain(_)
InDomain(e) ==
  CASE e.e \in {"ctor", "raw"} -> TRUE
    [] e.e = "anyof" -> /\ Len(e.subs) >= 1
                        /\ \A i \in DOMAIN e.subs :
                              /\ InDomain(e.subs[i])
                              /\ LET d == Den(e.subs[i]) IN d.ok => (d.q.charts # <<>> \/ d.q.simple # <<>>)
    [] e.e = "paged" -> e.limit > 0 /\ e.offset >= 0 /\ InDomain(e.subs[1])
    [] OTHER -> \A i \in DOMAIN e.subs : InDomain(e.subs[i])

\* truth of an expression on a bug, by its connectives (independent of And/AnyOf above):
\* & is conjunction, any_of is disjunction; plain parameters of one key are a union (pinned)
RECURSIVE ExprPairs(_)
ExprPairs(e) == CASE e.e \in {"ctor", "raw"} -> SimplePairs(Den(e).q)
                  [] e.e = "anyof" -> {}
                  [] OTHER -> UNION {ExprPairs(e.subs[i]) : i \in DOMAIN e.subs}
RECURSIVE ExprChartsHold(_, _)
ExprChartsHold(e, bug) ==
  CASE e.e \in {"ctor", "raw"} -> ChartsHold(Den(e).q.charts, bug)
    [] e.e = "anyof" -> \E i \in DOMAIN e.subs : ExprChartsHold(e.subs[i], bug)
    [] OTHER -> \A i \in DOMAIN e.subs : ExprChartsHold(e.subs[i], bug)
ExprHolds(e, bug) == SimpleHolds(ExprPairs(e), bug) /\ ExprChartsHold(e, bug)

(* ------------------------------ batching ------------------------------ *)
(* Split axes a search offers: the "id" plain parameter, or a top-level splittable condition.
   An axis is named by the parameters that carry its values.                                *)
Axis(kind, n) == [kind |-> kind, n |-> n]            \* kind "id" | "chart" (n = its slot)
Axes(q) == {Axis("id", 0) : i \in {j \in DOMAIN q.simple : q.simple[j].key = "id"}}
           \cup {Axis("chart", SlotOfTop(q.charts, i)) : i \in {j \in DOMAIN q.charts : q.charts[j].t = "crit" /\ q.charts[j].split}}
OnAxis(a, p) == IF a.kind = "id" THEN p.k = "s" /\ p.key = "id" ELSE p.k = "v" /\ p.n = a.n
AxisPs(ps, a)  == SelectSeq(ps, LAMBDA p : OnAxis(a, p))
OtherPs(ps, a) == SelectSeq(ps, LAMBDA p : ~OnAxis(a, p))
Vals(ps) == [i \in DOMAIN ps |-> ps[i].v]
Core(ps) == [i \in DOMAIN ps |-> Par(ps[i].k, ps[i].n, ps[i].key, ps[i].v, ps[i].iv)]
\* length of the urlencoded parameter list: every parameter carries the length of its own
\* "name=value" encoding (measured on the real text by the driver); '&' between parameters
UrlLen(ps) == FoldLeft(LAMBDA acc, p : acc + p.len, 0, ps) + (IF Len(ps) > 1 THEN Len(ps) - 1 ELSE 0)

\* clauses that fail when `bs` (parameter lists of the batches) split `ps` along axis a
BatchFails(ps, bs, a, base, max) ==
  LET vals == Vals(AxisPs(ps, a))
      others == OtherPs(ps, a)
      single(p) == base + UrlLen(others \o <<p>>) <= max
  IN (IF FlattenSeq([i \in DOMAIN bs |-> Vals(AxisPs(bs[i], a))]) = vals THEN {} ELSE {"Batch_Partition"})
     \cup (IF Len(bs) >= 1 /\ (vals # <<>> => \A i \in DOMAIN bs : AxisPs(bs[i], a) # <<>>) THEN {} ELSE {"Batch_NonEmpty"})
     \cup (IF \A i \in DOMAIN bs : Core(OtherPs(bs[i], a)) = Core(others) THEN {} ELSE {"Batch_OthersUnchanged"})
     \* (without values there is nothing to split: the fixed parameters are as long as they are)
     \cup (IF (vals # <<>> /\ \A i \in DOMAIN AxisPs(ps, a) : single(AxisPs(ps, a)[i])) => (\A i \in DOMAIN bs : base + UrlLen(bs[i]) <= max)
           THEN {} ELSE {"Batch_Budget"})

(* Reference batching (greedy, in order): shows the clauses are satisfiable.  costs[i] is what value i
   adds to the url ('&' included), budget what is left once every other parameter is in.             *)
RECURSIVE Greedy(_, _, _, _, _)
Greedy(costs, budget, i, cur, used) ==       \* -> Seq(Seq(index))
  IF i > Len(costs) THEN <<cur>>
  ELSE IF cur # <<>> /\ used + costs[i] > budget
       THEN <<cur>> \o Greedy(costs, budget, i + 1, <<i>>, costs[i])
       ELSE Greedy(costs, budget, i + 1, Append(cur, i), used + costs[i])
GreedyBatches(costs, budget) == Greedy(costs, budget, 1, <<>>, 0)
=========================================================================
