---------------------------- MODULE PlanState_MC ----------------------------
(* Exhaustive exploration of planner histories over a small universe:
   p1,p2 share key k1 / slot 0 (replace candidates), p3 has key k1 slot 1,
   p4 has key k2; blocker b1 (filed under k1) blocks p1 and p3, b2 (k2) blocks p4.  *)
EXTENDS PlanState, TLC
CONSTANT MaxPlan
MCPkgs == {"p1", "p2", "p3", "p4"}
MCChoicePts == {"c1", "c2"}
MCBlockers == {"b1", "b2"}
MCRestrs == {"r1"}
MCKeyOf == [p \in MCPkgs |-> IF p = "p4" THEN "k2" ELSE "k1"]
MCSlotOf == [p \in MCPkgs |-> IF p = "p3" THEN "1" ELSE "0"]
MCBKeyOf == [b \in MCBlockers |-> IF b = "b1" THEN "k1" ELSE "k2"]
MCBlocks == {<<"b1", "p1">>, <<"b1", "p3">>, <<"b2", "p4">>}

VARIABLE st
Init == st = Empty
Add(c, p, f)     == CanAdd(st, c, p) /\ st' = DoAdd(st, c, p, f).s
Remove(c, p)     == CanRemove(st, c, p) /\ st' = DoRemove(st, c, p).s
Replace(c, p)    == CanReplace(st, c, p) /\ st' = DoReplace(st, c, p).s
AddBlocker(c, b) == CanAddBlocker(st, c, b) /\ st' = DoAddBlocker(st, c, b).s
DropBlocker(c, b) == CanDropBlocker(st, c, b) /\ st' = DoDropBlocker(st, c, b).s
Hardref(r)       == st' = DoHardref(st, r).s
Backref(c, p)    == p \in st.slots /\ st' = DoBackref(st, c, p).s
Backtrack(pos)   == pos < Len(st.plan) /\ st' = DoBacktrack(st, pos).s
BacktrackCut(pos, stop) == pos < stop /\ stop <= Len(st.plan) /\ st' = DoBacktrackCut(st, pos, stop).s
Next == \/ \E c \in ChoicePts, p \in Pkgs, f \in BOOLEAN : Add(c, p, f)
        \/ \E c \in ChoicePts, p \in Pkgs : Remove(c, p) \/ Replace(c, p) \/ Backref(c, p)
        \/ \E c \in ChoicePts, b \in Blockers : AddBlocker(c, b) \/ DropBlocker(c, b)
        \/ \E r \in Restrs : Hardref(r)
        \/ \E pos \in 0..MaxPlan : Backtrack(pos)
Spec == Init /\ [][Next]_st
Bound == Len(st.plan) <= MaxPlan

InvReplay   == StateIsReplay(st)
InvRefcnt   == RefcntIsLive(st)
InvLimiters == LimitersAreReferenced(st)
InvRevSum   == RefcntIsRevSum(st)
InvChoices  == ChoicesAreSlotted(st)
\* a rollback lands exactly on the state the surviving prefix denotes
RollbackExact == [][\A pos \in 0..MaxPlan :
                     (pos < Len(st.plan) /\ st' = DoBacktrack(st, pos).s) => st' = Replay(SubSeq(st.plan, 1, pos))]_st
(* An interrupted rollback (BacktrackCut) is not a disjunct of Next: by definition
   DoBacktrackCut(s, pos, stop) = DoBacktrack(s, stop), so every state it reaches is reached by
   Backtrack(stop) and RollbackExact already says it lands on Replay of the first stop entries.
   (As a separate disjunct with its own action property it multiplied TLC's work by |pos| x |stop|
   per transition without adding a state.)  The action is used by PlanState_Sim, so that simulated
   histories contain interrupted rollbacks, and judged by PlanState_Trace.                          *)
\* (stated for the reader; true by definition, not worth a TLC pass over every state)
CutIsBacktrack == \A pos \in 0..MaxPlan, stop \in 1..MaxPlan :
                    DoBacktrackCut(st, pos, stop) = DoBacktrack(st, stop)
=========================================================================
