---------------------------- MODULE AtomMatch_MC ----------------------------
(* Design check of Matches: one state per (atom, package) of a small universe that varies
   every field; the invariants are the laws a dependency matcher must obey whatever the
   representation: constraints only ever remove matches, "U" arises only from the two
   documented sources, contradictory USE dependencies match nothing, defaults are irrelevant
   for flags in IUSE, and the range operators partition the packages.                      *)
EXTENDS AtomMatch, TLC
CONSTANT Size
V(nums, letter, sufs, rev) == [nums |-> nums, letter |-> letter, sufs |-> sufs, rev |-> rev]
MVers == {V(<<<<1>>>>, 0, <<>>, <<>>), V(<<<<1>>>>, 0, <<>>, <<1>>), V(<<<<1>>, <<0>>>>, 0, <<>>, <<>>),
          V(<<<<1>>>>, 1, <<>>, <<>>), V(<<<<1>>>>, 0, <<[k |-> "alpha", n |-> <<1>>]>>, <<>>), V(<<<<1, 0>>>>, 0, <<>>, <<>>)}
Flags == {"x", "y"}
DepForms == {[flag |-> f, neg |-> n, dflt |-> d] : f \in Flags, n \in BOOLEAN, d \in {"", "+", "-"}}
DepSets == {{}} \cup {{d} : d \in DepForms}
           \cup (IF Size > 1 THEN {{d, e} : d, e \in DepForms}
                 ELSE {{[flag |-> "x", neg |-> FALSE, dflt |-> dd], [flag |-> "x", neg |-> TRUE, dflt |-> dd]} : dd \in {"", "+", "-"}}
                      \cup {{[flag |-> "x", neg |-> FALSE, dflt |-> "-"], [flag |-> "y", neg |-> TRUE, dflt |-> "+"]}})
Ops == {"", "<", "<=", "=", "~", ">=", ">", "=*"}
MAtoms == {[cat |-> "c", pkg |-> pn, op |-> o, ver |-> v, slot |-> s, subslot |-> ss, repo |-> r, deps |-> ds] :
             pn \in {"p", "q"}, o \in Ops, v \in MVers, s \in {"", "0"}, ss \in {"", "2"}, r \in {"", "r1"}, ds \in DepSets}
MPkgs == {[cat |-> "c", pkg |-> "p", ver |-> v, slot |-> s, subslot |-> ss, repo |-> r, iuse |-> iu, use |-> u] :
             v \in MVers, s \in {"0", "1"}, ss \in {"0", "2"}, r \in {"r1", "r2"}, iu \in SUBSET Flags, u \in SUBSET Flags}
VARIABLES a, p, ph
vars == <<a, p, ph>>
OkAtom(x) == (x.op = "~" => x.ver.rev = <<>>) /\ (x.subslot # "" => x.slot # "")
V1 == V(<<<<1>>>>, 0, <<>>, <<>>)
\* version side: every operator x version against every package version, other fields fixed
VerAtoms == {x \in MAtoms : OkAtom(x) /\ x.deps = {} /\ x.slot = "" /\ x.repo = ""}
VerPkgs  == {q \in MPkgs : q.iuse = {} /\ q.use = {} /\ q.slot = "0" /\ q.subslot = "0" /\ q.repo = "r1"}
\* attribute side: every slot / sub-slot / repository / USE combination, two version constraints
AttrAtoms == {x \in MAtoms : OkAtom(x) /\ x.pkg = "p" /\ x.ver = V1 /\ x.op = ""
                              /\ (x.deps # {} \/ x.slot # "" \/ x.repo # "")}
AttrPkgs  == {q \in MPkgs : q.ver \in (IF Size > 1 THEN {V1, V(<<<<1>>>>, 0, <<>>, <<1>>)} ELSE {V1}) /\ (Size > 1 \/ q.use \subseteq q.iuse)
                              /\ (Size > 1 \/ (q.slot = "0") = (q.subslot = "0"))}
Init == a \in VerAtoms \cup AttrAtoms /\ p = (CHOOSE q \in VerPkgs : TRUE) /\ ph = 0
Next == /\ ph = 0 /\ ph' = 1 /\ a' = a
        /\ p' \in (IF a \in AttrAtoms THEN AttrPkgs ELSE VerPkgs)
Spec == Init /\ [][Next]_vars

m == Matches(a, p)
\* dropping a constraint never loses a definite match
Weaker == {[a EXCEPT !.slot = "", !.subslot = ""], [a EXCEPT !.subslot = ""], [a EXCEPT !.repo = ""], [a EXCEPT !.op = ""]}
          \cup {[a EXCEPT !.deps = a.deps \ {d}] : d \in a.deps}
Monotone == m = "T" => \A w \in Weaker : Matches(w, p) = "T"
MonotoneF == \A w \in Weaker : Matches(w, p) = "F" => m = "F"
\* the only sources of "U"
USources == m = "U" => \/ (a.op = "=*" /\ Glob(a.ver, p.ver) = "U")
                       \/ \E d \in a.deps : d.flag \notin p.iuse /\ d.dflt = ""
\* a flag wanted both on and off with the same default can never be satisfied
Contradict == (\E d, e \in a.deps : d.flag = e.flag /\ d.neg # e.neg /\ d.dflt = e.dflt) => m # "T"
\* defaults do not matter for flags in IUSE
DefaultIrrelevant == (\A d \in a.deps : d.flag \in p.iuse) =>
                       \A dd \in {"", "+", "-"} : Matches([a EXCEPT !.deps = {[d EXCEPT !.dflt = dd] : d \in a.deps}], p) = m
\* exactly one of < = > holds; ~ is = up to the revision; = implies the glob is not refused
Partition == (a.op # "" /\ a.deps = {}) =>
               /\ Cardinality({o \in {"<", "=", ">"} : Matches([a EXCEPT !.op = o], p) = "T"}) = (IF Matches([a EXCEPT !.op = ""], p) = "T" THEN 1 ELSE 0)
               /\ (Matches([a EXCEPT !.op = "<="], p) = "T") = (Matches([a EXCEPT !.op = "<"], p) = "T" \/ Matches([a EXCEPT !.op = "="], p) = "T")
               /\ (Matches([a EXCEPT !.op = "="], p) = "T" => Matches([a EXCEPT !.op = "=*"], p) # "F")
\* key mismatch decides
KeyDecides == a.pkg # p.pkg => m = "F"
=========================================================================
