---------------------------- MODULE PkgList ----------------------------
(* C38: the cf_stabilisation_atoms package list (src/pkgcore/bugzilla/pkglist.py).

   Text is a sequence of code points (TLC cannot look inside strings), so every law below is
   byte-exact.  A list is a sequence of lines; a line is
       lead spec [gap1 kw1 gaps1 kw2 ... kwN] trail comment eol
     lead, gap1, gaps[i], trail : runs of blanks (space, tab and every other in-line Unicode white space)
     spec, kws[i]               : tokens (no white space, not starting with '#')
     comment                    : empty, or '#'... up to the end of the line; a '#' only starts a
                                  comment at the start of the line or after a blank
     eol                        : LF, CR LF, or empty on the last line
   A line without spec is a blank / comment line.
   Sentinels among the keywords:  * -> the keywords suggested for the package (or - if none),
   ^ -> the resolved keywords of the package line above, - -> deliberately none.              *)
EXTENDS Integers, Sequences, SequencesExt, FiniteSets, TLC

SP == 32   TAB == 9   LF == 10   CR == 13   HASH == 35
KStar == <<42>>   KCaret == <<94>>   KDash == <<45>>
\* blanks: every character str.split() / \s treat as white space inside a line -- tab, space, US (0x1f), NBSP, OGHAM SPACE,
\* EN QUAD..HAIR SPACE, NNBSP, MMSP, IDEOGRAPHIC SPACE
Blanks == {TAB, 31, SP, 160, 5760, 8239, 8287, 12288} \cup (8192..8202)
IsBlank(c) == c \in Blanks
\* the other line boundaries of str.splitlines() (VT FF FS GS RS NEL LS PS): outside the property's domain
Exotic == {11, 12, 28, 29, 30, 133, 8232, 8233}

Line(lead, spec, gap1, kws, gaps, trail, comment, eol) ==
  [lead |-> lead, spec |-> spec, gap1 |-> gap1, kws |-> kws, gaps |-> gaps, trail |-> trail, comment |-> comment, eol |-> eol]
IsPkgLine(L) == L.spec # <<>>

(* ------------------------------ rendering ------------------------------ *)
RECURSIVE KwText(_, _)
KwText(kws, gaps) == IF kws = <<>> THEN <<>>
                     ELSE IF Len(kws) = 1 THEN kws[1]
                     ELSE kws[1] \o gaps[1] \o KwText(Tail(kws), Tail(gaps))
RawOf(L) == L.lead \o L.spec \o (IF L.kws # <<>> THEN L.gap1 \o KwText(L.kws, L.gaps) ELSE <<>>) \o L.trail \o L.comment
RenderLine(L) == RawOf(L) \o L.eol
RenderLines(ls) == FlattenSeq([i \in DOMAIN ls |-> RenderLine(ls[i])])

(* ---------------------------- well-formedness ---------------------------- *)
AllBlank(s) == \A i \in DOMAIN s : IsBlank(s[i])
IsToken(s) == /\ s # <<>> /\ s[1] # HASH
              /\ \A i \in DOMAIN s : ~IsBlank(s[i]) /\ s[i] \notin {CR, LF} /\ s[i] \notin Exotic
WFLine(L) ==
  /\ AllBlank(L.lead) /\ AllBlank(L.gap1) /\ AllBlank(L.trail)
  /\ \A i \in DOMAIN L.gaps : L.gaps[i] # <<>> /\ AllBlank(L.gaps[i])
  /\ \A i \in DOMAIN L.kws : IsToken(L.kws[i])
  /\ IF L.spec = <<>> THEN L.kws = <<>> /\ L.trail = <<>> /\ L.gap1 = <<>> ELSE IsToken(L.spec)
  /\ IF L.kws = <<>> THEN L.gap1 = <<>> /\ L.gaps = <<>> ELSE L.gap1 # <<>> /\ Len(L.gaps) = Len(L.kws) - 1
  /\ L.comment # <<>> => /\ L.comment[1] = HASH
                         /\ (L.spec = <<>> \/ L.trail # <<>>)
                         /\ \A i \in DOMAIN L.comment : L.comment[i] \notin {CR, LF} /\ L.comment[i] \notin Exotic
  /\ L.eol \in {<<>>, <<LF>>, <<CR, LF>>}
WFList(ls) == /\ \A i \in DOMAIN ls : WFLine(ls[i])
              /\ \A i \in DOMAIN ls : i < Len(ls) => ls[i].eol # <<>>
              /\ ls # <<>> /\ ls[Len(ls)].eol = <<>> => RawOf(ls[Len(ls)]) # <<>>

(* ------------------------------- parsing ------------------------------- *)
\* the text is in the domain: no exotic white space, CR only as part of CR LF
TextInDomain(t) == \A i \in DOMAIN t : t[i] \notin Exotic /\ (t[i] = CR => (i < Len(t) /\ t[i + 1] = LF))

RECURSIVE RunLen(_, _, _)
RunLen(s, i, blank) == IF i > Len(s) \/ IsBlank(s[i]) # blank THEN 0 ELSE 1 + RunLen(s, i + 1, blank)

\* tokens of a body from index i (which is at a non-blank): Seq([tok, gap])
RECURSIVE Toks(_, _)
Toks(b, i) == IF i > Len(b) THEN <<>>
              ELSE LET tl == RunLen(b, i, FALSE)
                       gl == RunLen(b, i + tl, TRUE)
                   IN <<[tok |-> SubSeq(b, i, i + tl - 1), gap |-> SubSeq(b, i + tl, i + tl + gl - 1)]>>
                      \o Toks(b, i + tl + gl)

CommentAt(raw) == LET ks == {k \in DOMAIN raw : raw[k] = HASH /\ (k = 1 \/ IsBlank(raw[k - 1]))}
                  IN IF ks = {} THEN Len(raw) + 1 ELSE CHOOSE k \in ks : \A j \in ks : k <= j

ParseLine(raw, eol) ==
  LET c == CommentAt(raw)
      body == SubSeq(raw, 1, c - 1)
      comment == SubSeq(raw, c, Len(raw))
      l0 == RunLen(body, 1, TRUE)
      ts == Toks(body, l0 + 1)
      n == Len(ts)
  IN IF n = 0 THEN Line(body, <<>>, <<>>, <<>>, <<>>, <<>>, comment, eol)
     ELSE IF n = 1 THEN Line(SubSeq(body, 1, l0), ts[1].tok, <<>>, <<>>, <<>>, ts[1].gap, comment, eol)
     ELSE Line(SubSeq(body, 1, l0), ts[1].tok, ts[1].gap,
               [i \in 1..(n - 1) |-> ts[i + 1].tok], [i \in 1..(n - 2) |-> ts[i + 1].gap], ts[n].gap, comment, eol)

RECURSIVE FirstLF(_, _)
FirstLF(t, i) == IF i > Len(t) THEN 0 ELSE IF t[i] = LF THEN i ELSE FirstLF(t, i + 1)
RECURSIVE ParseText(_)
ParseText(t) ==
  IF t = <<>> THEN <<>>
  ELSE LET k == FirstLF(t, 1)
           phys == IF k = 0 THEN t ELSE SubSeq(t, 1, k)
           rest == IF k = 0 THEN <<>> ELSE SubSeq(t, k + 1, Len(t))
           n == Len(phys)
           el == IF k = 0 THEN 0 ELSE IF n >= 2 /\ phys[n - 1] = CR THEN 2 ELSE 1
       IN <<ParseLine(SubSeq(phys, 1, n - el), SubSeq(phys, n - el + 1, n))>> \o ParseText(rest)

(* --------------------------- sentinel resolution --------------------------- *)
\* suggestions: Seq([spec, kws]); a spec not listed is suggested nothing
Sugg(sg, spec) == LET hits == {i \in DOMAIN sg : sg[i].spec = spec}
                  IN IF hits = {} THEN <<>> ELSE sg[CHOOSE i \in hits : \A j \in hits : i <= j].kws
NoPrev == [has |-> FALSE, kws |-> <<>>]
\* ^ with nothing above, or copying nothing onto a line that has keywords of its own, cannot be satisfied
CaretRefused(L, prev) == \E i \in DOMAIN L.kws : L.kws[i] = KCaret /\ (~prev.has \/ (prev.kws = <<>> /\ Len(L.kws) > 1))
ResolveKws(L, prev, sg) ==
  FlattenSeq([i \in DOMAIN L.kws |->
     IF L.kws[i] = KStar THEN (IF Sugg(sg, L.spec) = <<>> THEN <<KDash>> ELSE Sugg(sg, L.spec))
     ELSE IF L.kws[i] = KCaret THEN prev.kws
     ELSE <<L.kws[i]>>])
\* -> [ok, res]: res[i] = resolved keywords of line i (<<>> for blank lines)
RECURSIVE ResolveFrom(_, _, _, _)
ResolveFrom(ls, i, prev, sg) ==
  IF i > Len(ls) THEN [ok |-> TRUE, res |-> <<>>]
  ELSE IF ~IsPkgLine(ls[i])
  THEN LET r == ResolveFrom(ls, i + 1, prev, sg) IN [ok |-> r.ok, res |-> <<<<>>>> \o r.res]
  ELSE IF CaretRefused(ls[i], prev) THEN [ok |-> FALSE, res |-> <<>>]
  ELSE LET kw == ResolveKws(ls[i], prev, sg)
           r == ResolveFrom(ls, i + 1, [has |-> TRUE, kws |-> kw], sg)
       IN [ok |-> r.ok, res |-> <<kw>> \o r.res]
ResolveAll(ls, sg) == ResolveFrom(ls, 1, NoPrev, sg)

\* reference rewriting of one line: only the keyword region changes, single spaces between new keywords
Rewrite(L, kw) ==
  IF ~IsPkgLine(L) \/ kw = L.kws THEN L
  ELSE IF kw = <<>> THEN [L EXCEPT !.kws = <<>>, !.gaps = <<>>, !.gap1 = <<>>, !.trail = L.gap1 \o L.trail]
  ELSE IF L.kws = <<>> THEN [L EXCEPT !.kws = kw, !.gaps = [i \in 1..(Len(kw) - 1) |-> <<SP>>], !.gap1 = <<SP>>]
  ELSE [L EXCEPT !.kws = kw, !.gaps = [i \in 1..(Len(kw) - 1) |-> <<SP>>]]
ExpandRef(ls, sg) == LET r == ResolveAll(ls, sg) IN [i \in DOMAIN ls |-> Rewrite(ls[i], r.res[i])]

(* ------------------------------- judging ------------------------------- *)
\* what fails when line L was rewritten to O although its keywords were to become kw
\* package line L rewritten to O with keywords kw: everything but the keyword region survives
RewriteFails(L, O, kw) ==
  (IF O.lead = L.lead /\ O.spec = L.spec /\ O.comment = L.comment /\ O.eol = L.eol THEN {} ELSE {"Expand_Preserve"})
  \cup (IF O.kws = kw THEN {} ELSE {"Expand_Keywords"})
  \cup (IF kw = <<>> \/ L.kws = <<>> \/ (O.gap1 = L.gap1 /\ O.trail = L.trail) THEN {} ELSE {"Expand_Spacing"})
  \cup (IF kw # <<>> /\ L.kws = <<>> /\ O.trail # L.trail THEN {"Expand_Spacing"} ELSE {})
\* expansion: a line whose keywords do not change is byte-identical
LineFails(L, O, kw) ==
  IF ~IsPkgLine(L) \/ kw = L.kws
  THEN (IF RenderLine(O) = RenderLine(L) THEN {} ELSE {"Expand_Untouched"})
  ELSE RewriteFails(L, O, kw)

ExpandFails(text, sg, refused, out) ==
  LET ls == ParseText(text)
      r == ResolveAll(ls, sg)
  IN IF ~r.ok THEN (IF refused THEN {} ELSE {"Expand_Refusal"})
     ELSE IF refused THEN {"Expand_SpuriousRefusal"}
     ELSE LET os == ParseText(out)
          IN IF Len(os) # Len(ls) THEN {"Expand_LineCount"}
             ELSE UNION {LineFails(ls[i], os[i], r.res[i]) : i \in DOMAIN ls}
=========================================================================
