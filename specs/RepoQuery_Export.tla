---------------------------- MODULE RepoQuery_Export ----------------------------
(* spec -> code for C08: restriction trees over four leaf ids
     1: a category restriction   2: a package-name restriction
     3: a second category restriction   4: a restriction on something else (version / repository)
   The leaf's neg flag is the PackageRestriction's own negate flag (the driver also varies where the
   value-level negation sits).  Level 1: L0, Negate(leaf), nodes over 1..2 leaves.  Level 2: nodes over a
   level-1 tree alone or next to a plain leaf (either order), Negate(level-1).                         *)
EXTENDS BoolTree, TLC, Json, IOUtils, SequencesExt
CONSTANT Level
Ids == 1..4
P0 == {Leaf(i, FALSE) : i \in Ids}
L0 == P0 \cup {Leaf(i, TRUE) : i \in Ids}
Singles(S) == {<<a>> : a \in S}
Pairs(A, B) == {<<a, b>> : a \in A, b \in B}
NodesOver(CS) == {Node(kd, n, cs) : kd \in Kinds, n \in BOOLEAN, cs \in CS}
T1 == NodesOver(Singles(L0) \cup Pairs(L0, L0)) \cup {Not(x) : x \in P0}
S1 == NodesOver(Singles(L0) \cup Pairs(P0, P0) \cup Pairs({Leaf(1, TRUE), Leaf(2, TRUE)}, P0)) \cup {Not(x) : x \in P0}
T2 == IF Level < 2 THEN {} ELSE
      NodesOver(Singles(S1) \cup Pairs(S1, P0) \cup Pairs(P0, S1)) \cup {Not(x) : x \in S1}
Cases == {[t |-> x] : x \in L0 \cup T1 \cup T2}
ASSUME ndJsonSerialize(IOEnv.OUT, SetToSeq(Cases))
=========================================================================
