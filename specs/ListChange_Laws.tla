---------------------------- MODULE ListChange_Laws ----------------------------
\* constant-level laws, checked by evaluating ASSUMEs (no behaviour)
EXTENDS ListChange, TLC
ComposeLaw == \A a, b \in Changes : Compose(a, b) \in Changes /\ Sequential(Compose(a, b), a, b)

\* Associativity of the reference combination (a sanity property of the design)
ComposeAssoc == \A a, b, c \in Changes :
    \A L \in SUBSET Vals : Apply(Compose(Compose(a, b), c), L) = Apply(Compose(a, Compose(b, c)), L)

ASSUME ComposeLaw
ASSUME ComposeAssoc
=========================================================================
