---------------------------- MODULE CacheValidity ----------------------------
(* C48: a package's cached metadata is used exactly while it is still valid
   (src/pkgcore/cache/__init__.py base.validate_entry, ebuild/eclass_cache.py
   rebuild_cache_entry, ebuild/ebuild_src.py package_factory._get_metadata).

   World : one ebuild and the eclass files of two stacked repositories
           ("o" = the overlay holding the ebuild, searched first; "m" = its master).
             w.eb        = [cid, inh, mt]       content id, directly inherited eclasses, mtime
             w.ecl[r][n] = [cid, nest, mt]      cid = 0: no such file; nest: eclass a inherits b
   Entry : what the cache stores for the package
             [present, chf, ecl : set of [name, chf, dir], hasInherit, data]
           chf is the recorded checksum: the content itself for md5-cache ("md5"), the mtime
           for the flat_hash cache ("flat", which also records the eclass directory).
   Data  : what the metadata says = which ebuild content and which eclass contents produced it.

   Valid(kind, entry, world) is the property's criterion; ReadOutcomes gives the outcomes a
   metadata read may have.                                                                 *)
EXTENDS Naturals, FiniteSets

Eclasses == {"a", "b"}
Repos    == {"m", "o"}

InhSet(code) == CASE code = "a" -> {"a"} [] code = "b" -> {"b"} [] code = "ab" -> {"a", "b"} [] OTHER -> {}
InhCodes == {"", "a", "b", "ab"}

(* ------------------------------ contents and checksums ------------------------------ *)
Cont(cid, inh, nest) == [cid |-> cid, inh |-> inh, nest |-> nest]
NoContent   == Cont(0, "", FALSE)
EbContent(eb) == Cont(eb.cid, eb.inh, FALSE)
EcContent(f)  == Cont(f.cid, "", f.nest)
AbsentFile  == [cid |-> 0, nest |-> FALSE, mt |-> 0]

\* the checksum a cache of this kind records for a file
Chf(kind, content, mt) == IF kind = "md5" THEN [c |-> content, t |-> 0] ELSE [c |-> NoContent, t |-> mt]

(* ------------------------------ eclass resolution ------------------------------ *)
\* stacked lookup: the overlay's eclass wins over the master's
Resolve(w, n) == IF w.ecl["o"][n].cid # 0 THEN [repo |-> "o", f |-> w.ecl["o"][n]]
                 ELSE IF w.ecl["m"][n].cid # 0 THEN [repo |-> "m", f |-> w.ecl["m"][n]]
                 ELSE [repo |-> "-", f |-> AbsentFile]
\* every eclass sourced when the ebuild is (re)generated: direct inherits and a's nested b
Sourced(w) == LET d == InhSet(w.eb.inh) IN
              d \cup (IF "a" \in d /\ Resolve(w, "a").f.nest THEN {"b"} ELSE {})
\* regeneration succeeds iff every sourced eclass exists
CanRegen(w) == \A n \in Sourced(w) : Resolve(w, n).repo # "-"

(* ------------------------------ metadata and cache entries ------------------------------ *)
EmptyData == [eb |-> NoContent, ecl |-> {}]
Fresh(w) == [eb |-> EbContent(w.eb),
             ecl |-> {[name |-> n, c |-> EcContent(Resolve(w, n).f)] : n \in Sourced(w)}]

AbsentEntry(kind) == [present |-> FALSE, chf |-> Chf(kind, NoContent, 0), ecl |-> {}, hasInherit |-> FALSE, data |-> EmptyData]
EntryFor(kind, w) ==
    [present |-> TRUE,
     chf |-> Chf(kind, EbContent(w.eb), w.eb.mt),
     ecl |-> {[name |-> n,
               chf |-> Chf(kind, EcContent(Resolve(w, n).f), Resolve(w, n).f.mt),
               dir |-> IF kind = "flat" THEN Resolve(w, n).repo ELSE "-"] : n \in Sourced(w)},
     hasInherit |-> InhSet(w.eb.inh) # {},
     data |-> Fresh(w)]

(* ------------------------------ the property's criterion ------------------------------ *)
EbuildCurrent(kind, en, w) == en.chf = Chf(kind, EbContent(w.eb), w.eb.mt)
EclassCurrent(kind, r, w) ==
    LET res == Resolve(w, r.name) IN
    /\ res.repo # "-"                                              \* still exists
    /\ r.chf = Chf(kind, EcContent(res.f), res.f.mt)               \* with the recorded checksum
    /\ (kind = "flat" => r.dir = res.repo)                         \* at the recorded location
Valid(kind, en, w) == /\ en.present
                      /\ EbuildCurrent(kind, en, w)
                      /\ \A r \in en.ecl : EclassCurrent(kind, r, w)

\* Carve-out: an entry that records eclasses but lacks the INHERIT key (written by an older
\* pkgcore).  The property's criterion calls it valid, pkgcore documents that it refreshes such
\* entries to upgrade them: whether it is used or regenerated is left open, the RESULT is not.
Legacy(en) == en.present /\ en.ecl # {} /\ ~en.hasInherit

(* ------------------------------ outcomes of a metadata read ------------------------------ *)
Outcome(regen, failed, result, en) == [regen |-> regen, failed |-> failed, result |-> result, en |-> en]
UsedOutcome(en) == Outcome(FALSE, FALSE, en.data, en)
RegenOutcome(kind, w) == IF CanRegen(w) THEN Outcome(TRUE, FALSE, Fresh(w), EntryFor(kind, w))
                         ELSE Outcome(TRUE, TRUE, EmptyData, AbsentEntry(kind))
ReadOutcomes(kind, en, w) ==
    IF Valid(kind, en, w)
    THEN IF Legacy(en) THEN {UsedOutcome(en), RegenOutcome(kind, w)} ELSE {UsedOutcome(en)}
    ELSE {RegenOutcome(kind, w)}
=============================================================================
