---------------------------- MODULE EnvUpdate_Trace ----------------------------
(* code -> spec: judges what the real code did (drivers/g06_envupdate.py).
   Tr[1] is a header {ev:"universe", files:[{id, name:[code points], kind, defs:[{k, v:[atoms]}]}]}.
   Pure-function events (one fresh root each):
     {ev:"collapse", envd:[ids], raised, d:[{k, kind, str, list}], inc:[names], colon:[names]}
     {ev:"update",   envd:[ids], raised, pre:{penv,pcsh,conf}, post:{penv,pcsh,conf}, writes:[names]}
     {ev:"protect",  envd:[ids], extrap:[toks], extram:[toks], probes:[{comps:[..], hit}]}
   History events (tid = one root; every event carries the FULL projected state st after it):
     {ev:"init"}   {ev:"begin", a:mode}   {ev:"end"}   environment steps toggle/mkrmdir/setenv/rmconf/tick
     {ev:"hook", h, mode, rc, obs:{trigs, writes, ldruns, ldseen, regens, rms, infos, warns, badwarn}}
   st = {envd:[ids], penv:{ex,head,lines:[{verb,k,v}]}, pcsh, conf:{ex,head,lines:[str]},
         dirs:[{d, ex, mt, files}], now, bin, snapL:{set, m:[[d,mt]]}, snapI, ino:{penv,pcsh,conf}}
   Every hook is judged from the previously OBSERVED state (re-synchronising).          *)
EXTENDS EnvUpdate, TraceLib

H == Tr[1]
FileById(i) == LET r == CHOOSE x \in AsSet(H.files) : x.id = i IN [name |-> r.name, kind |-> r.kind, defs |-> r.defs]
FilesOf(ids) == {FileById(i) : i \in AsSet(ids)}

VARIABLES l, prev, dirty, nh   \* dirty / nh: directories touched since the first hook of the running operation, hooks run
(* ------------------------------ projections ------------------------------ *)
Snap(s) == [set |-> s.set, m |-> {<<s.m[i][1], s.m[i][2]>> : i \in DOMAIN s.m}]
DirsOf(ds) == [d \in {ds[i].d : i \in DOMAIN ds} |->
                 LET r == ds[CHOOSE i \in DOMAIN ds : ds[i].d = d] IN [ex |-> r.ex, mt |-> r.mt, files |-> AsSet(r.files)]]
GenFile(f) == [ex |-> f.ex, head |-> f.head, lines |-> f.lines]
W(st) == [penv |-> GenFile(st.penv), pcsh |-> GenFile(st.pcsh), conf |-> GenFile(st.conf), dirs |-> DirsOf(st.dirs),
          now |-> st.now, bin |-> st.bin]
T(st) == [snapL |-> Snap(st.snapL), snapI |-> Snap(st.snapI)]
Pairs(s) == {<<s[i][1], s[i][2]>> : i \in DOMAIN s}
C(ok, name) == IF ok THEN {} ELSE {name}

(* ------------------------------ pure events ------------------------------ *)
JudgeCollapse(e) ==
    LET fs == FilesOf(e.envd) IN
    IF Broken(fs) THEN C(e.raised, "Collapse_raised")
    ELSE IF e.raised THEN {"Collapse_raised"}
    ELSE LET seen == {e.d[i].k : i \in DOMAIN e.d}
             Row(k) == e.d[CHOOSE i \in DOMAIN e.d : e.d[i].k = k]
         IN C(seen = Defined(fs), "Fold_vars")
            \cup C(\A k \in seen \cap Defined(fs) : Row(k).kind = Collapsed(fs, k).kind, "Fold_class")
            \cup C(\A k \in seen \cap Defined(fs) : Collapsed(fs, k).kind = "str" => Row(k).str = Collapsed(fs, k).str, "Fold_plain_last_wins")
            \cup C(\A k \in seen \cap Defined(fs) : Collapsed(fs, k).kind = "list" /\ Row(k).kind = "list" => Row(k).list = Collapsed(fs, k).list,
                   "Fold_incremental_accumulates")
            \cup C(AsSet(e.colon) = ColonVars(fs), "Classes_colon")
            \cup C(AsSet(e.inc) = IncrVars(fs), "Classes_incremental")
FileDiff(tag, o, x) == C(o.ex = x.ex, tag \o "_exists") \cup C(o.head = x.head, tag \o "_header")
                       \cup C(o.lines = x.lines, tag \o "_lines")
JudgeUpdate(e) ==
    LET fs  == FilesOf(e.envd)
        w0  == [penv |-> GenFile(e.pre.penv), pcsh |-> GenFile(e.pre.pcsh), conf |-> GenFile(e.pre.conf)]
        x   == EnvTrig(Digest(fs), w0, "post_merge")
    IN C(e.raised = Broken(fs), "Update_raised")
       \cup FileDiff("Update_profile_env", GenFile(e.post.penv), x.w.penv)
       \cup FileDiff("Update_profile_csh", GenFile(e.post.pcsh), x.w.pcsh)
       \cup FileDiff("Update_ld_so_conf", GenFile(e.post.conf), x.w.conf)
       \cup C(e.writes = x.o.writes, "Update_writes")
JudgeProtect(e) ==
    LET fs == FilesOf(e.envd) IN
    IF ~(ProtectDirs(fs, AsSet(e.extrap)) \cup MaskDirs(fs, AsSet(e.extram)) \subseteq PathToks) THEN {"OutsideDomain"}
    ELSE C(\A i \in DOMAIN e.probes : e.probes[i].hit = Protected(fs, AsSet(e.extrap), AsSet(e.extram), e.probes[i].comps),
           "Protect_match")

(* ------------------------------ histories ------------------------------ *)
GenNames == {"profile.env", "profile.csh", "ld.so.conf"}
InoOf(st, f) == CASE f = "profile.env" -> st.ino.penv [] f = "profile.csh" -> st.ino.pcsh [] f = "ld.so.conf" -> st.ino.conf
ExpTrigs(h) == IF IsPost(h) THEN <<"env_update", "ldconfig", "ebuild info regen">> ELSE <<"ldconfig", "ebuild info regen">>
JudgeHook(p, e) ==
    LET E   == Digest(FilesOf(p.envd))
        w0  == W(p)
        t0  == T(p)
    IN IF ~InfoDomain(E, w0, t0, e.h, e.mode) \/ e.st.envd # p.envd THEN {"OutsideDomain"}
       ELSE LET x  == HookOut(E, w0, t0, e.h, e.mode, e.rc)
                w1 == W(e.st)
                t1 == T(e.st)
                o  == e.obs
            IN C(o.trigs = ExpTrigs(e.h), "Trigger_order")
               \cup FileDiff("Post_profile_env", w1.penv, x.w.penv)
               \cup FileDiff("Post_profile_csh", w1.pcsh, x.w.pcsh)
               \cup FileDiff("Post_ld_so_conf", w1.conf, x.w.conf)
               \cup C(o.writes = x.o.writes, "Writes")
               \cup C(\A f \in GenNames \ SeqSet(x.o.writes) : InoOf(e.st, f) = InoOf(p, f) \/ (f = "ld.so.conf" /\ x.o.mkconf),
                      "Rewrite_frame")
               \cup C(o.ldruns = x.o.ldruns, "Ldconfig_runs")
               \cup C(o.ldseen = x.o.ldseen, "Ldconfig_reads_new_conf")
               \cup C(AsSet(o.regens) = x.o.regens, "Regen_set")
               \cup C(NoDups(o.regens), "Regen_once")
               \cup C(Pairs(o.infos) = x.o.infos, "Info_runs")
               \cup C(NoDups(o.infos), "Info_once")
               \cup C(Pairs(o.rms) = x.o.rms, "Index_wipe")
               \cup C(Pairs(o.badwarn) = x.o.bad, "Bad_reported")
               \cup C(o.warns = Warnings(x.o), "Warnings")
               \cup C(\A d \in DOMAIN x.w.dirs : w1.dirs[d].files = x.w.dirs[d].files /\ w1.dirs[d].ex = x.w.dirs[d].ex, "Post_dir_files")
               \cup C(\A d \in DOMAIN x.w.dirs : w1.dirs[d].mt = x.w.dirs[d].mt, "Post_dir_mtime")
               \cup C(t1.snapI = x.t.snapI, "Post_snapshot_info")
               \cup C(t1.snapL = x.t.snapL, "Post_snapshot_ld")
Judge(p, e) ==
    CASE e.ev = "collapse" -> JudgeCollapse(e)
      [] e.ev = "update"   -> JudgeUpdate(e)
      [] e.ev = "protect"  -> JudgeProtect(e)
      [] e.ev = "hook"     -> JudgeHook(p, e)
      [] OTHER -> {}

HasState(e) == e.ev \notin {"collapse", "update", "protect", "universe"}
\* operation level (same statement as InvIndexFresh of EnvUpdate_MC, on what the code was SEEN to regenerate)
IsLastHook(e) == e.h = "post_unmerge" \/ (e.h = "post_merge" /\ e.mode = "install")
DirtyAfter(e) == CASE e.ev \in {"init", "begin", "end"} -> {}
                   [] e.ev \in {"toggle", "mkrmdir"} -> IF nh >= 1 THEN dirty \cup {e.a} ELSE dirty
                   [] e.ev = "hook" -> dirty \ AsSet(e.obs.regens)
                   [] OTHER -> dirty
JudgeOp(e) ==
    IF e.ev = "hook" /\ IsLastHook(e) /\ e.st.bin /\ ~Broken(FilesOf(e.st.envd))
    THEN LET ds == DirsOf(e.st.dirs)
             locs == SeqSet(InfoLocs(FilesOf(e.st.envd)))
         IN C(\A d \in DirtyAfter(e) : ~(d \in locs /\ ds[d].ex /\ ~Kept(ds[d])), "Op_touched_dir_regenerated")
    ELSE {}
TraceInit == l = 1 /\ prev = [none |-> TRUE] /\ dirty = {} /\ nh = 0
TraceNext == /\ l < Len(Tr)
             /\ l' = l + 1
             /\ LET e == Tr[l'] IN
                /\ Report(e.tid, e.i, Judge(prev, e) \cup JudgeOp(e))
                /\ prev' = IF HasState(e) THEN e.st ELSE prev
                /\ dirty' = IF HasState(e) THEN DirtyAfter(e) ELSE dirty
                /\ nh' = IF ~HasState(e) THEN nh ELSE IF e.ev = "hook" THEN nh + 1 ELSE IF e.ev \in {"init", "begin", "end"} THEN 0 ELSE nh
             /\ EndMark(l')
TraceSpec == TraceInit /\ [][TraceNext]_<<l, prev, dirty, nh>>
=========================================================================
