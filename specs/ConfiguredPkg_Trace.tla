---------------------------- MODULE ConfiguredPkg_Trace ----------------------------
(* Judge of C14 histories executed on a real PackageWrapper.
   Tr[1] = {ev:"universe", flags, locked, attrs:[name], raw:{name:[node]},   (raw attributes, projected)
            opaque:[name]}   attributes with transitive USE-dep atoms: no View_meaning (DepSet gives them no meaning)
   then   {tid, i, op:"init"|"enable"|"disable"|"rollback"|"commit", vs:[flag], n,
           ret, exc,                         request granted?  name of an exception that escaped
           st:{use:[flag], log:[{add,f}]},   the configuration after the call (LimitedChangeSet)
           reads:[{attr, view:[node], fresh:[node]}]}   wrapped attribute / raw.evaluate_depset(use now)
   Each step is judged from the previously OBSERVED state, so one deviation never hides the rest.
   Clauses: View_stale, View_meaning (the property, first half); Refused_use_changed (second half);
   Ret, Post_use, Post_log (the request / rollback / commit semantics of ConfiguredPkg);
   Raised (an exception escaped from rollback / commit); OutsideDomain (generator error).         *)
EXTENDS TraceLib
H == Tr[1]
TLocked == AsSet(H.locked)
VARIABLES l, st
INSTANCE ConfiguredPkg WITH Locked <- TLocked

ReportX(tid, i, bad) == \A c \in bad : PrintT(<<"VERDICT", tid, i, c[1], c[2]>>)
If(cond, clause, extra) == IF cond THEN {<<clause, extra>>} ELSE {}

Obs(o) == [use |-> AsSet(o.use), log |-> [k \in DOMAIN o.log |-> Entry(o.log[k].add, o.log[k].f, FALSE)]]
LogEq(a, b) == Len(a.log) = Len(b.log) /\ \A k \in DOMAIN a.log : a.log[k].add = b.log[k].add /\ a.log[k].f = b.log[k].f
StateEq(a, b) == a.use = b.use /\ LogEq(a, b)
Empty == [use |-> {}, log |-> <<>>]

JudgeReads(e, obs) ==
  UNION {LET r == e.reads[k] IN
         If(r.view # r.fresh, "View_stale", r.attr)
         \cup If(r.attr \notin AsSet(H.opaque) /\ WellFormed(r.view) /\ ~ViewOK(H.raw[r.attr], obs.use, r.view),
                 "View_meaning", r.attr)
         \cup If(~WellFormed(r.view), "View_wellformed", r.attr)
         : k \in DOMAIN e.reads}

Diff(exp, obs) == If(exp.use # obs.use, "Post_use", "") \cup If(~LogEq(exp, obs), "Post_log", "")

JudgeOp(cur, e, obs) ==
  CASE e.op = "init" -> If(obs.log # <<>> \/ obs.use # AsSet(e.vs), "Post_use", "")
    [] e.op \in {"enable", "disable"} ->
         LET outs == Outcomes(cur, e.op, e.vs, FALSE)
             same == {o \in outs : o.ret = e.ret}
         IN (IF \E o \in same : StateEq(o.s, obs) THEN {}
             ELSE IF same = {} THEN {<<"Ret", "">>}
             ELSE IF \A o \in same : o.s.use # obs.use THEN {<<"Post_use", "">>} ELSE {<<"Post_log", "">>})
            \cup If(~RefusedOK(cur, e.ret, obs), "Refused_use_changed",
                    IF \E o \in outs : ~o.ret /\ StateEq(o.s, obs) THEN "LimitedChangeSet.rollback" ELSE "other")
    [] e.op = "rollback" ->
         IF e.n > Len(cur.log) THEN {<<"OutsideDomain", "">>}
         ELSE If(e.exc # "", "Raised", e.exc) \cup Diff(RollbackTo(cur, e.n, FALSE), obs)
    [] e.op = "commit" -> If(e.exc # "", "Raised", e.exc) \cup Diff(DoCommit(cur), obs)
    [] OTHER -> {<<"UnknownEvent", "">>}

TraceInit == l = 1 /\ st = Empty
TraceNext == /\ l < Len(Tr)
             /\ l' = l + 1
             /\ LET e == Tr[l']
                    obs == Obs(e.st)
                IN /\ ReportX(e.tid, e.i, JudgeOp(st, e, obs) \cup JudgeReads(e, obs))
                   /\ st' = obs
             /\ EndMark(l')
TraceSpec == TraceInit /\ [][TraceNext]_<<l, st>>
=========================================================================
