---------------------------- MODULE BugQuery_Laws ----------------------------
\* constant-level laws of BugQuery.tla, checked by evaluating ASSUMEs (no behaviour)
EXTENDS BugQuery
Fields == {"f1", "f2"}
Words == {"a", "b"}
Bugs == SUBSET (Fields \X Words)
Leaves == {Crit(f, o, vs, n, sp) : f \in Fields, o \in {"anywords", "allwords", "nowordssubstr"},
                                   vs \in {<<"a">>, <<"a", "b">>}, n \in BOOLEAN, sp \in {FALSE}}
SomeLeaves == {Crit(f, "anywords", <<w>>, n, FALSE) : f \in Fields, w \in Words, n \in BOOLEAN}
Groups1 == {Group(j, ks) : j \in {"AND", "OR", "AND_G"}, ks \in BoundedSeq(SomeLeaves, 2)}
SomeGroups1 == {Group(j, ks) : j \in {"AND", "OR"}, ks \in BoundedSeq({Crit("f1", "anywords", <<"a">>, FALSE, FALSE), Crit("f2", "anywords", <<"b">>, TRUE, FALSE)}, 2)}
Groups2 == {Group(j, ks) : j \in {"AND", "OR"}, ks \in BoundedSeq(SomeGroups1 \cup {Crit("f1", "anywords", <<"b">>, FALSE, FALSE)}, 2)}
Charts == Leaves \cup Groups1 \cup Groups2

\* the normal form does not change the truth value (empty groups are outside the domain)
RECURSIVE NoEmptyGroup(_)
NoEmptyGroup(c) == c.t = "crit" \/ (c.kids # <<>> /\ \A i \in DOMAIN c.kids : NoEmptyGroup(c.kids[i]))
NormSound == \A c \in Charts : NoEmptyGroup(c) => \A b \in Bugs : ChartHolds(Norm(c), b) = ChartHolds(c, b)
NormIdem  == \A c \in Charts : Norm(Norm(c)) = Norm(c)
\* the reference evaluator reads a rendering back (any slot the rendering starts from)
ReadBack == \A c \in Charts : \A s \in {1, 4} :
              LET r == RenderChart(c, s) IN
              /\ UniqueSlots(r.ps) /\ SlotShape(r.ps) /\ Balanced(r.ps)
              /\ ParseCharts(r.ps) = <<c>>
              /\ r.next = s + Slots(c)
\* any_of over searches is their disjunction, & their conjunction
AnyOfIsOr == \A a \in SomeGroups1 \cup SomeLeaves, b \in SomeLeaves, c \in {Crit("f1", "anywords", <<"a">>, FALSE, FALSE), Crit("f2", "anywords", <<"b">>, TRUE, FALSE)} :
               NoEmptyGroup(a) => \A bug \in Bugs :
                 ChartsHold(AnyOf(<<And(ChartQ(a), ChartQ(b)), ChartQ(c)>>).charts, bug)
                   = ((ChartHolds(a, bug) /\ ChartHolds(b, bug)) \/ ChartHolds(c, bug))

\* the batch judge accepts the reference greedy split and rejects a lossy / oversize one
IdPs(costs) == [k \in DOMAIN costs |-> [k |-> "s", n |-> 0, key |-> "id", v |-> ToString(k), iv |-> 0, len |-> costs[k] - 1]]
Other == <<[k |-> "s", n |-> 0, key |-> "resolution", v |-> "---", iv |-> 0, len |-> 5]>>
Pick(ps, idx) == [k \in DOMAIN idx |-> ps[idx[k]]]
GreedyAccepted ==
  \A costs \in BoundedSeq(2..4, 4), budget \in 3..9 :
     LET ps == Other \o IdPs(costs)
         bs == [b \in DOMAIN GreedyBatches(costs, budget) |-> Other \o Pick(IdPs(costs), GreedyBatches(costs, budget)[b])]
     IN BatchFails(ps, bs, Axis("id", 0), 10, 10 + 5 + budget) = {}
LossyRejected ==
  LET ps == Other \o IdPs(<<2, 2, 2>>) IN
  /\ "Batch_Partition" \in BatchFails(ps, <<Other \o Pick(IdPs(<<2, 2, 2>>), <<1, 3>>)>>, Axis("id", 0), 0, 100)
  /\ "Batch_Budget" \in BatchFails(ps, <<ps>>, Axis("id", 0), 0, 9)
  /\ "Batch_OthersUnchanged" \in BatchFails(ps, <<IdPs(<<2, 2, 2>>)>>, Axis("id", 0), 0, 100)
  /\ "Batch_NonEmpty" \in BatchFails(ps, <<ps, Other>>, Axis("id", 0), 0, 100)

ASSUME NormSound
ASSUME NormIdem
ASSUME ReadBack
ASSUME AnyOfIsOr
ASSUME GreedyAccepted
ASSUME LossyRejected
=========================================================================
