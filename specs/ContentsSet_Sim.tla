---------------------------- MODULE ContentsSet_Sim ----------------------------
(* spec -> code: TLC (simulation mode) chooses operation sequences of the ContentsSet_MC
   universe; each behaviour is printed once it has D operations and is replayed on a real
   contentsSet by drivers/c22_contentsset.py.  hist holds only the INPUTS of the operations
   (and the binding-level choice `how`: entry or string; contentsSet, generator, list, tuple or Python set); the outcome is
   recomputed from the implementation's observations by ContentsSet_Trace.                *)
EXTENDS ContentsSet_MC
CONSTANT D
VARIABLE hist
HowsOf(a) == IF a.op \in ByKey THEN {"entry", "str"}
             ELSE IF a.op \in BinPure \cup BinUpd \cup Tests \cup {"update"}
                  THEN (IF \E i \in DOMAIN a.arg : a.arg[i].kind = "str" THEN {} ELSE {"set"})
                       \cup {"gen", "list", "tuple", "pyset"}
             ELSE {a.how}
SimInit == Init /\ hist = <<>>
\* simulation picks uniformly among successor STATES; drawing the operation first keeps the
\* operations with few parameter values (clear, add_missing_directories, add) from being starved
OpBag == <<"add", "add", "add", "update", "update", "remove", "delitem", "discard", "discard", "getitem", "contains",
           "clear", "add_missing_directories", "add_missing_directories", "change_offset", "change_offset",
           "insert_offset", "union", "intersection", "difference", "symmetric_difference",
           "intersection_update", "difference_update", "symmetric_difference_update",
           "issubset", "issuperset", "isdisjoint">>
\* (bound by \E so that the draw is evaluated once per step, a LET would be re-evaluated per use)
SimNext == \E i \in {RandomElement(1..(Len(OpBag) + (n - n)))} :   \* (n - n): keeps TLC from constant-folding the draw
           \E a \in {x \in Actions : x.op = OpBag[i]} :
              /\ Do(a)
              /\ \E h \in HowsOf(a) : hist' = Append(hist, [a EXCEPT !.how = h])
SimSpec == SimInit /\ [][SimNext]_<<vars, hist>>
Emit == Len(hist) # D \/ PrintT(<<"BEH", hist>>)
SimBound == Len(hist) <= D
=========================================================================
