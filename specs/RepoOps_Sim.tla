---------------------------- MODULE RepoOps_Sim ----------------------------
(* spec -> code: TLC -simulate draws call histories (stage, script) for kind K; the
   finished history is printed once and replayed on a real operation object. *)
EXTENDS RepoOps
CONSTANTS K, Dp
VARIABLES st, hist, fin
Scripts == [UserStages -> Outcomes]
CallSet == StagesOf(K) \X Scripts
SimInit == st = InitSt /\ hist = <<>> /\ fin = FALSE
SimNext ==
  \/ /\ Len(hist) < Dp
     /\ \E c \in {RandomElement(CallSet)} :
           /\ st' = CallStage(K, "shipped", st, c[1], c[2], TRUE).st
           /\ hist' = Append(hist, [stage |-> c[1], a |-> c[2]["add_data"], r |-> c[2]["remove_data"], f |-> c[2]["finalize_data"]])
     /\ fin' = FALSE
  \/ /\ Len(hist) = Dp /\ ~fin /\ fin' = TRUE /\ UNCHANGED <<st, hist>>
     /\ PrintT(<<"BEH", K, hist>>)
SimSpec == SimInit /\ [][SimNext]_<<st, hist, fin>>
=============================================================================
