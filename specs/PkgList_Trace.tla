---------------------------- MODULE PkgList_Trace ----------------------------
(* Judges what the real PackageList did (drivers/c38_pkglist.py); all text as code points.
   {ev:"parse",  text, entries:[{raw, eol, blank, kws}]}          PackageList(text).entries
   {ev:"build",  entries:[{pkg, kws}], text, parsed:[{pkg, kws}]}  PackageList.build(..) and its package entries
                                                                   (pkg = str() of the atom)
   {ev:"expand", text, sg:[{spec, kws}], refused, out}             PackageList(text).expand(suggest).text
   {ev:"withkw", text, kws, out}                                   entries[0].with_keywords(kws): raw + eol
   every event carries raised: "" or the name of the exception the call ended with               *)
EXTENDS PkgList, TraceLib
VARIABLE l

TokensOk(ks) == \A i \in DOMAIN ks : IsToken(ks[i])

JudgeParse(e) ==
  IF ~TextInDomain(e.text) THEN {"OutsideDomain"}
  ELSE LET ls == ParseText(e.text)
           es == e.entries
       IN (IF FlattenSeq([i \in DOMAIN es |-> es[i].raw \o es[i].eol]) = e.text THEN {} ELSE {"RoundTrip"})
          \cup (IF Len(es) = Len(ls) THEN {} ELSE {"Parse_LineCount"})
          \cup (IF Len(es) # Len(ls) \/ \A i \in DOMAIN ls :
                      /\ es[i].raw = RawOf(ls[i]) /\ es[i].eol = ls[i].eol
                      /\ es[i].blank = ~IsPkgLine(ls[i])
                      /\ es[i].kws = ls[i].kws
                THEN {} ELSE {"Parse_Fields"})

JudgeBuild(e) ==
  IF ~(\A i \in DOMAIN e.entries : IsToken(e.entries[i].pkg) /\ TokensOk(e.entries[i].kws)) THEN {"OutsideDomain"}
  ELSE LET ls == ParseText(e.text)
           pk == SelectSeq(ls, IsPkgLine)
       IN (IF [i \in DOMAIN e.parsed |-> [pkg |-> e.parsed[i].pkg, kws |-> e.parsed[i].kws]]
              = [i \in DOMAIN e.entries |-> [pkg |-> e.entries[i].pkg, kws |-> e.entries[i].kws]]
           THEN {} ELSE {"Build_Parse"})
          \* the text itself: one line per entry, spec and keywords as given (by the reference parser)
          \cup (IF [i \in DOMAIN pk |-> [pkg |-> pk[i].spec, kws |-> pk[i].kws]]
                   = [i \in DOMAIN e.entries |-> [pkg |-> e.entries[i].pkg, kws |-> e.entries[i].kws]]
                THEN {} ELSE {"Build_Text"})

JudgeExpand(e) ==
  IF ~TextInDomain(e.text) \/ ~(\A i \in DOMAIN e.sg : TokensOk(e.sg[i].kws)) THEN {"OutsideDomain"}
  ELSE ExpandFails(e.text, e.sg, e.refused, e.out)

JudgeWithKw(e) ==
  IF ~TextInDomain(e.text) \/ ~TokensOk(e.kws) \/ Len(ParseText(e.text)) # 1 THEN {"OutsideDomain"}
  ELSE LET L == ParseText(e.text)[1]
           os == ParseText(e.out)
       IN IF Len(os) # 1 THEN (IF e.out = e.text /\ e.text = <<>> THEN {} ELSE {"Expand_LineCount"})
          \* with_keywords always rewrites a package line (expand() only calls it when the keywords change)
          ELSE IF IsPkgLine(L) THEN RewriteFails(L, os[1], e.kws) ELSE LineFails(L, os[1], <<>>)

Verdict(e) == CASE e.ev = "parse" -> JudgeParse(e) [] e.ev = "build" -> JudgeBuild(e)
                [] e.ev = "expand" -> JudgeExpand(e) [] e.ev = "withkw" -> JudgeWithKw(e)
                [] OTHER -> {"UnknownEvent"}
\* e.raised: name of an exception the call ended with (other than the documented refusal of expand()).  On an input of
\* the domain that is a failure of the code, judged like any other; the domain is still checked first.
Judge(e) == IF e.raised = "" THEN Verdict(e)
            ELSE IF "OutsideDomain" \in Verdict([e EXCEPT !.raised = ""]) THEN {"OutsideDomain"}
            ELSE {CASE e.ev = "parse" -> "Parse_Raised" [] e.ev = "build" -> "Build_Raised"
                    [] e.ev = "expand" -> "Expand_Raised" [] OTHER -> "WithKw_Raised"}
TraceInit == l = 0
TraceNext == /\ l < Len(Tr)
             /\ l' = l + 1
             /\ Report(Tr[l'].tid, Tr[l'].i, Judge(Tr[l']))
             /\ EndMark(l')
TraceSpec == TraceInit /\ [][TraceNext]_l
=========================================================================
