---------------------------- MODULE ConfigInherit_Trace ----------------------------
(* Judges recorded collapses of the real ConfigManager (drivers/c43_configinherit.py).
   {tid, i, root, keys:[..], defs:[{name, src, inh:[..], keys:[..]}],
    outcome: "values" | "error" (ConfigurationError) | "other",
    vals:[{k, name, src}]}      one entry per key of `keys`; name "-" = key absent
   Clause "_Unspecified" is not a verdict on the code: it marks inputs the specification
   leaves open (non-tree graphs, no class anywhere); the driver only counts them.          *)
EXTENDS ConfigInherit, TraceLib
VARIABLE l
Cfg(e) == {[name |-> e.defs[k].name, src |-> e.defs[k].src, inh |-> e.defs[k].inh, keys |-> AsSet(e.defs[k].keys)] : k \in DOMAIN e.defs}
Judge(e) ==
    LET cfg == Cfg(e) IN
    IF Cardinality(cfg) # Len(e.defs) THEN {"OutsideDomain"} ELSE JudgeRead(cfg, e.root, e.outcome, e.vals)
TraceInit == l = 0
TraceNext == /\ l < Len(Tr)
             /\ l' = l + 1
             /\ Report(Tr[l'].tid, Tr[l'].i, Judge(Tr[l']))
             /\ EndMark(l')
TraceSpec == TraceInit /\ [][TraceNext]_l
=========================================================================
