---------------------------- MODULE ConfigInherit_Trace ----------------------------
(* Judges recorded collapses of the real ConfigManager (drivers/c43_configinherit.py).
   {tid, i, root, keys:[..], defs:[{name, src, inh:[..], keys:[..]}],
    outcome: "values" | "error" (ConfigurationError) | "other",
    vals:[{k, name, src}]}      one entry per key of `keys`; name "-" = key absent
   Clause "_Unspecified" is not a verdict on the code: it marks inputs the specification
   leaves open (non-tree graphs, no class anywhere); the driver only counts them.          *)
EXTENDS ConfigInherit, TraceLib
VARIABLE l
Cfg(e) == {[name |-> e.defs[k].name, src |-> e.defs[k].src, inh |-> e.defs[k].inh, keys |-> AsSet(e.defs[k].keys)] : k \in DOMAIN e.defs}
Judge(e) ==
    LET cfg == Cfg(e)
        st  == Status(cfg, e.root)
    IN IF Cardinality(cfg) # Len(e.defs) THEN {"OutsideDomain"}
       ELSE IF st = "Unspecified" THEN {"_Unspecified"}
       ELSE IF st = "Error" THEN (IF e.outcome = "error" THEN {} ELSE {"Error_not_reported"})
       ELSE IF ValueOf(cfg, e.root, "class") = NoOrigin THEN {"_Unspecified"}    \* nothing to instantiate: not collapsible
       ELSE IF e.outcome = "error" THEN {"Unexpected_error"}
       ELSE IF e.outcome # "values" THEN {"Unexpected_exception"}
       ELSE LET wrong == {j \in DOMAIN e.vals : [name |-> e.vals[j].name, src |-> e.vals[j].src] # ValueOf(cfg, e.root, e.vals[j].k)}
                own   == Newest(cfg, e.root).keys
            IN (IF \E j \in wrong : e.vals[j].k \in own THEN {"Own_value_lost"} ELSE {})
               \cup (IF \E j \in wrong : e.vals[j].k \notin own THEN {"Not_nearest"} ELSE {})
TraceInit == l = 0
TraceNext == /\ l < Len(Tr)
             /\ l' = l + 1
             /\ Report(Tr[l'].tid, Tr[l'].i, Judge(Tr[l']))
             /\ EndMark(l')
TraceSpec == TraceInit /\ [][TraceNext]_l
=========================================================================
