---------------------------- MODULE ConfigProtect ----------------------------
(* C21: CONFIG_PROTECT (src/pkgcore/ebuild/triggers.py: gen_config_protect_filter,
   gen_collision_ignore_filter, ConfigProtectInstall(+_restore), ConfigProtectUninstall).

   Paths are sequences of components relative to the merge offset ("/cfg/app/a.conf" =
   <<"cfg","app","a.conf">>); contents are opaque identifiers.  A configuration is
     cfg = [protect : set of directories, mask : set of directories,
            ignore  : set of [kind : "dir" | "file", path]]           (COLLISION_IGNORE)
   One config file at path p is described by
     live    : its content on the live filesystem, or None
     pending : the pending updates beside it, a function  number -> content  (._cfgNNNN_<name>)

   MERGE of an incoming file with content `new` (decision table):
     nothing there                         -> written under the real name
     not protected, or identical content   -> (over)written under the real name; nothing to protect
     protected and differing               -> the live file is NOT touched; `new` is written as
                                              ._cfgNNNN_<name> where NNNN is the number of a pending
                                              update that already holds `new`, else a number above
                                              every existing one; no other pending update changes;
                                              the package's recorded contents list the REAL name.
   UNMERGE of a recorded file with recorded content `rec`:
     protected and live content differs    -> the live file stays as it is.
   Everything else (what an unprotected merge/unmerge does) belongs to C18/C19 and is not judged.  *)
EXTENDS Integers, Sequences, FiniteSets

None == "-"

Under(p, d) == Len(d) < Len(p) /\ SubSeq(p, 1, Len(d)) = d
Ignored(p, cfg) == \E g \in cfg.ignore : \/ (g.kind = "dir" /\ Under(p, g.path))
                                          \/ (g.kind = "file" /\ p = g.path)
Protected(p, cfg) == /\ \E d \in cfg.protect : Under(p, d)
                     /\ ~\E d \in cfg.mask : Under(p, d)
                     /\ ~Ignored(p, cfg)

Numbers(pending)    == DOMAIN pending
MaxNumber(pending)  == IF Numbers(pending) = {} THEN -1 ELSE CHOOSE n \in Numbers(pending) : \A k \in Numbers(pending) : k <= n
Holding(pending, c) == {n \in Numbers(pending) : pending[n] = c}

\* the rows of the decision table
MustProtect(live, new, prot) == live # None /\ prot /\ new # live

\* numbers the update may be written under
UpdateNumbers(pending, new, bound) ==
  IF Holding(pending, new) # {} THEN Holding(pending, new)
  ELSE {n \in 0..bound : n > MaxNumber(pending)}

\* the outcome of merging `new` over (live, pending): the set of permitted (live', pending') pairs
MergeOutcomes(live, pending, new, prot, bound) ==
  IF MustProtect(live, new, prot)
  THEN {[live |-> live,
         pending |-> [k \in Numbers(pending) \cup {n} |-> IF k = n THEN new ELSE pending[k]]] :
          n \in UpdateNumbers(pending, new, bound)}
  ELSE {[live |-> new, pending |-> pending]}

\* ---- judging one observed merge of one file (used by ConfigProtect_Trace) ----
\* before/after = [live, pending]; recorded = names the merged contents list for this file
NotOverwritten(b, a, new, prot)  == MustProtect(b.live, new, prot) => a.live = b.live
PendingKept(b, a, new, prot)     == MustProtect(b.live, new, prot) =>
                                      \A n \in Numbers(b.pending) : n \in Numbers(a.pending) /\ a.pending[n] = b.pending[n]
UpdateWritten(b, a, new, prot)   == MustProtect(b.live, new, prot) => Holding(a.pending, new) # {}
\* exactly one number is (re)used, and it obeys the numbering rule
Numbering(b, a, new, prot) ==
  MustProtect(b.live, new, prot) =>
    IF Holding(b.pending, new) # {}
    THEN Numbers(a.pending) = Numbers(b.pending)                       \* identical pending update reused
    ELSE /\ Cardinality(Numbers(a.pending) \ Numbers(b.pending)) <= 1
         /\ \A n \in Numbers(a.pending) \ Numbers(b.pending) : n > MaxNumber(b.pending)
RecordedName(b, new, prot, recorded) ==
  MustProtect(b.live, new, prot) => ("real" \in recorded /\ "cfg" \notin recorded)

\* The pending updates of <name> are exactly the files ._cfgNNNN_<name> with four decimal digits.  Any
\* other file beside it - however similar its name (._cfg0001, ._cfg12_<name>, ._cfgabcd_<name>,
\* ._cfg0001_<other>, ...) - is a stray: it takes no part in the decision table and is left alone.
StraysKept(before, after) == before = after

\* unmerge
MustKeep(live, rec, prot) == live # None /\ prot /\ live # rec
UnmergeKept(b, a, rec, prot) == MustKeep(b.live, rec, prot) => a.live = b.live
=========================================================================
