---------------------------- MODULE PortageConf ----------------------------
(* G07: the portage configuration translator (src/pkgcore/ebuild/portage_conf.py):
   PortageConfig(location, profile_override, root=, buildpkg=) as a FUNCTION from an abstract
   etc/portage tree to the set of typed config sections it generates, the repo ordering, FEATURES
   and the process-wide repo map it installs (profiles.ProfileNode._repo_map).

   What a user of that code relies on, and what is specified here:
     * repos.conf (file, or directory of fragments): fragments are read in NAME order whatever
       order the directory lists them in (hidden and backup files are not read); a later fragment
       that defines a repo REPLACES the earlier definition as a whole (no key-wise merge) but the
       repo keeps the position of its first definition; a definition without location or with an
       unknown repo-type is ignored with a warning and leaves an earlier definition in force;
       [DEFAULT] keys are merged key-wise over the fragments, main-repo defaults to "gentoo";
       priority: unset -> 0 (binpkg: -10000), unparsable -> 0 with a warning, the main repo's 0
       becomes -1000; repos are ordered by descending priority, ties in first-definition order
       (total and stable); a missing main repo is a UserConfigError, a duplicate section in one
       file or garbage a ParsingError; no repos.conf at all falls back to the shipped one.
     * make.conf (file or directory, read after make.globals): bash assignments with ${VAR}
       substitution against everything read so far, `source` of further files, incremental
       variables (FEATURES, USE, ..) are appended to the value they had before the FILE was read;
       load_make_conf's flags: a missing file is an error only when required, a directory only
       without allow_recurse, `source` only without allow_sourcing; a failing file leaves the
       caller's dictionary as the files before it left it.
     * the sections: world/system/installed/versioned-installed + user sets, profile (symlink,
       plain directory, override; user profile), vdb, ebuild-repo-common, per repo conf:/cache:/
       repo section/sync:, repo-stack + vuln when a repo is registered, the livefs domain.
     * failure: UserConfigError / ParsingError, and a failed load leaves the repo map of the
       previous successful load in place.

   NAMED DEVIATIONS (the code's behaviour, specified as it is, not flagged):
     DefaultNotInherited   [DEFAULT] keys other than main-repo are NOT inherited by the repo
                           sections (portage does inherit them): sync-type in DEFAULT has no effect.
     WholeSectionOverride  a later fragment replaces a repo definition as a whole.
     SilentNonexistent     a repo whose location does not exist gets conf:/cache:/sync: sections
                           and a repo-map entry but no repo section and no warning.
     MainRepoMayVanish     when the main repo is skipped (unsupported EAPI, nonexistent location,
                           binpkg type) no section carries default=True: "exactly one default
                           repo" only holds when the main repo is registered as an ebuild repo.
     NoReposNoError        a repos.conf that defines no usable repo is not an error: no
                           repo-stack, the domain gets repos=().
     RsyncOptsPopped       PORTAGE_RSYNC_OPTS / _EXTRA_OPTS leave the domain settings only when
                           some repo syncs by rsync; they then replace that repo's sync-opts.
     UserSetShadows        a user set named like a built-in set that is defined earlier
                           (installed, versioned-installed) replaces it; one named like a section
                           defined later (vdb, profile, ..) is lost.

   Values of variables are compared as WORD SEQUENCES (str.split()).  Paths are written relative
   to the root of the temporary tree the driver builds ("/etc/portage", "/repos/A"), the shipped
   locations of the fallback repos.conf are absolute.                                            *)
EXTENDS Integers, Sequences, FiniteSets, TLC

Unset == "-"
CfgDir == "/etc/portage"
RepoPath(loc) == CASE loc = "SYSG" -> "/var/db/repos/gentoo"
                   [] loc = "SYSB" -> "/var/cache/binpkgs"
                   [] OTHER -> "/repos/" \o loc
Bv(b) == IF b THEN <<"True">> ELSE <<"False">>
S1(x) == <<x>>
Section(grp, name, cls, kv) == [grp |-> grp, name |-> name, cls |-> cls, kv |-> kv]
Merge(f, g) == [x \in (DOMAIN f) \cup (DOMAIN g) |-> IF x \in DOMAIN f THEN f[x] ELSE g[x]]
EmptyFn == [x \in {} |-> <<>>]
SeqSet(s) == {s[i] : i \in DOMAIN s}

(* ===================================================================== repos.conf *)
(* a section of a fragment: [name, loc, rel, ptag, pval, type, stype, suri, sopts, main];
   name "DEFAULT" is the defaults section; Unset = key not written                          *)
KnownTypes == {Unset, "ebuild-v1", "binpkg-v1"}
IsBinpkg(s) == s.type = "binpkg-v1"
PrioOf(s) == CASE s.ptag = "int" -> s.pval
               [] s.ptag = "bad" -> 0
               [] OTHER -> IF IsBinpkg(s) THEN 0 - 10000 ELSE 0
ValidDef(s) == s.name # "DEFAULT" /\ s.loc # Unset /\ s.type \in KnownTypes
DefaultNonEmpty(s) == s.main # Unset \/ s.stype # Unset \/ s.suri # Unset \/ s.loc # Unset \/ s.ptag # "unset"
                      \/ s.type # Unset \/ s.sopts # Unset

\* the files that are read, in the order they are read
VisibleSorted(frags) == SortSeq(SelectSeq(frags, LAMBDA f : f.vis), LAMBDA a, b : a.ord < b.ord)
RcFiles(rc) == IF rc.kind = "file" THEN <<rc.frags[1]>> ELSE VisibleSorted(rc.frags)
FragDup(f) == \E i, j \in DOMAIN f.secs : i < j /\ f.secs[i].name = f.secs[j].name

R0 == [err |-> "", main |-> Unset, dne |-> FALSE, repos |-> <<>>, warn |-> {}]
IndexOf(repos, n) == IF \E i \in DOMAIN repos : repos[i].name = n
                     THEN CHOOSE i \in DOMAIN repos : repos[i].name = n ELSE 0
Put(repos, c) == LET k == IndexOf(repos, c.name) IN
                 IF k = 0 THEN Append(repos, c) ELSE [repos EXCEPT ![k] = c]

\* one repo section of one fragment
StepSec(st, s) ==
  IF s.name = "DEFAULT" THEN st
  ELSE LET w0 == IF IndexOf(st.repos, s.name) # 0 THEN {<<"override_repo", s.name>>} ELSE {} IN
       IF s.loc = Unset THEN [st EXCEPT !.warn = @ \cup w0 \cup {<<"missing_location", s.name>>}]
       ELSE IF s.type \notin KnownTypes THEN [st EXCEPT !.warn = @ \cup w0 \cup {<<"bad_type", s.name>>}]
       ELSE [st EXCEPT !.warn = @ \cup w0 \cup (IF s.ptag = "bad" THEN {<<"bad_priority", s.name>>} ELSE {}),
                       !.repos = Put(@, [name |-> s.name, s |-> s, prio |-> PrioOf(s)])]
RECURSIVE StepSecs(_, _)
StepSecs(st, secs) == IF secs = <<>> THEN st ELSE StepSecs(StepSec(st, Head(secs)), Tail(secs))

\* one file of repos.conf (the critical section of parse_repos_conf_path's loop)
StepFrag(st, f) ==
  IF st.err # "" THEN st
  ELSE IF f.bad \/ FragDup(f) THEN [st EXCEPT !.err = "ParsingError"]
  ELSE LET ds == SelectSeq(f.secs, LAMBDA s : s.name = "DEFAULT")
           hasd == ds # <<>> /\ DefaultNonEmpty(ds[1])
           st1 == [st EXCEPT !.warn = IF hasd /\ st.dne THEN @ \cup {<<"override_default", "DEFAULT">>} ELSE @,
                             !.dne = @ \/ hasd,
                             !.main = IF ds # <<>> /\ ds[1].main # Unset THEN ds[1].main ELSE @]
       IN StepSecs(st1, f.secs)
RECURSIVE StepFrags(_, _)
StepFrags(st, fs) == IF fs = <<>> THEN st ELSE StepFrags(StepFrag(st, Head(fs)), Tail(fs))

\* ordering: descending priority, ties in the order of first definition
Before(r, i, j) == r[i].prio > r[j].prio \/ (r[i].prio = r[j].prio /\ i < j)
StableDesc(r) == [k \in 1..Len(r) |->
                    r[CHOOSE i \in DOMAIN r : Cardinality({j \in DOMAIN r : j # i /\ Before(r, j, i)}) = k - 1]]
\* the same with ties reversed (a descending sort done as "ascending, then reversed"): broken variant
BeforeU(r, i, j) == r[i].prio > r[j].prio \/ (r[i].prio = r[j].prio /\ i > j)
UnstableDesc(r) == [k \in 1..Len(r) |->
                    r[CHOOSE i \in DOMAIN r : Cardinality({j \in DOMAIN r : j # i /\ BeforeU(r, j, i)}) = k - 1]]
MainOf(st) == IF st.main = Unset THEN "gentoo" ELSE st.main
LowerMain(r, m) == [i \in DOMAIN r |-> IF r[i].name = m /\ r[i].prio = 0 THEN [r[i] EXCEPT !.prio = 0 - 1000] ELSE r[i]]
\* variants are selected by the model (vacuity guards); the real design is FinalizeV(st, FALSE, FALSE)
FinalizeV(st, unstable, keepmain) ==
  IF st.err # "" \/ st.repos = <<>> THEN st
  ELSE IF IndexOf(st.repos, MainOf(st)) = 0 THEN [st EXCEPT !.err = "UserConfigError"]
  ELSE LET r1 == IF keepmain THEN st.repos ELSE LowerMain(st.repos, MainOf(st)) IN
       [st EXCEPT !.main = MainOf(st), !.repos = IF unstable THEN UnstableDesc(r1) ELSE StableDesc(r1)]
Finalize(st) == FinalizeV(st, FALSE, FALSE)

NoSec(n) == [name |-> n, loc |-> Unset, rel |-> FALSE, ptag |-> "unset", pval |-> 0, type |-> Unset, stype |-> Unset,
             suri |-> Unset, sopts |-> Unset, main |-> Unset]
\* data/share/pkgcore/config/repos.conf
ShippedFrag == [ord |-> 1, vis |-> TRUE, bad |-> FALSE, secs |->
                 << [NoSec("DEFAULT") EXCEPT !.main = "gentoo"],
                    [NoSec("gentoo") EXCEPT !.loc = "SYSG", !.suri = "tar+https://github.com/gentoo-mirror/gentoo/archive/stable.tar.gz"],
                    [NoSec("binpkgs") EXCEPT !.loc = "SYSB", !.type = "binpkg-v1"] >>]
ParseRepos(rc) == Finalize(StepFrags(R0, IF rc.kind = "absent" THEN <<ShippedFrag>> ELSE RcFiles(rc)))

(* ===================================================================== repo registration *)
(* disk[loc] = [exists, cachefmt ("default" | "pms" | "none"), md5dir, eapiok] *)
Supported(c, disk) == IsBinpkg(c.s) \/ disk[c.s.loc].eapiok
Kept(P, disk) == SelectSeq(P.repos, LAMBDA c : Supported(c, disk))               \* repos that get a syncer
Registered(P, disk) == SelectSeq(Kept(P, disk), LAMBDA c : disk[c.s.loc].exists)  \* repos that get a repo section
Order(P, disk) == [i \in DOMAIN Registered(P, disk) |-> Registered(P, disk)[i].name]
RepoMap(P, disk) == {<<c.name, RepoPath(c.s.loc)>> : c \in {x \in SeqSet(Kept(P, disk)) : ~IsBinpkg(x.s)}}
EapiWarn(P, disk) == {<<"unsupported_eapi", c.name>> : c \in {x \in SeqSet(P.repos) : ~Supported(x, disk)}}

CacheSecs(c, disk) ==
  LET d == disk[c.s.loc]  p == RepoPath(c.s.loc) IN
  IF d.cachefmt = "none" THEN {}
  ELSE IF d.md5dir \/ d.cachefmt = "default"
       THEN {Section("cache", "cache:" \o c.name, "pkgcore.cache.flat_hash.md5_cache", {<<"location", S1(p)>>})}
       ELSE {Section("cache", "cache:" \o c.name, "pkgcore.cache.flat_hash.database", {<<"location", S1("/var/cache/edb/dep" \o p)>>})}
DefaultKV(c, main) == IF c.name = main THEN {<<"default", Bv(TRUE)>>} ELSE {}
RepoSecs(c, disk, main) ==
  LET d == disk[c.s.loc]  p == RepoPath(c.s.loc) IN
  IF IsBinpkg(c.s)
  THEN IF d.exists THEN {Section("repo", c.name, "pkgcore.binpkg.repository.tree", {<<"repo_id", S1(c.name)>>, <<"location", S1(p)>>})}
       ELSE {}
  ELSE CacheSecs(c, disk)
       \cup {Section("conf", "conf:" \o c.name, "pkgcore.ebuild.repo_objs.RepoConfig",
                     {<<"config_name", S1(c.name)>>, <<"location", S1(p)>>, <<"syncer", S1("sync:" \o c.name)>>} \cup DefaultKV(c, main))}
       \cup (IF d.exists
             THEN {Section("repo", c.name, Unset,
                           {<<"inherit", S1("ebuild-repo-common")>>, <<"repo_config", S1("conf:" \o c.name)>>}
                           \cup (IF d.cachefmt = "none" THEN {} ELSE {<<"cache", S1("cache:" \o c.name)>>})
                           \cup DefaultKV(c, main))}
             ELSE {})

\* sync URIs the drivers use, and which sync-type each one starts with
StartsWith(uri, stype) == \/ stype = "rsync" /\ uri \in {"rsync://h/m", "rsync://h2/n"}
                          \/ stype = "git" /\ uri \in {"git://x/c", "git+https://x/b.git"}
KnownUris == {"rsync://h/m", "rsync://h2/n", "git://x/c", "git+https://x/b.git", "https://x/a.git",
              "tar+https://github.com/gentoo-mirror/gentoo/archive/stable.tar.gz"}
Truthy(v) == v # Unset /\ v # ""
UsesRsync(c) == Truthy(c.s.suri) /\ c.s.stype = "rsync"
Words(env, v) == IF v \in DOMAIN env THEN env[v] ELSE <<>>
SyncSec(c, usersync, env) ==
  LET s == c.s
      base == {<<"basedir", S1(RepoPath(s.loc))>>, <<"usersync", Bv(usersync)>>}
      uri == IF s.stype # Unset /\ ~StartsWith(s.suri, s.stype) THEN s.stype \o "+" \o s.suri ELSE s.suri
      o0 == IF s.sopts = Unset THEN "" ELSE s.sopts
      ro == Words(env, "PORTAGE_RSYNC_OPTS")
      re == Words(env, "PORTAGE_RSYNC_EXTRA_OPTS")
      nm == "sync:" \o c.name
  IN IF Truthy(s.suri)
     THEN IF s.stype = "rsync"
          THEN Section("sync", nm, "pkgcore.sync.rsync.rsync_timestamp_syncer",
                       base \cup {<<"uri", S1(uri)>>, <<"opts", IF ro # <<>> THEN ro ELSE S1(o0)>>}
                            \cup (IF re # <<>> THEN {<<"extra_opts", re>>} ELSE {}))
          ELSE Section("sync", nm, "pkgcore.sync.base.GenericSyncer", base \cup {<<"uri", S1(uri)>>, <<"opts", S1(o0)>>})
     ELSE IF s.suri = Unset THEN Section("sync", nm, "pkgcore.sync.base.AutodetectSyncer", base)
     ELSE Section("sync", nm, "pkgcore.sync.base.DisabledSync", base)

(* ===================================================================== make.conf *)
(* a statement: [op ("set" | "source" | "broken"), var, words : Seq([ref, v])]; for "source" var
   names a file of the include directory; "broken" is a syntax error (unterminated quote)        *)
Incrementals == {"ACCEPT_KEYWORDS", "ACCEPT_LICENSE", "CONFIG_PROTECT", "CONFIG_PROTECT_MASK", "FEATURES",
                 "IUSE_IMPLICIT", "PROFILE_ONLY_VARIABLES", "USE", "USE_EXPAND", "USE_EXPAND_HIDDEN",
                 "USE_EXPAND_IMPLICIT", "USE_EXPAND_UNPREFIXED", "ENV_UNSET"}
Lookup(new, base, v) == IF v \in DOMAIN new THEN new[v] ELSE IF v \in DOMAIN base THEN base[v] ELSE <<>>
RECURSIVE Expand(_, _, _)
Expand(ws, new, base) ==
  IF ws = <<>> THEN <<>>
  ELSE (IF Head(ws).ref THEN Lookup(new, base, Head(ws).v) ELSE <<Head(ws).v>>) \o Expand(Tail(ws), new, base)
RECURSIVE Eval(_, _, _, _, _)
Eval(stmts, st, base, inc, src) ==
  IF stmts = <<>> \/ st.err # "" THEN st
  ELSE LET x == Head(stmts)
           st1 == CASE x.op = "set" -> [st EXCEPT !.new = Merge([v \in {x.var} |-> Expand(x.words, st.new, base)], @)]
                    [] x.op = "source" -> IF src /\ x.var \in DOMAIN inc THEN Eval(inc[x.var], st, base, inc, src)
                                          ELSE [st EXCEPT !.err = "ParsingError"]     \* not a command / no such file
                    [] OTHER -> [st EXCEPT !.err = "ParsingError"]
       IN Eval(Tail(stmts), st1, base, inc, src)
\* one file of make.conf: substitutions see everything read so far; what the file assigned is laid
\* over it, incremental variables appended to the value they had before the file.  A file that
\* fails leaves the variables as the files before it left them.
LoadFile(m, stmts, inc, src, incr) ==
  IF m.err # "" THEN m
  ELSE LET r == Eval(stmts, [err |-> "", new |-> EmptyFn], m.env, inc, src) IN
       IF r.err # "" THEN [m EXCEPT !.err = r.err]
       ELSE LET nv == [k \in DOMAIN r.new |-> IF incr /\ k \in Incrementals /\ k \in DOMAIN m.env THEN m.env[k] \o r.new[k] ELSE r.new[k]]
            IN [m EXCEPT !.env = Merge(nv, m.env)]
RECURSIVE LoadFiles(_, _, _, _, _)
LoadFiles(m, fs, inc, src, incr) == IF fs = <<>> THEN m ELSE LoadFiles(LoadFile(m, Head(fs).stmts, inc, src, incr), Tail(fs), inc, src, incr)
McFiles(mc) == IF mc.kind = "absent" THEN <<>> ELSE IF mc.kind = "file" THEN <<mc.frags[1]>> ELSE VisibleSorted(mc.frags)
\* PortageConfig.load_make_conf(vars, path, allow_sourcing=src, required=, allow_recurse=recurse, incrementals=incr)
LoadMakeConfV(env0, mc, inc, src, required, recurse, incr) ==
  IF mc.kind = "absent" THEN [err |-> IF required THEN "ParsingError" ELSE "", env |-> env0]
  ELSE IF mc.kind = "dir" /\ ~recurse THEN [err |-> "ParsingError", env |-> env0]       \* a directory is not a file
  ELSE LoadFiles([err |-> "", env |-> env0], McFiles(mc), inc, src, incr)
\* as PortageConfig.__init__ reads the user's make.conf on top of make.globals
LoadMakeConf(globals, mc, inc) == LoadMakeConfV(globals, mc, inc, TRUE, FALSE, TRUE, TRUE)

\* FEATURES as the set optimize_incrementals leaves: the last mention of a flag wins, nothing before -* survives
NegKey(w) == CASE w = "-usersync" -> "usersync" [] w = "-buildpkg" -> "buildpkg" [] w = "-foo" -> "foo"
               [] w = "-sandbox" -> "sandbox" [] w = "-*" -> "*" [] OTHER -> w
Features(ws) == {ws[i] : i \in {i \in DOMAIN ws : ~\E j \in DOMAIN ws : j > i /\ (ws[j] = "-*" \/ NegKey(ws[j]) = NegKey(ws[i]))}}

(* ===================================================================== profile, sets *)
\* what a make.profile link / a profile override can point at (the driver builds these)
PT(t) == CASE t = "inrepo"  -> [ex |-> TRUE,  base |-> "/ptree/profiles", prof |-> "default"]
           [] t = "deep"    -> [ex |-> TRUE,  base |-> "/ptree/profiles", prof |-> "arch/x"]
           [] t = "nested"  -> [ex |-> TRUE,  base |-> "/ptree/profiles/sub/profiles", prof |-> "inner"]
           [] t = "outside" -> [ex |-> TRUE,  base |-> "", prof |-> ""]
           [] OTHER         -> [ex |-> FALSE, base |-> "", prof |-> ""]         \* "broken" / "missing"
ProfileRes(prof, override) ==
  LET t == IF override # Unset THEN override ELSE prof.target IN
  IF override = Unset /\ prof.kind # "link"
  THEN [err |-> "", base |-> CfgDir, prof |-> "make.profile", lpb |-> FALSE]
  ELSE IF ~PT(t).ex \/ PT(t).base = "" THEN [err |-> "UserConfigError", base |-> "", prof |-> "", lpb |-> FALSE]
  ELSE [err |-> "", base |-> PT(t).base, prof |-> PT(t).prof, lpb |-> TRUE]
ProfileSec(pr, uprof) ==
  IF uprof THEN Section("profile", "profile", "pkgcore.ebuild.profiles.UserProfile",
                        {<<"parent_path", S1(pr.base)>>, <<"parent_profile", S1(pr.prof)>>,
                         <<"user_path", S1(CfgDir \o "/profile")>>, <<"load_profile_base", Bv(pr.lpb)>>})
  ELSE Section("profile", "profile", "pkgcore.ebuild.profiles.OnDiskProfile",
               {<<"basepath", S1(pr.base)>>, <<"profile", S1(pr.prof)>>, <<"load_profile_base", Bv(pr.lpb)>>})

RootPrefix(root) == IF root = Unset THEN "" ELSE root
BuiltinSets(root) ==
  { Section("set", "world", "pkgcore.pkgsets.filelist.WorldFile", {<<"location", S1(RootPrefix(root) \o "/var/lib/portage/world")>>}),
    Section("set", "system", "pkgcore.pkgsets.system.SystemSet", {<<"profile", S1("profile")>>}),
    Section("set", "installed", "pkgcore.pkgsets.installed.Installed", {<<"vdb", S1("vdb")>>}),
    Section("set", "versioned-installed", "pkgcore.pkgsets.installed.VersionedInstalled", {<<"vdb", S1("vdb")>>}) }
UserSets(sets) == {Section("set", n, "pkgcore.pkgsets.filelist.FileList", {<<"location", S1(CfgDir \o "/sets/" \o n)>>})
                   : n \in sets \ {"system", "world"}}
\* a section defined later replaces one of the same name defined earlier
Over(older, newer) == newer \cup {s \in older : ~\E n \in newer : n.name = s.name}

(* ===================================================================== the whole translation *)
(* T = [rc, disk, mc, inc, prof, uprof, sets], A = [override, root, buildpkg], G = make.globals  *)
FeatureWords(env) == Words(env, "FEATURES")
Translate(T, A, G) ==
  LET mk == LoadMakeConf(G, T.mc, T.inc)
      pr == ProfileRes(T.prof, A.override)
      P  == ParseRepos(T.rc)
      errs == (IF mk.err # "" THEN {mk.err} ELSE {}) \cup (IF pr.err # "" THEN {pr.err} ELSE {})
              \cup (IF P.err # "" THEN {P.err} ELSE {})
  IN IF errs # {} THEN [ok |-> FALSE, errs |-> errs]
     ELSE
     LET env == mk.env
         feats == Features(FeatureWords(env))
         kept == Kept(P, T.disk)
         order == Order(P, T.disk)
         rsync == \E c \in SeqSet(kept) : UsesRsync(c)
         mirrors == [i \in DOMAIN Words(env, "GENTOO_MIRRORS") |-> Words(env, "GENTOO_MIRRORS")[i] \o "/distfiles"]
         popped == {"GENTOO_MIRRORS"} \cup (IF rsync THEN {"PORTAGE_RSYNC_OPTS", "PORTAGE_RSYNC_EXTRA_OPTS"} ELSE {})
         root == IF A.root = Unset THEN "/" ELSE A.root
         domkv == {<<v, IF v = "FEATURES" /\ A.buildpkg THEN env[v] \o <<"buildpkg">> ELSE env[v]>> : v \in (DOMAIN env) \ popped}
                  \cup {<<"repos", order>>, <<"default", Bv(TRUE)>>, <<"vdb", S1("vdb")>>, <<"profile", S1("profile")>>,
                        <<"root", S1(root)>>, <<"config_dir", S1(CfgDir)>>}
         fixed == { ProfileSec(pr, T.uprof),
                    Section("vdb", "vdb", "pkgcore.vdb.ondisk.tree",
                            {<<"location", S1(RootPrefix(A.root) \o "/var/db/pkg")>>, <<"cache_location", S1("/var/cache/edb/dep/var/db/pkg")>>}),
                    Section("common", "ebuild-repo-common", "pkgcore.ebuild.repository.tree",
                            {<<"default_mirrors", mirrors>>, <<"inherit-only", Bv(TRUE)>>}) }
         repos == UNION {RepoSecs(c, T.disk, P.main) : c \in SeqSet(kept)}
         syncs == {SyncSec(c, "usersync" \in feats, env) : c \in SeqSet(kept)}
         stack == IF order = <<>> THEN {}
                  ELSE { Section("stack", "repo-stack", "pkgcore.repository.multiplex.tree", {<<"repos", order>>}),
                         Section("stack", "vuln", "SecurityUpgradesViaProfile",
                                 {<<"ebuild_repo", S1("repo-stack")>>, <<"vdb", S1("vdb")>>, <<"profile", S1("profile")>>}) }
         dom == {Section("domain", "livefs", "pkgcore.ebuild.domain.domain", domkv)}
     IN [ok |-> TRUE, errs |-> {},
         secs |-> Over(Over(Over(Over(Over(Over(BuiltinSets(A.root), UserSets(T.sets)), fixed), repos), syncs), stack), dom),
         order |-> order, features |-> feats, rmap |-> RepoMap(P, T.disk),
         warn |-> P.warn \cup EapiWarn(P, T.disk), main |-> P.main]

(* ===================================================================== properties of a translation
   (declarative: they do not go through the fold above; PortageConf_MC checks them over every
   tree of its universe, PortageConf_Trace on every observed load)                              *)
\* every name that has a valid definition in some read fragment, and the last such definition
AllSecs(files) == UNION {SeqSet(files[k].secs) : k \in DOMAIN files}
ValidNames(files) == {s.name : s \in {x \in AllSecs(files) : ValidDef(x)}}
LastValidDef(files, n) ==
  LET hits == {k \in DOMAIN files : \E i \in DOMAIN files[k].secs : ValidDef(files[k].secs[i]) /\ files[k].secs[i].name = n}
      k == CHOOSE k \in hits : \A k2 \in hits : k2 <= k
      i == CHOOSE i \in DOMAIN files[k].secs : ValidDef(files[k].secs[i]) /\ files[k].secs[i].name = n
  IN files[k].secs[i]
\* position of the first valid definition: (file index, section index)
FirstValidPos(files, n) ==
  LET hits == {k \in DOMAIN files : \E i \in DOMAIN files[k].secs : ValidDef(files[k].secs[i]) /\ files[k].secs[i].name = n}
      k == CHOOSE k \in hits : \A k2 \in hits : k <= k2
      i == CHOOSE i \in DOMAIN files[k].secs : ValidDef(files[k].secs[i]) /\ files[k].secs[i].name = n
  IN k * 100 + i
\* LaterWins: the registered definition of every repo is the last valid one in NAME order of the files
LaterWins(files, P) == /\ {P.repos[i].name : i \in DOMAIN P.repos} = ValidNames(files)
                       /\ \A i \in DOMAIN P.repos : P.repos[i].s = LastValidDef(files, P.repos[i].name)
\* OrderStable: descending priority; equal priority in order of first definition
OrderStable(files, P) ==
  \A i, j \in DOMAIN P.repos : i < j =>
     \/ P.repos[i].prio > P.repos[j].prio
     \/ P.repos[i].prio = P.repos[j].prio /\ FirstValidPos(files, P.repos[i].name) < FirstValidPos(files, P.repos[j].name)
\* MainLow: the main repo never keeps priority 0, and is the only repo whose priority differs from what it wrote
MainLow(P) == \A i \in DOMAIN P.repos :
                 P.repos[i].prio = (IF P.repos[i].name = P.main /\ PrioOf(P.repos[i].s) = 0 THEN 0 - 1000 ELSE PrioOf(P.repos[i].s))
\* Announced: a definition that is not used, or a repo that is dropped, is announced - except SilentNonexistent
Announced(files, P) ==
  \A k \in DOMAIN files : \A i \in DOMAIN files[k].secs :
     LET s == files[k].secs[i] IN
     s.name # "DEFAULT" /\ ~ValidDef(s) => (<<"missing_location", s.name>> \in P.warn \/ <<"bad_type", s.name>> \in P.warn)
\* AtMostOneDefault over a set of sections; exactly one iff the main repo is a registered ebuild repo
Defaults(secs) == {s \in secs : s.grp = "repo" /\ <<"default", Bv(TRUE)>> \in s.kv}
OneDefault(secs, order, main) ==
  /\ Cardinality(Defaults(secs)) <= 1
  /\ \A s \in Defaults(secs) : s.name = main /\ main \in SeqSet(order)
\* StackClosed: everything the stack and the domain name has a repo section, and nothing else has one
StackClosed(secs, order) ==
  /\ {s.name : s \in {x \in secs : x.grp = "repo"}} = SeqSet(order)
  /\ \A s \in secs : s.name \in {"repo-stack", "livefs"} => <<"repos", order>> \in s.kv
  /\ (order = <<>>) = ~\E s \in secs : s.name = "repo-stack"
  /\ \A s \in secs : s.grp = "conf" => \E y \in secs : y.grp = "sync" /\ <<"syncer", S1(y.name)>> \in s.kv
=========================================================================
