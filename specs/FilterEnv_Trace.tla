---------------------------- MODULE FilterEnv_Trace ----------------------------
(* Judge of real filter runs (C34).  One event per run:
   {ev:"filter", defs:[{kind,name,body}] in dump order (bodies as bash reported them BEFORE),
    vnames, fnames, vwhite, fwhite,
    after:[{kind,name,body}]  what a fresh bash holds after sourcing the filtered text
                               (names of the input only; body as bash reports it AFTER),
    extra:[names]             definitions that appeared although the input never had them,
    outchunks:[k]             the filtered text cut into the input's definition texts (indices),
    residue                   non-blank bytes of the filtered text that belong to no definition,
    clean                     sourcing printed nothing, no error, status 0;
    raised                    main_run raised an exception}                    *)
EXTENDS FilterEnv, TraceLib
VARIABLE l
Cfg(e) == [vnames |-> AsSet(e.vnames), fnames |-> AsSet(e.fnames), vwhite |-> e.vwhite, fwhite |-> e.fwhite]
Judge(e) ==
    IF e.ev # "filter" THEN {"UnknownEvent"}
    ELSE IF ~Specified(Cfg(e)) THEN {"OutsideDomain"}
    ELSE IF e.raised THEN {"FilterRuns"}
    ELSE AfterEnvClauses(e.defs, Cfg(e), AsSet(e.after))
         \cup (IF e.extra # <<>> THEN {"ExtraDefinition"} ELSE {})
         \cup (IF e.residue THEN {"NoStrayBytes"} ELSE {})
         \cup (IF e.outchunks # KeptIndices(e.defs, Cfg(e)) THEN {"OutputIsKeptText"} ELSE {})
         \cup (IF e.clean THEN {} ELSE {"SourcesCleanly"})
TraceInit == l = 0
TraceNext == /\ l < Len(Tr)
             /\ l' = l + 1
             /\ Report(Tr[l'].tid, Tr[l'].i, Judge(Tr[l']))
             /\ EndMark(l')
TraceSpec == TraceInit /\ [][TraceNext]_l
=============================================================================
