---------------------------- MODULE Version_Laws ----------------------------
(* C01: constant-level laws of the PMS order, evaluated by TLC for every version /
   ordered pair of the grammar Vers (no behaviour).                            *)
EXTENDS Version_Gram, TLC

CONSTANT Vers

WellFormed(S) == \A v \in S : IsVer(v)

\* the six operators are the evident readings of the three-valued comparison (so
\* exactly one of < = > holds, <= is "< or =", ...), and "~" is "=" without revisions
OpsAgree(S) == \A a, b \in S :
    LET c == VerCmp(a, b)
        t == VerCmp(VNoRev(a), VNoRev(b))
    IN  /\ c \in {-1, 0, 1}
        /\ OpHolds("<", a, b)  = (c = -1)
        /\ OpHolds("<=", a, b) = (c # 1)
        /\ OpHolds("=", a, b)  = (c = 0)
        /\ OpHolds(">=", a, b) = (c # -1)
        /\ OpHolds(">", a, b)  = (c = 1)
        /\ OpHolds("~", a, b)  = (t = 0)
        /\ (c = 0 => t = 0)

\* the spelling identifies the version (rendering cases for the code is faithful)
TextInjective(S) == Cardinality({VerText(v) : v \in S}) = Cardinality(S)

\* omitted numbers read as 0; leading zeros of integers (first component, suffix
\* numbers, revision) do not matter; trailing zeros of a later component that
\* already has a leading zero do not matter
ZeroIsOmitted(S) == \A a \in S :
    /\ VerCmp(a, [a EXCEPT !.rev = <<0>>]) = (IF VStripLead(a.rev) = <<>> THEN 0 ELSE 1)
    /\ \A x \in DOMAIN a.sufs :
           /\ a.sufs[x].n = <<>> => VerCmp(a, [a EXCEPT !.sufs[x].n = <<0>>]) = 0
           /\ VerCmp(a, [a EXCEPT !.sufs[x].n = <<0>> \o @]) = 0
    /\ VerCmp(a, [a EXCEPT !.nums[1] = <<0>> \o @]) = 0
    /\ VerCmp(a, [a EXCEPT !.rev = <<0>> \o @]) = 0
    /\ \A x \in 2..Len(a.nums) : VLeadZero(a.nums[x]) => VerCmp(a, [a EXCEPT !.nums[x] = @ \o <<0>>]) = 0

\* a leading zero on a later component makes it a "decimal fraction": it sorts
\* below every component without one (1.1 > 1.02, 1.10 > 1.09, 1.1 > 1.010)
FractionBelowInteger(S) == \A a, b \in S :
    (/\ Len(a.nums) >= 2 /\ Len(b.nums) >= 2
     /\ VNatCmp(a.nums[1], b.nums[1]) = 0
     /\ VLeadZero(a.nums[2]) /\ ~VLeadZero(b.nums[2])) => VerCmp(a, b) = -1

\* the suffix ladder _alpha < _beta < _pre < _rc < (none) < _p
SuffixLadder(S) == \A a \in S : a.sufs = <<>> =>
    LET W(kk) == [a EXCEPT !.sufs = <<[k |-> kk, n |-> <<>>]>>]
    IN  /\ VerCmp(W("alpha"), W("beta")) = -1 /\ VerCmp(W("beta"), W("pre")) = -1
        /\ VerCmp(W("pre"), W("rc")) = -1     /\ VerCmp(W("rc"), VNoRev(a)) = -1
        /\ VerCmp(VNoRev(a), W("p")) <= 0     /\ VerCmp(a, W("p")) = -1

\* "compare equal" is "same canonical form": equality classes have a hashable key
CanonLaw(S) == LET Can == TLCEval([v \in S |-> VerCanon(v)])
            IN  \A a, b \in S : (VerCmp(a, b) = 0) = (Can[a] = Can[b])

\* (the laws take the grammar as a parameter: TLC evaluates zero-arity definitions eagerly at
\*  start-up, which evaluated every law twice)
ASSUME WellFormed(Vers)
ASSUME OpsAgree(Vers)
ASSUME TextInjective(Vers)
ASSUME ZeroIsOmitted(Vers)
ASSUME FractionBelowInteger(Vers)
ASSUME SuffixLadder(Vers)
ASSUME CanonLaw(Vers)
=============================================================================
