---------------------------- MODULE AtomMatch_Trace ----------------------------
(* code -> spec for C04.  Tr[1] is a header {atoms:[...], pkgs:[...]} (records as written by
   AtomMatch_Export / the random generator of the driver); every other event is
     {tid, i, a, p, m, mb, mbb, raised}
                                  a, p : indexes into the header,
                                  m / mb / mbb : what the real atom.match answered for the
                                  atom, its "!" form and its "!!" form,
                                  raised : "" or the name of the exception match() raised.
   Clauses: MatchRaised, FalseMatch_<part> (the code matched although <part> rules the package out),
   MissedMatch, WeakBlockerDiffers, StrongBlockerDiffers; "Unspecified" is not a verdict on
   the code: it marks the pairs the specification leaves open (counted by the driver).  *)
EXTENDS AtomMatch, TraceLib
VARIABLE l
H == Tr[1]
A(k) == [H.atoms[k] EXCEPT !.deps = AsSet(@)]
P(k) == [H.pkgs[k] EXCEPT !.iuse = AsSet(@), !.use = AsSet(@)]
Judge(e) ==
    LET a == A(e.a)  p == P(e.p)  exp == Matches(a, p) IN
    IF e.raised # "" THEN {"MatchRaised"}
    ELSE IF exp = "U" THEN {"Unspecified"}
    ELSE (IF e.m = (exp = "T") THEN {} ELSE IF exp = "F" THEN {"FalseMatch_" \o FailingPart(a, p)} ELSE {"MissedMatch"})
         \cup (IF e.mb = e.m THEN {} ELSE {"WeakBlockerDiffers"})
         \cup (IF e.mbb = e.m THEN {} ELSE {"StrongBlockerDiffers"})
TraceInit == l = 1
TraceNext == /\ l < Len(Tr)
             /\ l' = l + 1
             /\ Report(Tr[l'].tid, Tr[l'].i, Judge(Tr[l']))
             /\ EndMark(l')
TraceSpec == TraceInit /\ [][TraceNext]_l
=========================================================================
