---------------------------- MODULE Pclean ----------------------------
(* C46: what `pclean dist` may remove from the distfiles directory (src/pkgcore/scripts/pclean.py).
   Safety only -- the property is a "never deletes" statement.

   A cleaning run is described by the record K:
     files          set of [name, size, mrel]   files present in the distdir before the run
                                                (mrel = modification time relative to a fixed origin)
     selected       set of names                files the cleaning targets select (all files without targets)
     installedDist  set of names                distfiles of installed packages
     existsDist     set of names                distfiles of packages in the repositories
     restrictedDist set of names                distfiles of fetch-restricted packages
     excludedDist   set of names                distfiles of packages matched by an exclusion pattern
     opts           [exclInstalled, exclExists, exclFetch, useM, useS : BOOLEAN, T, S : Int]
                    (--modified T: skip files modified since T;  --size S: skip files bigger than S)
   and the observation `removed` (names gone after the run).                                      *)
EXTENDS QueryGlob       \* (exclusion patterns are query strings: ParseQ / Selects; Integers via GlsaVer)

Names(K) == {f.name : f \in K.files}
FileOf(K, n) == CHOOSE f \in K.files : f.name = n
\* definite filter failures; a file exactly at a threshold is left open (help text: "modified since", "bigger than")
TooNew(K, f) == K.opts.useM /\ f.mrel > K.opts.T
TooBig(K, f) == K.opts.useS /\ f.size > K.opts.S
MustKeep(K) == (IF K.opts.exclInstalled THEN K.installedDist ELSE {})
               \cup (IF K.opts.exclExists THEN K.existsDist ELSE {})
               \cup (IF K.opts.exclFetch THEN K.restrictedDist ELSE {})
               \cup K.excludedDist

\* the clauses of the property, as the set of names of the violated ones
Violations(K, removed) ==
    (IF removed \subseteq Names(K) THEN {} ELSE {"RemovedUnknownFile"}) \cup
    (IF removed \subseteq K.selected THEN {} ELSE {"OnlySelected"}) \cup
    (IF \E n \in removed \cap Names(K) : TooNew(K, FileOf(K, n)) THEN {"PassesAge"} ELSE {}) \cup
    (IF \E n \in removed \cap Names(K) : TooBig(K, FileOf(K, n)) THEN {"PassesSize"} ELSE {}) \cup
    (IF K.opts.exclInstalled /\ removed \cap K.installedDist # {} THEN {"KeepsInstalled"} ELSE {}) \cup
    (IF K.opts.exclExists /\ removed \cap K.existsDist # {} THEN {"KeepsExisting"} ELSE {}) \cup
    (IF K.opts.exclFetch /\ removed \cap K.restrictedDist # {} THEN {"KeepsFetchRestricted"} ELSE {}) \cup
    (IF removed \cap K.excludedDist # {} THEN {"KeepsExcluded"} ELSE {})

\* the same statement file by file: may a cleaner remove n ?
MayRemove(K, n) == /\ n \in Names(K) /\ n \in K.selected /\ n \notin MustKeep(K)
                   /\ ~TooNew(K, FileOf(K, n)) /\ ~TooBig(K, FileOf(K, n))
\* a reference cleaner (strict filters, as the tool documents them)
RefRemoved(K) == {n \in Names(K) \cap K.selected :
                    /\ n \notin MustKeep(K)
                    /\ (K.opts.useM => FileOf(K, n).mrel < K.opts.T)
                    /\ (K.opts.useS => FileOf(K, n).size < K.opts.S)}

(* ---- from a concrete run (packages, exclusion patterns) to K ---- *)
\* repo package: [pk : package record of QueryGlob (cat, pkg, ver, slot, sub, repo), dist : set of names, restricted : BOOLEAN]
ExcludesOK(excludes) == \A k \in DOMAIN excludes : ParseQ(excludes[k]).kind = "query"
IsExcluded(excludes, p) == \E k \in DOMAIN excludes : Selects(ParseQ(excludes[k]), p.pk)
DistOf(pkgs) == UNION {p.dist : p \in pkgs}
=========================================================================
