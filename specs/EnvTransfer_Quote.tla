---------------------------- MODULE EnvTransfer_Quote ----------------------------
(* C31, design of the value quoting.  A text is a sequence of one-character strings.

   Word(w) is a model of how bash reads ONE shell word made of quoted segments
   ( bare alphanumerics, '...', $'...', "..." ) and whether the result is a LITERAL:
   it fails when a quote is unterminated, when an unquoted special character would end or
   split the word, or when a $-expansion / command substitution would run.  The model is
   bound to the real bash by the driver (clause BashModel of EnvTransfer_Trace: every word
   the model calls literal is given to bash and must decode to the model's value).

   Two designs of the encoder are given: the one the processor used ("AsIs": $'..' escapes
   only the quote, array elements are pasted between double quotes) and the repaired one
   ("Fixed").  EnvTransfer_Laws lets TLC prove  Word(Fixed(v)) = v  for every text up to a
   bound, and requires a counterexample for AsIs.                                         *)
EXTENDS Naturals, Sequences

SQ == "'"
DQ == "\""
BS == "\\"
DL == "$"
BT == "`"
SP == " "
LF == "\n"
Alnum == {"q", "n", "0"}
QAlphabet == Alnum \cup {SQ, DQ, BS, DL, BT, SP, LF}

Lit(v) == [ok |-> TRUE, val |-> v]
NotLit == [ok |-> FALSE, val |-> <<>>]

RECURSIVE WordAt(_, _, _), InSq(_, _, _), InAnsi(_, _, _), InDq(_, _, _)
WordAt(w, i, acc) ==
    IF i > Len(w) THEN Lit(acc)
    ELSE LET c == w[i] IN
         IF c \in Alnum THEN WordAt(w, i + 1, Append(acc, c))
         ELSE IF c = SQ THEN InSq(w, i + 1, acc)
         ELSE IF c = DQ THEN InDq(w, i + 1, acc)
         ELSE IF c = DL /\ i < Len(w) /\ w[i + 1] = SQ THEN InAnsi(w, i + 2, acc)
         ELSE NotLit
\* '...' : everything up to the next quote, verbatim
InSq(w, k, acc) ==
    IF k > Len(w) THEN NotLit
    ELSE IF w[k] = SQ THEN WordAt(w, k + 1, acc)
    ELSE InSq(w, k + 1, Append(acc, w[k]))
\* $'...' : backslash escapes; an unknown escape keeps its backslash
InAnsi(w, k, acc) ==
    IF k > Len(w) THEN NotLit
    ELSE IF w[k] = SQ THEN WordAt(w, k + 1, acc)
    ELSE IF w[k] = BS
         THEN IF k = Len(w) THEN NotLit
              ELSE LET e == w[k + 1] IN
                   IF e = "0" THEN NotLit       \* \0.. is an octal escape: not modelled
                   ELSE InAnsi(w, k + 2, IF e \in {SQ, DQ, BS} THEN Append(acc, e)
                                         ELSE IF e = "n" THEN Append(acc, LF)
                                         ELSE acc \o <<BS, e>>)
    ELSE InAnsi(w, k + 1, Append(acc, w[k]))
\* "..." : \ protects only $ ` " \ (and swallows a newline); $name, $$ and `...` expand
InDq(w, k, acc) ==
    IF k > Len(w) THEN NotLit
    ELSE IF w[k] = DQ THEN WordAt(w, k + 1, acc)
    ELSE IF w[k] = BT THEN NotLit
    ELSE IF w[k] = BS
         THEN IF k = Len(w) THEN NotLit
              ELSE LET e == w[k + 1] IN
                   InDq(w, k + 2, IF e \in {DL, BT, DQ, BS} THEN Append(acc, e)
                                  ELSE IF e = LF THEN acc
                                  ELSE acc \o <<BS, e>>)
    ELSE IF w[k] = DL /\ k < Len(w) /\ w[k + 1] \in (Alnum \cup {DL}) THEN NotLit
    ELSE InDq(w, k + 1, Append(acc, w[k]))
Word(w) == WordAt(w, 1, <<>>)

\* ---- encoders ----
RECURSIVE Flat(_, _)
Flat(v, f) == IF v = <<>> THEN <<>> ELSE f[Head(v)] \o Flat(Tail(v), f)
Has(v, c) == \E k \in DOMAIN v : v[k] = c
AllAlnum(v) == v # <<>> /\ \A k \in DOMAIN v : v[k] \in Alnum

EscQuoteOnly == [c \in QAlphabet |-> IF c = SQ THEN <<BS, SQ>> ELSE <<c>>]
EscAnsi      == [c \in QAlphabet |-> IF c \in {SQ, BS} THEN <<BS, c>> ELSE <<c>>]
EscDq        == [c \in QAlphabet |-> IF c \in {BS, DQ, DL, BT} THEN <<BS, c>> ELSE <<c>>]
Same         == [c \in QAlphabet |-> <<c>>]

StrWord(v, esc) ==
    IF AllAlnum(v) THEN v
    ELSE IF ~Has(v, SQ) THEN <<SQ>> \o v \o <<SQ>>
    ELSE <<DL, SQ>> \o Flat(v, esc) \o <<SQ>>
ElemWord(v, esc) == <<DQ>> \o Flat(v, esc) \o <<DQ>>

StrAsIs(v)   == StrWord(v, EscQuoteOnly)
StrFixed(v)  == StrWord(v, EscAnsi)
ElemAsIs(v)  == ElemWord(v, Same)
ElemFixed(v) == ElemWord(v, EscDq)
=============================================================================
