---------------------------- MODULE Resolver_MC ----------------------------
(* A reference resolver (the DESIGN the properties C15/C16 ask of plan.py), model checked over
   every world of Resolver_Worlds!Family (main, blocker and versions parts) under both strategies.

   It keeps the plan (ops, in the vocabulary of the real planner: add / replace), the open
   requirements (pend) and, for every requirement it closed, a note of which package it was
   closed with (sel) - and never looks back at a closed requirement.  One step closes an open
   requirement that the planned packages already satisfy, or takes one candidate for one
   open atom: candidates are tried in the order of the strategy, a candidate is skipped only
   when it cannot be added (slot taken by a package that may not be replaced, blocker hit).
   An installed slot-mate may be replaced only when everything it was noted for is satisfied
   by the newcomer (GuardReplace; with the guard off TLC finds the unsound plan that the
   unpatched plan.py produces, see the C15 fixes).  No backtracking: being stuck is "failed".

   Checked:  Sound        done => the plan is valid (the very operator that judges plan.py)
             OracleAgrees done => the brute-force oracle calls the inputs resolvable
             NotesHold    a closed requirement stays satisfied
             RobustNeverFails / RobustPolicy: inside the domain Robust (C16)
             no order of work fails and the policy clauses hold.                            *)
EXTENDS Resolver_Worlds, SequencesExt

CONSTANT GuardReplace

\* the family, converted once (TLC caches zero-arity constant definitions): states only carry an index
FamilySeq == SetToSeq(Family)
Worlds    == [i \in DOMAIN FamilySeq |-> WorldOfSeq(FamilySeq[i].pkgs)]
Targets   == [i \in DOMAIN FamilySeq |-> TargetsOfSeq(FamilySeq[i].targets)]

VARIABLES ci,      \* which member of the family
          kind,    \* "upgrade" | "min"
          ops,     \* the plan so far
          finI,    \* ids of Final(w, ops), maintained incrementally
          planI,   \* ids of the packages the plan names (added or replacing) that are still in fin
          pend, sel, status
vars == <<ci, kind, ops, finI, planI, pend, sel, status>>

w  == Worlds[ci]
ts == Targets[ci]
fin    == {p \in w : p.id \in finI}
inplan == {p \in w : p.id \in planI}

TargetReq(k)      == [r |-> "target", k |-> k, p |-> "-", c |-> "-", item |-> {{ts[k]}}]
ItemReq(p, c, it) == [r |-> "item", k |-> 0, p |-> p.id, c |-> c, item |-> it]
ReqsOf(p) == UNION {{ItemReq(p, c, it) : it \in {i \in p.deps[c] : ~IsBlockItem(i)}} : c \in Classes}

\* (the session part has the longest interleavings: at the tiny level it is left to the larger levels)
Init == /\ ci \in {i \in DOMAIN FamilySeq : Level # "tiny" \/ FamilySeq[i].fam # "session"}
        /\ kind \in {"upgrade", "min"}
        /\ ops = <<>>
        /\ finI = Ids(Vdb(w))
        /\ planI = {}
        /\ pend = {TargetReq(k) : k \in DOMAIN ts}
        /\ sel = {}
        /\ status = "run"

\* q is tried before p
Before(q, p) ==
  IF kind = "upgrade" THEN VLess(p.ver, q.ver) \/ (q.ver = p.ver /\ q.repo = "vdb" /\ p.repo # "vdb")
  ELSE (q.repo = "vdb" /\ p.repo # "vdb") \/ ((q.repo = "vdb") = (p.repo = "vdb") /\ VLess(p.ver, q.ver))

Mates(p) == {q \in fin : q # p /\ SameSlot(q, p)}
MayReplace(q, p) == /\ q.repo = "vdb" /\ p.repo # "vdb"
                    /\ (GuardReplace => \A n \in sel : n[2] = q.id => Matches(n[1], p))
MergedNow == {p \in fin : p.repo # "vdb"}
Blocked(p) == \/ \E m \in MergedNow : \E b \in BlockAtoms(m) : m # p /\ Matches(b, p)
              \/ p.repo # "vdb" /\ \E b \in BlockAtoms(p) : \E f \in fin : f # p /\ Matches(b, f)
                                                             /\ (SameSlot(f, p) => ~MayReplace(f, p))
CanAdd(p) == /\ p \notin inplan
             /\ (p.repo = "vdb" => p \in fin)          \* a replaced installed package is gone
             /\ ~Blocked(p)
             /\ \A q \in Mates(p) : MayReplace(q, p)
OpFor(p) == IF Mates(p) = {} THEN [t |-> "add", p |-> p.id, old |-> "-"]
            ELSE [t |-> "replace", p |-> p.id, old |-> (CHOOSE q \in Mates(p) : TRUE).id]

\* close a requirement the planned packages satisfy, noting what it holds by
Close(req) ==
  /\ \E alt \in req.item :
        /\ \A a \in alt : SatAtom(a, inplan)
        /\ sel' = sel \cup {<<z[1], z[2].id>> : z \in {y \in alt \X inplan : Matches(y[1], y[2])}}
  /\ pend' = pend \ {req}
  /\ UNCHANGED <<ci, kind, ops, finI, planI, status>>

\* take the first addable candidate for one open atom of one alternative
Take(req) ==
  /\ ~SatItem(req.item, inplan)
  /\ \E alt \in req.item : \E a \in {x \in alt : ~SatAtom(x, inplan)} : \E p \in Cands(w, a) :
        /\ CanAdd(p)
        /\ \A q \in Cands(w, a) : Before(q, p) => ~CanAdd(q)
        /\ ops' = Append(ops, OpFor(p))
        /\ finI' = (finI \ Ids(Mates(p))) \cup {p.id}
        /\ planI' = (planI \ Ids(Mates(p))) \cup {p.id}
        /\ sel' = sel \cup {<<a, p.id>>}
        /\ pend' = pend \cup (IF p.repo # "vdb" THEN ReqsOf(p) ELSE {})
  /\ UNCHANGED <<ci, kind, status>>

Stuck(req) == /\ ~SatItem(req.item, inplan)
              /\ \A alt \in req.item : \A a \in {x \in alt : ~SatAtom(x, inplan)} : \A p \in Cands(w, a) : ~CanAdd(p)

Next ==
  /\ status = "run"
  /\ \/ \E req \in pend : Close(req) \/ Take(req)
     \/ /\ pend = {} /\ status' = "done" /\ UNCHANGED <<ci, kind, ops, finI, planI, pend, sel>>
     \/ /\ \E req \in pend : Stuck(req)
        /\ status' = "failed" /\ UNCHANGED <<ci, kind, ops, finI, planI, pend, sel>>
Spec == Init /\ [][Next]_vars

TypeOK == /\ status \in {"run", "done", "failed"}
          /\ fin = Final(w, ops) /\ inplan \subseteq fin
          /\ (ops = <<>> => WellFormed(w))
Sound == status = "done" => PlanViolations(w, SeqSet(ts), ops) = {}
OracleAgrees == status = "done" => Resolvable(w, SeqSet(ts))
NotesHold == \A n \in sel : SatAtom(n[1], inplan)
RobustNeverFails == status = "failed" => ~Robust(w, SeqSet(ts))
RobustPolicy == status = "done" => PolicyViolations(kind, w, ts, TRUE, ops) = {}
=========================================================================
