---------------------------- MODULE GlsaVer_MC ----------------------------
(* The version order used by C44/C45/C46 over a bounded grammar: every pair (a, b) is a state,
   a third version is chosen by the step; VerCmp must be a total preorder whose equality is
   syntactic on this (single-spelling) domain, and parsing must invert rendering.           *)
EXTENDS GlsaVer, TLC
CONSTANT Level      \* 1: 36 versions (quick), 2: 108 versions (thorough)
S(k, n) == [k |-> k, n |-> n]
NumsPool == IF Level = 1 THEN {<<<<"1">>>>, <<<<"1", "0">>>>, <<<<"1">>, <<"2">>>>}
            ELSE {<<<<"1">>>>, <<<<"1">>, <<"2">>>>, <<<<"1">>, <<"1", "0">>>>}
SufPool == IF Level = 1 THEN {<<>>, <<S("alpha", <<>>)>>, <<S("p", <<"1">>)>>}
           ELSE {<<>>, <<S("alpha", <<>>)>>, <<S("rc", <<"1">>)>>, <<S("p", <<>>)>>,
                 <<S("p", <<"1">>), S("alpha", <<>>)>>, <<S("alpha", <<>>), S("p", <<"2">>)>>}
RevPool == IF Level = 1 THEN {<<>>, <<"1">>} ELSE {<<>>, <<"2">>, <<"1", "0">>}
Vers == {MkVer(ns, lt, ss, rv) : ns \in NumsPool, lt \in {"", "a"}, ss \in SufPool, rv \in RevPool}
VARIABLES va, vb, vc
vars == <<va, vb, vc>>
Init == va \in Vers /\ vb \in Vers /\ vc = va
Next == vc = va /\ vc' \in Vers /\ UNCHANGED <<va, vb>>
Spec == Init /\ [][Next]_vars
AllPlain == vc # va \/ PlainVer(va)
Reflexive == vc # va \/ VerCmp(va, va) = 0
Antisymmetric == vc # va \/ VerCmp(va, vb) = -VerCmp(vb, va)
Transitive == (VerCmp(va, vb) <= 0 /\ VerCmp(vb, vc) <= 0) => VerCmp(va, vc) <= 0
EqualIsSame == vc # va \/ (VerCmp(va, vb) = 0) = (va = vb \/ (RevCmp(va, vb) = 0 /\ [va EXCEPT !.rev = <<>>] = [vb EXCEPT !.rev = <<>>]))
ParseInvertsRender == vc # va \/ ParseVer(RenderVer(va)) = va
OpsAgree == vc # va \/
            /\ OpHolds("<=", va, vb) = (OpHolds("<", va, vb) \/ OpHolds("=", va, vb))
            /\ OpHolds(">", va, vb) = ~OpHolds("<=", va, vb) /\ OpHolds(">=", va, vb) = ~OpHolds("<", va, vb)
            /\ (OpHolds("=", va, vb) => OpHolds("~", va, vb))
            /\ OpHolds("~", va, vb) = OpHolds("=", [va EXCEPT !.rev = <<>>], [vb EXCEPT !.rev = <<>>])
=========================================================================
