---------------------------- MODULE Resolver_PlanTrace ----------------------------
(* The planner-state half of C15: every resolver run's history of plan_state operations is
   validated against C17's model (PlanState.tla), one step at a time.

   Differences to PlanState_Trace (which serves the synthetic histories of C17):
     * every run brings its own universe (the choice points / blockers of that run): an event
       {ev:"universe", tid, pkgs, choices, blockers, restrs, key:[[p,k]..], slot:[[p,s]..],
        bkey:[[b,k]..], blocks:[[b,p]..]} precedes the run's events; PlanState is instantiated
       per universe (parametrised INSTANCE);
     * observed states are sparse (only non-default entries) and the plan is sent as
       (keep, tail): the first `keep` entries are those of the previously observed plan;
     * the resolver, not a generator, chooses the calls: a call outside the domain C17's
       property is stated for is reported as "OutsideDomain" (counted, not a verdict) and the
       walk re-synchronises on the observed state.
   Clause names are those of PlanState_Trace.                                              *)
EXTENDS TraceLib, Integers

VARIABLES l, st, uni

PS(u) == INSTANCE PlanState WITH Pkgs <- u.pkgs, ChoicePts <- u.choices, Blockers <- u.blockers,
                                 Restrs <- u.restrs, KeyOf <- u.key, SlotOf <- u.slot,
                                 BKeyOf <- u.bkey, Blocks <- u.blocks

Lk(pairs, x, dflt) == LET hits == {k \in DOMAIN pairs : pairs[k][1] = x}
                      IN IF hits = {} THEN dflt ELSE pairs[CHOOSE k \in hits : TRUE][2]
UniOf(h) == [pkgs |-> AsSet(h.pkgs), choices |-> AsSet(h.choices), blockers |-> AsSet(h.blockers),
             restrs |-> AsSet(h.restrs),
             key  |-> [p \in AsSet(h.pkgs) |-> Lk(h.key, p, "?")],
             slot |-> [p \in AsSet(h.pkgs) |-> Lk(h.slot, p, "?")],
             bkey |-> [b \in AsSet(h.blockers) |-> Lk(h.bkey, b, "?")],
             blocks |-> {<<h.blocks[k][1], h.blocks[k][2]>> : k \in DOMAIN h.blocks}]
NoUni == [pkgs |-> {}, choices |-> {}, blockers |-> {}, restrs |-> {}, key |-> <<>>, slot |-> <<>>,
          bkey |-> <<>>, blocks |-> {}]

\* observed JSON state -> spec state record (prev = previously observed state: plan prefix)
RevOf(u, o) == [cb \in u.choices \X u.blockers |->
                  LET hits == {k \in DOMAIN o.rev : o.rev[k][1] = cb[1] /\ o.rev[k][2] = cb[2]} IN
                  IF hits = {} THEN 0 ELSE o.rev[CHOOSE k \in hits : TRUE][3]]
Obs(u, prev, o) ==
   [plan |-> SubSeq(prev.plan, 1, o.keep) \o o.tail,
    slots |-> AsSet(o.slots), limiters |-> AsSet(o.limiters),
    choice |-> [p \in u.pkgs |-> Lk(o.choice, p, "-")],
    rev |-> RevOf(u, o),
    refcnt |-> [b \in u.blockers |-> Lk(o.refcnt, b, 0)],
    vdb |-> [p \in u.pkgs |-> Lk(o.vdb, p, 0)],
    forced |-> [r \in u.restrs |-> Lk(o.forced, r, 0)]]
\* names the observation uses must belong to the universe (else the projection is broken)
Named(u, cur, o) == /\ AsSet(o.slots) \subseteq u.pkgs /\ AsSet(o.limiters) \subseteq u.blockers
               /\ \A k \in DOMAIN o.choice : o.choice[k][1] \in u.pkgs
               /\ \A j \in DOMAIN o.rev : o.rev[j][1] \in u.choices /\ o.rev[j][2] \in u.blockers
               /\ o.keep <= Len(cur.plan)

Diff(u, tag, a, b) ==
    (IF PS(u)!PlanEq(a.plan, b.plan) THEN {} ELSE {tag \o "_plan"}) \cup
    (IF a.slots = b.slots THEN {} ELSE {tag \o "_slots"}) \cup
    (IF a.limiters = b.limiters THEN {} ELSE {tag \o "_limiters"}) \cup
    (IF a.choice = b.choice THEN {} ELSE {tag \o "_choice"}) \cup
    (IF a.rev = b.rev THEN {} ELSE {tag \o "_rev"}) \cup
    (IF a.refcnt = b.refcnt THEN {} ELSE {tag \o "_refcnt"}) \cup
    (IF PS(u)!Excluded(a) = PS(u)!Excluded(b) THEN {} ELSE {tag \o "_vdb"}) \cup
    (IF a.forced = b.forced THEN {} ELSE {tag \o "_forced"})

\* the calls C17's model is stated for (DESIGN C17 carve-outs); an un-forced add is always defined
Pre(u, cur, e) ==
  CASE e.ev = "add"       -> e.p \in u.pkgs /\ e.c \in u.choices /\ (e.force => PS(u)!CanAdd(cur, e.c, e.p))
    [] e.ev = "remove"    -> e.p \in u.pkgs /\ PS(u)!CanRemove(cur, e.c, e.p)
    [] e.ev = "replace"   -> e.p \in u.pkgs /\ PS(u)!CanReplace(cur, e.c, e.p)
    [] e.ev = "dropblocker" -> e.b \in u.blockers /\ PS(u)!CanDropBlocker(cur, e.c, e.b)
    [] e.ev = "addblocker" -> e.b \in u.blockers /\ e.c \in u.choices /\ PS(u)!CanAddBlocker(cur, e.c, e.b)
    [] e.ev = "backtrack" -> e.pos <= Len(cur.plan)
    [] e.ev = "hardref"   -> e.r \in u.restrs
    [] e.ev = "backref"   -> e.p \in u.pkgs /\ e.c \in u.choices
    [] OTHER -> FALSE
Expected(u, cur, e) ==
  CASE e.ev = "add"       -> PS(u)!DoAdd(cur, e.c, e.p, e.force)
    [] e.ev = "remove"    -> PS(u)!DoRemove(cur, e.c, e.p)
    [] e.ev = "replace"   -> PS(u)!DoReplace(cur, e.c, e.p)
    [] e.ev = "addblocker" -> PS(u)!DoAddBlocker(cur, e.c, e.b)
    [] e.ev = "dropblocker" -> PS(u)!DoDropBlocker(cur, e.c, e.b)
    [] e.ev = "hardref"   -> PS(u)!DoHardref(cur, e.r)
    [] e.ev = "backref"   -> PS(u)!DoBackref(cur, e.c, e.p)
    [] e.ev = "backtrack" -> PS(u)!DoBacktrack(cur, e.pos)

Judge(u, cur, e, named, obs) ==
  IF ~named THEN {"Projection"}
  ELSE IF e.st.dupes THEN {"SlottedTwice"}     \* one package object in two pigeonholes: no state of the model
  ELSE
  IF ~Pre(u, cur, e) THEN {"OutsideDomain"}
  ELSE LET exp == Expected(u, cur, e)
           tag == IF e.ev = "backtrack" THEN "Rollback" ELSE IF e.ev = "replace" /\ exp.ret # {} THEN "RefusedReplace" ELSE "Post"
       IN (IF e.raised THEN {tag \o "_raised"} ELSE {})
          \cup Diff(u, tag, obs, exp.s)
          \cup (IF ~e.raised /\ AsSet(e.ret) # exp.ret THEN {"ReturnValue"} ELSE {})
          \cup (IF PS(u)!StateIsReplay(obs) THEN {} ELSE {"StateIsReplay"})
          \cup (IF PS(u)!RefcntIsLive(obs) THEN {} ELSE {"RefcntIsLive"})
          \cup (IF PS(u)!LimitersAreReferenced(obs) THEN {} ELSE {"LimitersAreReferenced"})
          \cup (IF PS(u)!RefcntIsRevSum(obs) THEN {} ELSE {"RefcntIsRevSum"})
          \cup (IF PS(u)!ChoicesAreSlotted(obs) THEN {} ELSE {"ChoicesAreSlotted"})

TraceInit == l = 0 /\ uni = NoUni /\ st = [plan |-> <<>>]
TraceNext == /\ l < Len(Tr)
             /\ l' = l + 1
             /\ LET e == Tr[l'] IN
                IF e.ev = "universe"
                THEN /\ uni' = UniOf(e)
                     /\ st' = PS(UniOf(e))!Empty
                ELSE /\ uni' = uni
                     /\ LET cur   == IF e.i = 1 THEN PS(uni)!Empty ELSE st
                            named == Named(uni, cur, e.st)
                            obs   == IF named THEN Obs(uni, cur, e.st) ELSE cur
                        IN /\ Report(e.tid, e.i, Judge(uni, cur, e, named, obs))
                           /\ st' = obs
             /\ EndMark(l')
TraceSpec == TraceInit /\ [][TraceNext]_<<l, st, uni>>
=========================================================================
