---------------------------- MODULE EnvTransfer_Laws ----------------------------
(* Constant-level laws of C31, evaluated by TLC (no behaviour).
   Quoting:  the repaired encoders round-trip through the bash word model for EVERY text of
             at most MaxLen characters over QAlphabet; the old ones do not (witness required).
   Framing:  for every byte string of at most MaxBytes bytes over {A, 2-byte char, 3-byte char
             pieces} that is well-formed UTF-8: a reader asked for ReaderUnits units takes the
             whole payload and nothing else, in both units; a count in characters against a
             byte reader leaves bytes in the channel exactly when a multi-byte character exists. *)
EXTENDS EnvTransfer, EnvTransfer_Quote, TLC
CONSTANTS MaxLen, MaxBytes

QTexts == UNION {[1..k -> QAlphabet] : k \in 0..MaxLen}

ASSUME FixedStrRoundTrips  == \A v \in QTexts : Word(StrFixed(v)) = Lit(v)
ASSUME FixedElemRoundTrips == \A v \in QTexts : Word(ElemFixed(v)) = Lit(v)
ASSUME AsIsStrBroken  == \E v \in QTexts : Word(StrAsIs(v)) # Lit(v)
ASSUME AsIsElemBroken == \E v \in QTexts : Word(ElemAsIs(v)) # Lit(v)
\* the old string encoder can only be wrong when a quote and a backslash meet
ASSUME AsIsStrOnlyThen == \A v \in QTexts : (Word(StrAsIs(v)) # Lit(v)) => (Has(v, SQ) /\ Has(v, BS))
\* the old element encoder is wrong as soon as one of the four specials occurs, except a lone
\* "$" / "\" that happens to stay literal
ASSUME AsIsElemOnlySpecials == \A v \in QTexts : (Word(ElemAsIs(v)) # Lit(v)) => \E c \in {BS, DQ, DL, BT} : Has(v, c)

\* ---- framing ----
Chars1 == {<<65>>, <<195, 169>>, <<230, 188, 162>>}          \* 1, 2, 3 byte characters
RECURSIVE Join(_)
Join(cs) == IF cs = <<>> THEN <<>> ELSE Head(cs) \o Join(Tail(cs))
WellFormed == {Join(cs) : cs \in UNION {[1..k -> Chars1] : k \in 0..MaxBytes}}
ASSUME ExactTake == \A p \in WellFormed : \A u \in Units :
          /\ TakeEnd(p, ReaderUnits(p, u), u) = Len(p)
          /\ Leftover(ReaderUnits(p, u), p, u) = <<>>
          /\ ~Starved(ReaderUnits(p, u), p, u)
ASSUME CharsLeBytes == \A p \in WellFormed : NChars(p) <= NBytes(p)
ASSUME CharCountVsByteReader == \A p \in WellFormed :
          (Leftover(NChars(p), p, "byte") # <<>>) <=> (NChars(p) < NBytes(p))
ASSUME ByteCountVsCharReader == \A p \in WellFormed :
          Starved(NBytes(p), p, "char") <=> (NChars(p) < NBytes(p))
ASSUME OnlyExactCountIsClean == \A p \in WellFormed : \A u \in Units : \A n \in 0..(Len(p) + 1) :
          (Leftover(n, p, u) = <<>> /\ ~Starved(n, p, u)) <=> FramingOK(n, p, u) \/ (p = <<>> /\ n = 0)
=============================================================================
