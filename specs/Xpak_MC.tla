---------------------------- MODULE Xpak_MC ----------------------------
(* Design model of Xpak.write_xpak as the procedure it is: locate the old segment from the end
   of the file, seek there (or to EOF when there is none), write header, index+data, trailer
   over whatever is there, then truncate.  Histories of grow / shrink rewrites over a small
   universe of prefixes (including prefixes that merely LOOK like they end in a trailer or start
   with a header) and mappings of different sizes.

   Invariants: the bytes in front of the first segment never change -- at ANY point of the
   procedure --; whenever the procedure is idle the file is exactly prefix \o Segment(last
   mapping) (so nothing of an older, longer segment survives) and reading it back yields the
   mapping.  Variant "notrunc" (no final truncate) is the vacuity guard: TLC must find the
   shrinking rewrite that leaves the tail of the old segment behind.                           *)
EXTENDS Xpak_Universe, TLC
CONSTANTS Variant, MaxRewrites

VARIABLES file, pc, pos, cur, last, orig, n
vars == <<file, pc, pos, cur, last, orig, n>>

Init == /\ \E p \in 1..Len(MCPrefixes), i \in 0..Len(MCMaps) :
              /\ orig = MCPrefixes[p]
              /\ file = IF i = 0 THEN MCPrefixes[p] ELSE MCPrefixes[p] \o Segment(MCMaps[i])
              /\ last = i
        /\ pc = "idle" /\ pos = 0 /\ cur = 0 /\ n = 0

Begin(m) == /\ pc = "idle" /\ n < MaxRewrites
            /\ cur' = m /\ pos' = Locate(file) /\ pc' = "hdr" /\ n' = n + 1
            /\ UNCHANGED <<file, last, orig>>
Put(bytes, nextpc) == /\ file' = Overwrite(file, pos, bytes) /\ pos' = pos + Len(bytes) /\ pc' = nextpc
Hdr  == /\ pc = "hdr"  /\ Put(MagicPack \o BE32(Len(Index(MCMaps[cur]))) \o BE32(Len(Data(MCMaps[cur]))), "body")
        /\ UNCHANGED <<cur, last, orig, n>>
Body == /\ pc = "body" /\ Put(Index(MCMaps[cur]) \o Data(MCMaps[cur]), "trl")
        /\ UNCHANGED <<cur, last, orig, n>>
Trl  == /\ pc = "trl"
        /\ Put(MagicStop \o BE32(Len(Index(MCMaps[cur])) + Len(Data(MCMaps[cur])) + 24) \o Stop,
               IF Variant = "truncate" THEN "trunc" ELSE "idle")
        /\ last' = IF Variant = "truncate" THEN last ELSE cur
        /\ UNCHANGED <<cur, orig, n>>
Trunc == /\ pc = "trunc" /\ file' = TruncateAt(file, pos) /\ pc' = "idle" /\ last' = cur
         /\ UNCHANGED <<pos, cur, orig, n>>
Next == (\E m \in 1..Len(MCMaps) : Begin(m)) \/ Hdr \/ Body \/ Trl \/ Trunc
Spec == Init /\ [][Next]_vars

\* at every step of the procedure
PrefixNeverTouched == Len(file) >= Len(orig) /\ SubSeq(file, 1, Len(orig)) = orig
\* whenever no rewrite is in progress
Idle == pc = "idle"
PrefixLocated   == Idle => Locate(file) = Len(orig)
ReplacedEntirely == (Idle /\ last # 0) => file = orig \o Segment(MCMaps[last])
ReadsBack == (Idle /\ last # 0) => /\ HasSegment(file) /\ SegExact(SegOf(file))
                                   /\ RawItems(SegOf(file)) = RawOf(MCMaps[last])
\* the one-line specification and the procedure agree
RewriteIsSpec == [][(pc' = "idle" /\ pc # "idle") => file' = orig \o Segment(MCMaps[cur])]_vars
=========================================================================
