---------------------------- MODULE WorldFile_Export ----------------------------
(* spec -> code: every initial file over InitialEntries x every history of 1..MaxLen
   update_worldset() calls over SlotChars; replayed on the real WorldFile by drivers/c30_worldfile.py *)
EXTENDS WorldFile_Cases, Naturals, TLC, Json, IOUtils, SequencesExt
CONSTANTS SlotChars, InitialEntries, MaxLen
Ops == {[key |-> Key, slot |-> Req(cs, rm).slot, remove |-> rm] : cs \in SlotChars, rm \in BOOLEAN}
Hists == UNION {[1..n -> Ops] : n \in 1..MaxLen}
Cases == {[init |-> SetToSeq(I), ops |-> h] : I \in SUBSET InitialEntries, h \in Hists}
ASSUME ndJsonSerialize(IOEnv.OUT, SetToSeq(Cases))
=========================================================================
