---------------------------- MODULE ContentsFile_Trace ----------------------------
(* events: {tid,i, written:[entry..], loaded:[entry..]}  -- what was flushed / what a fresh
   ContentsFile(path) holds afterwards                                                      *)
EXTENDS ContentsFile, TraceLib
VARIABLE l
E(x) == [kind |-> x.kind, path |-> x.path, md5 |-> x.md5, mtime |-> x.mtime, target |-> x.target]
Judge(e) == LET w == {E(e.written[k]) : k \in DOMAIN e.written}
                ld == {E(e.loaded[k]) : k \in DOMAIN e.loaded}
            IN (IF RoundTrip(w, ld) THEN {} ELSE {"RoundTrip"})
               \cup (IF Len(e.loaded) = Cardinality(ld) /\ PathKeyed(ld) THEN {} ELSE {"PathKeyed"})
TraceInit == l = 0
TraceNext == /\ l < Len(Tr) /\ l' = l + 1
             /\ Report(Tr[l'].tid, Tr[l'].i, Judge(Tr[l']))
             /\ EndMark(l')
TraceSpec == TraceInit /\ [][TraceNext]_l
=========================================================================
