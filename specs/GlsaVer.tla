---------------------------- MODULE GlsaVer ----------------------------
(* PMS version syntax and comparison (PMS 3.2 "Version specifications", 3.3 "Version
   comparison", Algorithms 3.1-3.7), self-contained for C44 / C45 / C46.
   Text is a sequence of one-character strings (TLC cannot look inside strings).
   A version is the record
     [nums : Seq(DigitStr), letter : "" or a letter, sufs : Seq([k : SufKinds, n : DigitStr or <<>>]),
      rev : DigitStr or <<>>]
   Pure operators only (no VARIABLES).                                                   *)
EXTENDS Naturals, Integers, Sequences, FiniteSets

Digits  == {"0", "1", "2", "3", "4", "5", "6", "7", "8", "9"}
Letters == {"a", "b", "c", "d", "e", "f", "g", "h", "i", "j", "k", "l", "m",
            "n", "o", "p", "q", "r", "s", "t", "u", "v", "w", "x", "y", "z"}
DigitVal(c) == CASE c = "0" -> 0 [] c = "1" -> 1 [] c = "2" -> 2 [] c = "3" -> 3 [] c = "4" -> 4
                 [] c = "5" -> 5 [] c = "6" -> 6 [] c = "7" -> 7 [] c = "8" -> 8 [] c = "9" -> 9
LetterVal(c) == CHOOSE n \in 1..26 :
    <<"a", "b", "c", "d", "e", "f", "g", "h", "i", "j", "k", "l", "m",
      "n", "o", "p", "q", "r", "s", "t", "u", "v", "w", "x", "y", "z">>[n] = c

Chars(t) == {t[k] : k \in DOMAIN t}
IsDigitStr(s) == s # <<>> /\ Chars(s) \subseteq Digits
Sign(n) == IF n < 0 THEN -1 ELSE IF n > 0 THEN 1 ELSE 0

(* ---------------- text helpers ---------------- *)
\* index of the first / last occurrence of character c in t, 0 when absent
FirstIdx(t, c) == IF c \in Chars(t) THEN CHOOSE k \in DOMAIN t : t[k] = c /\ \A j \in 1..(k - 1) : t[j] # c ELSE 0
LastIdx(t, c)  == IF c \in Chars(t) THEN CHOOSE k \in DOMAIN t : t[k] = c /\ \A j \in (k + 1)..Len(t) : t[j] # c ELSE 0
Before(t, k) == SubSeq(t, 1, k - 1)
After(t, k)  == SubSeq(t, k + 1, Len(t))
StartsWith(t, p) == Len(p) <= Len(t) /\ SubSeq(t, 1, Len(p)) = p
\* split t on every occurrence of c (like str.split): always at least one piece
RECURSIVE SplitOn(_, _)
SplitOn(t, c) == LET k == FirstIdx(t, c) IN
                 IF k = 0 THEN <<t>> ELSE <<Before(t, k)>> \o SplitOn(After(t, k), c)
RECURSIVE JoinWith(_, _)
JoinWith(parts, c) == IF Len(parts) = 0 THEN <<>>
                      ELSE IF Len(parts) = 1 THEN parts[1]
                      ELSE parts[1] \o <<c>> \o JoinWith(Tail(parts), c)

(* ---------------- digit strings as integers (arbitrary precision) ---------------- *)
RECURSIVE StripLZ(_)
StripLZ(s) == IF Len(s) > 1 /\ s[1] = "0" THEN StripLZ(Tail(s)) ELSE s
RECURSIVE StripTZ(_)
StripTZ(s) == IF s # <<>> /\ s[Len(s)] = "0" THEN StripTZ(SubSeq(s, 1, Len(s) - 1)) ELSE s
\* string-wise comparison of digit strings (a proper prefix sorts first)
RECURSIVE LexCmp(_, _)
LexCmp(a, b) == IF a = <<>> THEN (IF b = <<>> THEN 0 ELSE -1)
                ELSE IF b = <<>> THEN 1
                ELSE IF a[1] # b[1] THEN Sign(DigitVal(a[1]) - DigitVal(b[1]))
                ELSE LexCmp(Tail(a), Tail(b))
\* integer comparison; the empty digit string stands for 0 (omitted suffix number / revision)
NatCmp(a, b) == LET x == StripLZ(IF a = <<>> THEN <<"0">> ELSE a)
                    y == StripLZ(IF b = <<>> THEN <<"0">> ELSE b)
                IN IF Len(x) # Len(y) THEN Sign(Len(x) - Len(y)) ELSE LexCmp(x, y)

(* ---------------- syntax: text <-> version record ---------------- *)
SufKinds == {"alpha", "beta", "pre", "rc", "p"}
SufText(k) == CASE k = "alpha" -> <<"a", "l", "p", "h", "a">> [] k = "beta" -> <<"b", "e", "t", "a">>
                [] k = "pre" -> <<"p", "r", "e">> [] k = "rc" -> <<"r", "c">> [] k = "p" -> <<"p">>
BadVer == [ok |-> FALSE]
MkVer(nums, letter, sufs, rev) == [ok |-> TRUE, nums |-> nums, letter |-> letter, sufs |-> sufs, rev |-> rev]

\* leading run of letters of t
RECURSIVE LetterRun(_)
LetterRun(t) == IF t # <<>> /\ t[1] \in Letters THEN <<t[1]>> \o LetterRun(Tail(t)) ELSE <<>>
\* one "_suffix" chunk (without the underscore): kind followed by optional digits
ParseSuf(t) == LET w == LetterRun(t)
                   n == SubSeq(t, Len(w) + 1, Len(t))
                   ks == {k \in SufKinds : SufText(k) = w}
               IN IF ks # {} /\ (n = <<>> \/ IsDigitStr(n))
                  THEN [ok |-> TRUE, k |-> CHOOSE k \in ks : TRUE, n |-> n] ELSE [ok |-> FALSE]
\* "1.2.3b": dotted digit strings, optional single trailing letter
ParseMain(t) == IF t = <<>> THEN [ok |-> FALSE]
                ELSE LET hasL == t[Len(t)] \in Letters
                         body == IF hasL THEN SubSeq(t, 1, Len(t) - 1) ELSE t
                         parts == SplitOn(body, ".")
                     IN IF \A k \in DOMAIN parts : IsDigitStr(parts[k])
                        THEN [ok |-> TRUE, nums |-> parts, letter |-> IF hasL THEN t[Len(t)] ELSE ""]
                        ELSE [ok |-> FALSE]
\* version without revision: main(_suffix)*
ParseVerNoRev(t) == LET ch == SplitOn(t, "_")
                        m == ParseMain(ch[1])
                        ss == [k \in 1..(Len(ch) - 1) |-> ParseSuf(ch[k + 1])]
                    IN IF m.ok /\ \A k \in DOMAIN ss : ss[k].ok
                       THEN MkVer(m.nums, m.letter, [k \in DOMAIN ss |-> [k |-> ss[k].k, n |-> ss[k].n]], <<>>)
                       ELSE BadVer
\* full version: version[-rN]
ParseVer(t) == LET k == FirstIdx(t, "-") IN
               IF k = 0 THEN ParseVerNoRev(t)
               ELSE LET r == After(t, k)  v == ParseVerNoRev(Before(t, k)) IN
                    IF v.ok /\ Len(r) >= 2 /\ r[1] = "r" /\ IsDigitStr(Tail(r))
                    THEN MkVer(v.nums, v.letter, v.sufs, Tail(r)) ELSE BadVer

RECURSIVE RenderSufs(_)
RenderSufs(ss) == IF ss = <<>> THEN <<>>
                  ELSE <<"_">> \o SufText(ss[1].k) \o ss[1].n \o RenderSufs(Tail(ss))
RenderVerNoRev(v) == JoinWith(v.nums, ".") \o (IF v.letter = "" THEN <<>> ELSE <<v.letter>>) \o RenderSufs(v.sufs)
RenderVer(v) == RenderVerNoRev(v) \o (IF v.rev = <<>> THEN <<>> ELSE <<"-", "r">> \o v.rev)

(* ---------------- PMS Algorithms 3.1 - 3.7 ---------------- *)
\* 3.3: components after the first
CompCmp(a, b) == IF a[1] = "0" \/ b[1] = "0" THEN LexCmp(StripTZ(a), StripTZ(b)) ELSE NatCmp(a, b)
\* 3.2: numeric components
RECURSIVE RestCmp(_, _)
RestCmp(a, b) == IF a = <<>> THEN (IF b = <<>> THEN 0 ELSE -1)
                 ELSE IF b = <<>> THEN 1
                 ELSE LET c == CompCmp(a[1], b[1]) IN IF c # 0 THEN c ELSE RestCmp(Tail(a), Tail(b))
NumsCmp(a, b) == LET c == NatCmp(a[1], b[1]) IN IF c # 0 THEN c ELSE RestCmp(Tail(a), Tail(b))
\* 3.4: letter ("" sorts before any letter)
LetterCmp(a, b) == IF a = b THEN 0 ELSE IF a = "" THEN -1 ELSE IF b = "" THEN 1 ELSE Sign(LetterVal(a) - LetterVal(b))
\* 3.6: one suffix against one suffix
SufRank(k) == CASE k = "alpha" -> 1 [] k = "beta" -> 2 [] k = "pre" -> 3 [] k = "rc" -> 4 [] k = "p" -> 5
SufCmp(a, b) == IF a.k = b.k THEN NatCmp(a.n, b.n) ELSE Sign(SufRank(a.k) - SufRank(b.k))
\* 3.5: suffix lists
RECURSIVE SufsCmp(_, _)
SufsCmp(a, b) == IF a = <<>> THEN (IF b = <<>> THEN 0 ELSE IF b[1].k = "p" THEN -1 ELSE 1)
                 ELSE IF b = <<>> THEN (IF a[1].k = "p" THEN 1 ELSE -1)
                 ELSE LET c == SufCmp(a[1], b[1]) IN IF c # 0 THEN c ELSE SufsCmp(Tail(a), Tail(b))
\* 3.1 without / with 3.7 (revision)
VerCmpNoRev(v, w) == LET c1 == NumsCmp(v.nums, w.nums) IN IF c1 # 0 THEN c1 ELSE
                     LET c2 == LetterCmp(v.letter, w.letter) IN IF c2 # 0 THEN c2 ELSE SufsCmp(v.sufs, w.sufs)
RevCmp(v, w) == NatCmp(v.rev, w.rev)
VerCmp(v, w) == LET c == VerCmpNoRev(v, w) IN IF c # 0 THEN c ELSE RevCmp(v, w)

\* version operators of atoms: does package version p satisfy "op w" ?
Ops == {"<", "<=", "=", "~", ">=", ">"}
OpHolds(op, p, w) == CASE op = "<"  -> VerCmp(p, w) < 0
                       [] op = "<=" -> VerCmp(p, w) <= 0
                       [] op = "="  -> VerCmp(p, w) = 0
                       [] op = "~"  -> VerCmpNoRev(p, w) = 0
                       [] op = ">=" -> VerCmp(p, w) >= 0
                       [] op = ">"  -> VerCmp(p, w) > 0

\* Versions that have a second spelling of equal value ("1.0"/"1.00", "_alpha"/"_alpha0", "-r0", "-r01")
\* are the subject of C01 (its own check and findings); C44/C45 keep them out of their domains:
\* no numeric component with a leading zero (other than "0" itself), suffix numbers and the
\* revision either omitted or without a leading zero.
PlainVer(v) == /\ \A k \in DOMAIN v.nums : Len(v.nums[k]) = 1 \/ v.nums[k][1] # "0"
               /\ \A k \in DOMAIN v.sufs : v.sufs[k].n = <<>> \/ v.sufs[k].n[1] # "0"
               /\ (v.rev = <<>> \/ v.rev[1] # "0")
=========================================================================
