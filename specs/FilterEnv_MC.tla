---------------------------- MODULE FilterEnv_MC ----------------------------
(* Design model of the filter's output windowing (process_scope in filter_env.py): the scanner
   walks the dump statement by statement; text is copied out in WINDOWS
   [window_start, window_end) -- a removed definition closes the window at its first byte and
   the next window opens behind it; the last window is written when the scan ends.

   The dump is a sequence of tokens (white space / a variable assignment / a function
   definition / any other command); recognising the tokens is the lexer's job and is exercised
   on the real code, not modelled.  For EVERY token sequence up to MaxTok and every specified
   configuration TLC checks
        Exact      when the scan is done, the tokens written are exactly those that are not
                   removed definitions, in order, each once         (= FilterEnv!Filter)
        Progress   what has been written plus the open window is always the filtered prefix
   Variant "no_final_window" (the last window ignores a pending window_end) must violate Exact:
   the driver requires that (vacuity guard).                                               *)
EXTENDS FilterEnv, TLC
CONSTANTS MaxTok, Variant
ASSUME Variant \in {"code", "no_final_window"}

VN == {"a", "both"}
FN == {"f", "both"}
Toks == {[t |-> "ws", name |-> "-"], [t |-> "cmd", name |-> "-"]}
        \cup {[t |-> "var", name |-> n] : n \in VN} \cup {[t |-> "func", name |-> n] : n \in FN}
Cfgs == {c \in [vnames : SUBSET (VN \cup {"ghost"}), fnames : SUBSET (FN \cup {"ghost"}),
                vwhite : BOOLEAN, fwhite : BOOLEAN] : Specified(c)}

VARIABLES buff, cfg, pos, wstart, wend, out, done
vars == <<buff, cfg, pos, wstart, wend, out, done>>

Idx(a, b) == [k \in 1..(IF b >= a THEN b - a + 1 ELSE 0) |-> a + k - 1]
Gone(k) == buff[k].t \in {"var", "func"} /\ Removed([kind |-> buff[k].t, name |-> buff[k].name, body |-> "b"], cfg)
Survivors(n) == SelectSeq(Idx(1, n), LAMBDA k : ~Gone(k))

Init == /\ buff \in UNION {[1..k -> Toks] : k \in 0..MaxTok}
        /\ cfg \in Cfgs
        /\ pos = 1 /\ wstart = 1 /\ wend = 0 /\ out = <<>> /\ done = FALSE

\* one turn of the scanner's loop: flush a closed window, then look at the statement at pos
Iter == /\ ~done /\ pos <= Len(buff)
        /\ out' = IF wend # 0 THEN out \o Idx(wstart, wend - 1) ELSE out
        /\ wstart' = IF wend # 0 THEN pos ELSE wstart
        /\ wend' = IF Gone(pos) THEN pos ELSE 0
        /\ pos' = pos + 1
        /\ UNCHANGED <<buff, cfg, done>>
Finish == /\ ~done /\ pos > Len(buff)
          /\ out' = out \o Idx(wstart, (IF wend = 0 \/ Variant = "no_final_window" THEN pos ELSE wend) - 1)
          /\ done' = TRUE
          /\ UNCHANGED <<buff, cfg, pos, wstart, wend>>
Next == Iter \/ Finish
Spec == Init /\ [][Next]_vars /\ WF_vars(Next)

Exact == done => out = Survivors(Len(buff))
Progress == ~done => out \o Idx(wstart, (IF wend = 0 THEN pos ELSE wend) - 1) = Survivors(pos - 1)
\* the survivors are the definition-level Filter (binding of the token model to FilterEnv)
AsDefs(ix) == [k \in DOMAIN ix |-> [kind |-> buff[ix[k]].t, name |-> buff[ix[k]].name, body |-> "b"]]
DefIdx == SelectSeq(Idx(1, Len(buff)), LAMBDA k : buff[k].t \in {"var", "func"})
AgreesWithFilter == done => AsDefs(SelectSeq(out, LAMBDA k : buff[k].t \in {"var", "func"})) = Filter(AsDefs(DefIdx), cfg)
Terminates == <>done
=============================================================================
