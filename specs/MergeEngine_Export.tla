---------------------------- MODULE MergeEngine_Export ----------------------------
(* spec -> code: every input of get_writable_fsobj the specification distinguishes (where the
   fsobj's data lives x mutable x prefer_reuse x engine.allow_reuse x empty x content); each case
   is built in a scratch tempspace and pushed through the real method by the driver.        *)
EXTENDS TLC, Json, IOUtils, Sequences, SequencesExt, FiniteSets
WCases == {[src |-> s, mutable |-> m, prefer |-> p, allow |-> a, empty |-> e, data |-> d] :
             s \in {"none", "mem", "intemp", "outside", "sibling"}, m \in BOOLEAN, p \in BOOLEAN, a \in BOOLEAN,
             e \in BOOLEAN, d \in {"", "libtool archive\n"}}
Cases == {c \in WCases : c.src = "none" => (~c.mutable /\ c.data = "")}
ASSUME ndJsonSerialize(IOEnv.OUT, SetToSeq(Cases))
=========================================================================
