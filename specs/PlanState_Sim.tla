---------------------------- MODULE PlanState_Sim ----------------------------
(* spec -> code: TLC (simulation mode) chooses histories of public operations of the
   PlanState_MC universe; each is printed once it reaches depth D and replayed on a real
   plan_state by drivers/c17_planstate.py.  hist holds only the *inputs* of the actions:
   the outcome is recomputed from the implementation's observations by PlanState_Trace. *)
EXTENDS PlanState_MC
CONSTANT D
VARIABLE hist
A(ev, c, p, f, b, r, pos) == [ev |-> ev, c |-> c, p |-> p, force |-> f, b |-> b, r |-> r, pos |-> pos, fault |-> 0]
SimInit == Init /\ hist = <<>>
SimNext ==
  \/ \E c \in ChoicePts, p \in Pkgs, f \in BOOLEAN : Add(c, p, f) /\ hist' = Append(hist, A("add", c, p, f, "-", "-", 0))
  \/ \E c \in ChoicePts, p \in Pkgs : Remove(c, p) /\ hist' = Append(hist, A("remove", c, p, FALSE, "-", "-", 0))
  \/ \E c \in ChoicePts, p \in Pkgs : Replace(c, p) /\ hist' = Append(hist, A("replace", c, p, FALSE, "-", "-", 0))
  \/ \E c \in ChoicePts, p \in Pkgs : Backref(c, p) /\ hist' = Append(hist, A("backref", c, p, FALSE, "-", "-", 0))
  \/ \E c \in ChoicePts, b \in Blockers : AddBlocker(c, b) /\ hist' = Append(hist, A("addblocker", c, "-", FALSE, b, "-", 0))
  \/ \E c \in ChoicePts, b \in Blockers : DropBlocker(c, b) /\ hist' = Append(hist, A("dropblocker", c, "-", FALSE, b, "-", 0))
  \/ \E r \in Restrs : Hardref(r) /\ hist' = Append(hist, A("hardref", "-", "-", FALSE, "-", r, 0))
  \/ \E pos \in 0..MaxPlan : Backtrack(pos) /\ hist' = Append(hist, A("backtrack", "-", "-", FALSE, "-", "-", pos))
  \/ \E pos \in 0..MaxPlan, stop \in 1..MaxPlan :
        BacktrackCut(pos, stop) /\ hist' = Append(hist, [A("backtrack", "-", "-", FALSE, "-", "-", pos) EXCEPT !.fault = stop])
SimSpec == SimInit /\ [][SimNext]_<<st, hist>>
Emit == Len(hist) # D \/ PrintT(<<"BEH", hist>>)
SimBound == Len(st.plan) <= MaxPlan /\ Len(hist) <= D
=========================================================================
