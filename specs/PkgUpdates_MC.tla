---------------------------- MODULE PkgUpdates_MC ----------------------------
(* The mechanism of read_updates: per name a pair (start deque, tail deque); a move
   appends the command and a FRESH deque to the source's tail, appends the same deque to
   the target's tail and makes it the target's new tail, so that later commands of the
   target show up in the source's flattened history.  TLC feeds every line sequence up to
   MaxLines over Names and checks after every line that flattening the deque graph gives
   exactly the sequential reference of PkgUpdates.tla, for every name.                    *)
EXTENDS PkgUpdates, TLC
CONSTANTS Names, Slots, MaxLines

VARIABLES hist,      \* lines processed so far
          content,   \* deque id -> sequence of items: [t |-> "cmd", c |-> line] or [t |-> "ref", id |-> deque]
          start, tail, \* name -> deque id
          moved,     \* names already moved away
          nnodes
vars == <<hist, content, start, tail, moved, nnodes>>

SlotPairs1 == {<<"0", "1">>}
SlotPairs2 == {<<"0", "1">>, <<"1", "0">>}
AllLines == {Move(a, b) : a, b \in Names} \cup {SlotMove(a, s[1], s[2]) : a \in Names, s \in Slots} \cup {Bad}

NameIdx == CHOOSE f \in [Names -> 1..Cardinality(Names)] : \A a, b \in Names : a # b => f[a] # f[b]
Init == /\ hist = <<>> /\ moved = {}
        /\ nnodes = Cardinality(Names)
        /\ content = [d \in 1..Cardinality(Names) |-> <<>>]
        /\ start = NameIdx /\ tail = NameIdx

Cmd(c) == [t |-> "cmd", c |-> c, id |-> 0]
Ref(d) == [t |-> "ref", c |-> Bad, id |-> d]

Process(ln) ==
    /\ hist' = Append(hist, ln)
    /\ IF ln.k = "bad" \/ ln.a \in moved THEN UNCHANGED <<content, start, tail, moved, nnodes>>
       ELSE IF ln.k = "slotmove"
       THEN /\ content' = [content EXCEPT ![tail[ln.a]] = Append(@, Cmd(ln))]
            /\ UNCHANGED <<start, tail, moved, nnodes>>
       ELSE LET d == nnodes + 1
                c1 == [x \in 1..d |-> IF x = d THEN <<>> ELSE content[x]]
                c2 == [c1 EXCEPT ![tail[ln.a]] = @ \o <<Cmd(ln), Ref(d)>>]
                c3 == [c2 EXCEPT ![tail[ln.b]] = Append(@, Ref(d))]
            IN /\ content' = c3
               /\ nnodes' = d
               /\ tail' = [tail EXCEPT ![ln.b] = d]
               /\ moved' = moved \cup {ln.a}
               /\ UNCHANGED start

Next == Len(hist) < MaxLines /\ \E ln \in AllLines : Process(ln)
Spec == Init /\ [][Next]_vars

RECURSIVE Flat(_, _)
Flat(d, fuel) ==      \* fuel bounds the walk: a cyclic deque graph would be an error of the mechanism
    IF fuel = 0 THEN <<Bad>>
    ELSE LET RECURSIVE Walk(_)
             Walk(k) == IF k > Len(content[d]) THEN <<>>
                        ELSE (IF content[d][k].t = "cmd" THEN <<content[d][k].c>> ELSE Flat(content[d][k].id, fuel - 1))
                             \o Walk(k + 1)
         IN Walk(1)

MechanismIsReference == \A n \in Names : Flat(start[n], nnodes + 1) = CommandsFor(hist, n)
\* a name that was moved away never gets another command of its own
MovedIsFinal == \A n \in moved : LET own == {i \in Accepted(hist) : hist[i].a = n} IN
                    own # {} /\ hist[CHOOSE i \in own : \A j \in own : j <= i].k = "move"
\* chains are strictly chronological: no command is reported twice for a name
NoDuplicates == \A n \in Names : LET c == Flat(start[n], nnodes + 1) IN
                    \A i, j \in DOMAIN c : (i < j /\ c[i] = c[j]) => \E x \in DOMAIN hist, y \in DOMAIN hist : x # y /\ hist[x] = hist[y]
=========================================================================
