---------------------------- MODULE BoolTree_Laws ----------------------------
(* constant-level laws of the C06 vocabulary, evaluated as ASSUMEs (no behaviour):
   every tree of depth <= 2 over three leaves with up to three children per node (unary laws: L1)
   and a 25-tree operand set for the binary laws (LS).  *)
EXTENDS BoolTree, TLC
Ids == 1..3
L0 == {Leaf(i, n) : i \in Ids, n \in BOOLEAN}
Kids(S, w) == UNION {[1..k -> S] : k \in 1..w}
P0 == {Leaf(i, FALSE) : i \in Ids}
L1 == L0 \cup {Not(x) : x \in L0} \cup {Node(kd, n, cs) : kd \in Kinds, n \in BOOLEAN, cs \in Kids(P0, 3)}
\* operands of the binary laws: leaves, wrapped leaves and the two-leaf nodes over leaves 1, 2 / 2, 3
LS == L0 \cup {Not(x) : x \in P0} \cup {Node(kd, n, <<Leaf(i, FALSE), Leaf(i + 1, FALSE)>>) : kd \in Kinds, n \in BOOLEAN, i \in 1..2}
Same(a, b) == \A v \in SUBSET Ids : Eval(a, v) = Eval(b, v)

DoubleNegation == \A x \in L1 : Same(Not(Not(x)), x)
DeMorganAnd == \A x, y \in LS : Same(Node("and", TRUE, <<x, y>>), Node("or", FALSE, <<Not(x), Not(y)>>))
DeMorganOr  == \A x, y \in LS : Same(Node("or", TRUE, <<x, y>>), Node("and", FALSE, <<Not(x), Not(y)>>))
Commutes == \A kd \in Kinds, x, y \in LS : Same(Node(kd, FALSE, <<x, y>>), Node(kd, FALSE, <<y, x>>))
LeafFlag == \A i \in Ids : Same(Leaf(i, TRUE), Not(Leaf(i, FALSE)))
OneOfTwoIsXor == \A x, y \in LS : \A v \in SUBSET Ids :
                    Eval(Node("one", FALSE, <<x, y>>), v) = (Eval(x, v) # Eval(y, v))
NormalForms == \A x \in L1 : LET D == RefDNF(x)  C == RefCNF(x)  F == FullDNF(x, TRUE) IN
                   \A v \in SUBSET Ids : /\ EvalDNF(D, v) = Eval(x, v) /\ EvalCNF(C, v) = Eval(x, v)
                                          /\ EvalLits(F, v) = Eval(x, v)
\* the expansion pkgcore ships today for a negated any-of (negated clause AND the plain ones) is NOT one
ShippedNegOr(x, y) == {{Not(x), Not(y)}, {x}, {y}}
ShippedNegOrIsWrong == \E x, y \in L0 : ~EquivDNF(Node("or", TRUE, <<x, y>>), ShippedNegOr(x, y), Ids)

ASSUME DoubleNegation
ASSUME DeMorganAnd
ASSUME DeMorganOr
ASSUME Commutes
ASSUME LeafFlag
ASSUME OneOfTwoIsXor
ASSUME NormalForms
ASSUME ShippedNegOrIsWrong
=========================================================================
