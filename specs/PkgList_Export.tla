---------------------------- MODULE PkgList_Export ----------------------------
(* spec -> code: package lists built from line fields (so the field split is known by construction),
   suggestion tables and build() inputs chosen by TLC.  The token spellings (package specs, arch
   keywords) come from the driver as code points in IOEnv.TOKENS: {p1,p2 (specs as written),
   b1,b2,b3 (str() of atoms, for build), k1,k2,k3 (keywords)}.                                  *)
EXTENDS PkgList, Json, IOUtils
CONSTANT Full
TOK == JsonDeserialize(IOEnv.TOKENS)
P1 == TOK.p1  P2 == TOK.p2  K1 == TOK.k1  K2 == TOK.k2  K3 == TOK.k3
Cmt == <<HASH, SP, 99>>
XKw == {<<>>, <<K1>>, <<KStar>>, <<KCaret>>, <<KDash>>, <<K1, K2>>, <<KStar, K1>>, <<KCaret, K2>>, <<K1, KCaret>>, <<KStar, KCaret>>}
Tight(s, ks, cm) == Line(<<>>, s, IF ks = <<>> THEN <<>> ELSE <<SP>>, ks, [i \in 1..(Len(ks) - 1) |-> <<SP>>],
                         IF cm THEN <<SP>> ELSE <<>>, IF cm THEN Cmt ELSE <<>>, <<>>)
Wide(s, ks)      == Line(<<SP, SP>>, s, IF ks = <<>> THEN <<>> ELSE <<TAB>>, ks, [i \in 1..(Len(ks) - 1) |-> <<SP, SP>>],
                         <<SP, TAB>>, Cmt, <<>>)
BlankLines == {Line(<<>>, <<>>, <<>>, <<>>, <<>>, <<>>, <<>>, <<>>), Line(<<SP, SP>>, <<>>, <<>>, <<>>, <<>>, <<>>, <<>>, <<>>),
           Line(<<>>, <<>>, <<>>, <<>>, <<>>, <<>>, Cmt, <<>>)}
TightShapes == {Tight(s, ks, FALSE) : s \in {P1, P2}, ks \in XKw}
\* blanks other than space / tab: IDEOGRAPHIC SPACE, NBSP, NNBSP, US, EM SPACE
Odd(s, ks)       == Line(<<12288>>, s, IF ks = <<>> THEN <<>> ELSE <<160>>, ks, [i \in 1..(Len(ks) - 1) |-> <<8239, 31>>],
                         <<8195>>, Cmt, <<>>)
Shapes == TightShapes \cup {Tight(s, ks, TRUE) : s \in {P1, P2}, ks \in XKw} \cup {Wide(s, ks) : s \in {P1, P2}, ks \in XKw}
          \cup {Odd(s, ks) : s \in {P1, P2}, ks \in XKw} \cup BlankLines
Few == {Tight(s, ks, FALSE) : s \in {P1, P2}, ks \in {<<>>, <<K1>>, <<KStar>>, <<KCaret>>, <<KCaret, K2>>}} \cup {Line(<<>>, <<>>, <<>>, <<>>, <<>>, <<>>, Cmt, <<>>)}
Seconds == {Tight(P1, ks, FALSE) : ks \in {<<>>, <<K1>>, <<KStar>>, <<KCaret>>, <<KCaret, K2>>, <<KStar, KCaret>>}}
           \cup {Tight(P2, <<KCaret>>, FALSE), Tight(P2, <<K1, KCaret>>, FALSE), Line(<<>>, <<>>, <<>>, <<>>, <<>>, <<>>, Cmt, <<>>)}
Lists == {<<a>> : a \in Shapes} \cup {<<a, b>> : a \in Shapes, b \in IF Full THEN Shapes ELSE Seconds}
         \cup (IF Full THEN {<<a, b, c>> : a \in Few, b \in Few, c \in Few} ELSE {<<a, b, c>> : a \in Few, b \in {Tight(P1, <<KCaret>>, FALSE), Tight(P2, <<>>, FALSE)}, c \in Few})
\* line endings: all LF / all CR LF / LF without the final one
WithEol(ls, mode) == [i \in DOMAIN ls |-> [ls[i] EXCEPT !.eol = IF mode = "nofinal" /\ i = Len(ls) THEN <<>>
                                                                 ELSE IF mode = "crlf" THEN <<CR, LF>> ELSE <<LF>>]]
Suggs == [s1 |-> <<[spec |-> P1, kws |-> <<K1, K3>>], [spec |-> P2, kws |-> <<>>]>>,
          s2 |-> <<[spec |-> P1, kws |-> <<>>], [spec |-> P2, kws |-> <<K2>>]>>,
          s3 |-> <<[spec |-> P1, kws |-> <<K3>>], [spec |-> P2, kws |-> <<K3>>]>>]
Combos == IF Full THEN {"lf", "crlf", "nofinal"} \X {"s1", "s2", "s3"} ELSE {<<"lf", "s1">>, <<"crlf", "s2">>, <<"nofinal", "s3">>}
\* a final line without eol must not be empty (it would not exist)
Sound(ls, mode) == mode # "nofinal" \/ RawOf(ls[Len(ls)]) # <<>>
ExpandCases == {[kind |-> "expand", text |-> RenderLines(WithEol(ls, cb[1])), sg |-> Suggs[cb[2]], entries |-> <<>>] :
                  <<ls, cb>> \in {x \in Lists \X Combos : Sound(x[1], x[2][1])}}
Entry(p, ks) == [pkg |-> p, kws |-> ks]
Entries == {Entry(TOK.b1, <<>>), Entry(TOK.b1, <<K1>>), Entry(TOK.b2, <<K1, K2>>), Entry(TOK.b3, <<KStar>>)}
BuildCases == {[kind |-> "build", text |-> <<>>, sg |-> <<>>, entries |-> es] : es \in UNION {[1..n -> Entries] : n \in 0..3}}
Cases == ExpandCases \cup BuildCases
ASSUME ndJsonSerialize(IOEnv.OUT, SetToSeq(Cases))
=========================================================================
