---------------------------- MODULE OrderLaws_Univ ----------------------------
(* C02: the bounded universes of things.  A universe is a "star": a base object
   plus every object that differs from it in ONE attribute (each alternative
   value, including the spelling-only attributes: version spelling, USE order)
   plus selected two-attribute differences.  Variable-free.                    *)
EXTENDS OrderLaws

Ver(ns, sf, r) == [nums |-> ns, letter |-> 0, sufs |-> sf, rev |-> r]
SufA(n) == <<[k |-> "alpha", n |-> n]>>
\* 1.0 and its respellings / neighbours
V10     == Ver(<<<<1>>, <<0>>>>, <<>>, <<>>)
VSpell  == {Ver(<<<<1>>, <<0, 0>>>>, <<>>, <<>>),          \* 1.00
            Ver(<<<<1>>, <<0>>>>, <<>>, <<0>>),            \* 1.0-r0
            Ver(<<<<0, 1>>, <<0>>>>, <<>>, <<>>)}          \* 01.0
VNear   == {Ver(<<<<1>>, <<1>>>>, <<>>, <<>>),             \* 1.1
            Ver(<<<<1>>, <<0>>>>, <<>>, <<1>>),            \* 1.0-r1
            Ver(<<<<1>>, <<0>>>>, <<>>, <<0, 1>>),         \* 1.0-r01
            Ver(<<<<1>>, <<0>>>>, SufA(<<>>), <<>>),       \* 1.0_alpha
            Ver(<<<<1>>, <<0>>>>, SufA(<<0>>), <<>>),      \* 1.0_alpha0
            Ver(<<<<1>>, <<0>>>>, <<>>, <<0, 0>>)}         \* 1.0-r00
VAll    == {V10} \cup VSpell \cup VNear
\* more versions for the CPV universe (every rule of the order, with respellings)
VMore   == {Ver(<<<<1>>>>, <<>>, <<>>), Ver(<<<<1>>, <<0>>, <<0>>>>, <<>>, <<>>),
            Ver(<<<<1>>, <<0, 1>>>>, <<>>, <<>>), Ver(<<<<1>>, <<0, 1, 0>>>>, <<>>, <<>>),
            Ver(<<<<1>>, <<1, 0>>>>, <<>>, <<>>), Ver(<<<<1, 0>>>>, <<>>, <<>>), Ver(<<<<0, 1, 0>>>>, <<>>, <<>>),
            Ver(<<<<9>>>>, <<>>, <<>>), Ver(<<<<0, 9>>>>, <<>>, <<>>),
            [Ver(<<<<1>>, <<0>>>>, <<>>, <<>>) EXCEPT !.letter = 1],
            [Ver(<<<<1>>, <<0, 0>>>>, <<>>, <<>>) EXCEPT !.letter = 1],
            Ver(<<<<1>>, <<0>>>>, <<[k |-> "p", n |-> <<>>]>>, <<>>), Ver(<<<<1>>, <<0>>>>, <<[k |-> "p", n |-> <<0>>]>>, <<>>),
            Ver(<<<<1>>, <<0>>>>, <<[k |-> "rc", n |-> <<1>>]>>, <<>>), Ver(<<<<1>>, <<0>>>>, <<[k |-> "rc", n |-> <<0, 1>>]>>, <<>>),
            Ver(<<<<1>>, <<0>>>>, <<[k |-> "alpha", n |-> <<>>], [k |-> "p", n |-> <<>>]>>, <<>>),
            Ver(<<<<1>>, <<0>>>>, <<[k |-> "alpha", n |-> <<0>>], [k |-> "p", n |-> <<0>>]>>, <<0>>)}

Thing(fam, blocks, op, cat, pkg, ver, slot, sub, sop, repo, use, perm, neg) ==
    [fam |-> fam, blocks |-> blocks, op |-> op, cat |-> cat, pkg |-> pkg, ver |-> ver, slot |-> slot,
     sub |-> sub, sop |-> sop, repo |-> repo, use |-> use, perm |-> perm, neg |-> neg]

NUse == 5        \* USE lists 1..5 (the driver's table); lists 3..5 have two or more flags
(* Names are opaque codes here; the driver's tables give them spellings.  The
   tables are a NAME FAMILY chosen so that comparing a concatenation (the key
   "cat/pkg", the cpv string, "slot/subslot") orders objects differently from
   comparing the components: next to a plain name they hold the same name continued
   by a character that sorts below the separators "/" ":" "-" in ASCII ("+", "-",
   ".") and by one that sorts above them ("0").  Every code is an alternative value
   of its attribute in every star, and the name universes below hold all
   category x package combinations.                                              *)
NCat == 6   NPkg == 5   NSlot == 3   NSub == 3   NRepo == 3
\* every valid thing that differs from b in exactly the attribute f
Alt(b, f) ==
    LET raw ==
        CASE f = "blocks" -> {[b EXCEPT !.blocks = x] : x \in 0..2}
          [] f = "op"     -> {[b EXCEPT !.op = x, !.ver = IF x = 0 THEN V1 ELSE IF b.op = 0 THEN V10 ELSE b.ver,
                                        !.neg = IF x = 0 THEN 0 ELSE b.neg] : x \in 0..5}
          [] f = "cat"    -> {[b EXCEPT !.cat = x] : x \in 1..NCat}
          [] f = "pkg"    -> {[b EXCEPT !.pkg = x] : x \in 1..NPkg}
          [] f = "ver"    -> IF b.op = 0 THEN {} ELSE {[b EXCEPT !.ver = x] : x \in VAll}
          [] f = "slot"   -> {[b EXCEPT !.slot = x, !.sub = IF x = 0 THEN 0 ELSE b.sub,
                                        !.sop = IF x # 0 /\ b.sop = 2 THEN 0 ELSE b.sop] : x \in 0..NSlot}
          [] f = "sub"    -> {[b EXCEPT !.sub = x] : x \in 0..NSub}
          [] f = "sop"    -> {[b EXCEPT !.sop = x] : x \in 0..2}
          [] f = "repo"   -> {[b EXCEPT !.repo = x] : x \in 0..NRepo}
          [] f = "use"    -> {[b EXCEPT !.use = x, !.perm = IF x >= 3 THEN b.perm ELSE 0] : x \in 0..NUse}
          [] f = "perm"   -> IF b.use >= 3 THEN {[b EXCEPT !.perm = x] : x \in 0..1} ELSE {}
          [] f = "neg"    -> {[b EXCEPT !.neg = x] : x \in 0..1}
    IN  {t \in raw : ValidThing(t) /\ t # b}

AtomAttrs == {"blocks", "op", "cat", "pkg", "ver", "slot", "sub", "sop", "repo", "use", "perm", "neg"}
Singles(b) == UNION {Alt(b, f) : f \in AtomAttrs}
\* two-attribute differences: a respelling / a neighbour combined with one more change
Doubles(b) == UNION {Alt(t, f) : t \in Alt(b, "ver") \cup Alt(b, "perm"), f \in {"blocks", "sub", "sop", "perm", "ver"}}
Star1(b) == {b} \cup Singles(b)
Star2(b) == {b} \cup Singles(b) \cup {t \in Doubles(b) : t.ver \in {b.ver} \cup VSpell}

(* ---- atom bases ---- *)
\* =cat/pkg-1.0:s1/u1=::r1[x,y]  with everything set, a blocker, and the bare name
BaseFull  == Thing(2, 0, 1, 1, 1, V10, 1, 1, 1, 1, 3, 0, 0)
BaseBlock == Thing(2, 1, 3, 1, 1, V10, 1, 0, 0, 0, 4, 0, 0)
BaseBare  == Thing(2, 0, 0, 1, 1, V1, 0, 0, 0, 0, 0, 0, 0)
BasesQuick == {BaseFull, BaseBlock, BaseBare}
\* (operators with a parameter: TLC evaluates zero-arity definitions eagerly in every
\*  module that extends this one, the thorough universes are only built on demand)
BasesThorough(dummy) ==
    {t \in {Thing(2, bl, op, 1, 1, IF op = 0 THEN V1 ELSE V10, sl[1], sl[2], sl[3], rp, us, 0, 0) :
              bl \in 0..2, op \in {0, 1, 2, 5}, sl \in {<<0, 0, 0>>, <<1, 0, 0>>, <<1, 1, 1>>, <<0, 0, 2>>, <<0, 0, 1>>},
              rp \in {0}, us \in {0, 3}} : ValidThing(t)}

(* ---- CPV universes ---- *)
CpvV(c, p, v) == Thing(1, 0, 1, c, p, v, 0, 0, 0, 0, 0, 0, 0)
CpvU(c, p)    == Thing(1, 0, 0, c, p, V1, 0, 0, 0, 0, 0, 0, 0)
CpvVersioned   == {CpvV(1, 1, v) : v \in VAll \cup VMore} \cup {CpvV(1, 2, V10), CpvV(2, 1, V10), CpvV(2, 1, Ver(<<<<1>>, <<0, 0>>>>, <<>>, <<>>))}
CpvUnversioned == {CpvU(c, p) : c \in 1..NCat, p \in 1..NPkg}
\* name universes: every category x package combination, as versioned CPVs and as
\* unversioned / versioned / slotted atoms
CpvNames     == {CpvV(c, p, V10) : c \in 1..NCat, p \in 1..NPkg}
AtomNames    == {[BaseBare EXCEPT !.cat = c, !.pkg = p] : c \in 1..NCat, p \in 1..NPkg}
AtomNamesVer == {[BaseBare EXCEPT !.cat = c, !.pkg = p, !.op = 1, !.ver = V10] : c \in 1..NCat, p \in 1..NPkg}
AtomNamesSlot == {t \in {[BaseBare EXCEPT !.slot = sl, !.sub = sb, !.repo = rp] :
                               sl \in 0..NSlot, sb \in 0..NSub, rp \in {0, 3}} : ValidThing(t)}
NameUniverses == {CpvUnversioned, CpvNames, AtomNames, AtomNamesVer, AtomNamesSlot}

(* ---- the universes exported to the code: sequences are made by the Export module ---- *)
StarUniversesOf(tier) ==
    IF tier = "quick" THEN {Star1(b) : b \in BasesQuick} \cup {CpvVersioned}
    ELSE {Star2(b) : b \in BasesThorough(tier)} \cup {CpvVersioned}
UniversesOf(tier) == StarUniversesOf(tier) \cup NameUniverses
\* the reference model treats names as codes and all bases alike, so its laws are evaluated on
\* a part of the universes (thorough: the two-attribute stars of the quick bases and the
\* one-attribute stars of a third of the thorough bases); the code is observed on all of them
LawUniversesOf(tier) ==
    (IF tier = "quick" THEN StarUniversesOf(tier)
     ELSE {Star2(b) : b \in BasesQuick} \cup {CpvVersioned}
          \cup {Star1(b) : b \in {t \in BasesThorough(tier) : t.use = 0 /\ t.blocks # 1}})
    \cup {AtomNames, AtomNamesSlot}

(* ---- small groups for the container state machine ---- *)
GroupCpv   == {CpvV(1, 1, v) : v \in {V10, Ver(<<<<1>>, <<0, 0>>>>, <<>>, <<>>), Ver(<<<<1>>, <<0>>>>, <<>>, <<0>>),
                                      Ver(<<<<1>>, <<0>>>>, SufA(<<>>), <<>>), Ver(<<<<1>>, <<0>>>>, SufA(<<0>>), <<>>),
                                      Ver(<<<<1>>, <<1>>>>, <<>>, <<>>)}}
GroupBlock == {BaseBlock, [BaseBlock EXCEPT !.perm = 1], [BaseBlock EXCEPT !.blocks = 2],
               [BaseBlock EXCEPT !.ver = Ver(<<<<1>>, <<0, 0>>>>, <<>>, <<>>)], [BaseBlock EXCEPT !.sub = 1],
               [BaseBlock EXCEPT !.sop = 1]}
GroupSlot  == {BaseBare, [BaseBare EXCEPT !.slot = 1], [BaseBare EXCEPT !.slot = 1, !.sub = 1],
               [BaseBare EXCEPT !.slot = 1, !.sop = 1], [BaseBare EXCEPT !.sop = 1], [BaseBare EXCEPT !.sop = 2]}
Groups == {GroupCpv, GroupBlock, GroupSlot}
=============================================================================
