---------------------------- MODULE Keywording_MC ----------------------------
(* Design check: the reference resolution run line by line (as match_packages does) over every
   repository x request x option combination of a small universe.  Every request it yields passes
   every clause of the judge, and a stabilization stops at the first spec it cannot act on.       *)
EXTENDS Keywording_Universe
VARIABLES repo, lines, o, i, prev, out, exc
vars == <<repo, lines, o, i, prev, out, exc>>
Init == /\ repo \in Repos /\ lines \in Requests /\ o \in OptsU
        /\ i = 1 /\ prev = NoPrev /\ out = <<>> /\ exc = ""
Step == /\ exc = "" /\ i <= Len(lines)
        /\ LET s == StepLine(repo, o, lines[i], prev)
           IN /\ prev' = s.prev
              /\ exc' = IF s.act = "raise" THEN "raised" ELSE ""
              /\ out' = IF s.act = "yield" THEN Append(out, [line |-> i, name |-> s.pkg.name, ver |-> s.pkg.ver, kws |-> SetToSeq(s.kws)]) ELSE out
        /\ i' = i + 1 /\ UNCHANGED <<repo, lines, o>>
Spec == Init /\ [][Step]_vars

InvDomain   == \A p \in repo.pkgs : PkgOk(p)
InvObs      == ObsOk(repo, lines, out)
InvRequests == \A k \in DOMAIN out : ReqFails(repo, lines, o, out[k]) = {}
\* at the end of the run (an exception ends it)
InvStable   == (exc # "" \/ i > Len(lines)) => StableSpecFails(lines, o, out, exc) = {}
InvStopsAtBadSpec == o.stable => \A k \in 1..(i - 1) : BadStableSpec(lines[k]) => exc # "" /\ \A r \in DOMAIN out : out[r].line < k
=========================================================================
