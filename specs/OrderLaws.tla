------------------------------ MODULE OrderLaws ------------------------------
(* C02: equality, ordering and hashing of package versions (CPV objects) and of
   dependency atoms agree.

   The property does NOT say which objects are equal.  It constrains what the
   seven observable relations of an ordered pair (x, y)
        o = [eq, ne, lt, le, gt, ge : BOOLEAN,  heq : BOOLEAN (hash(x) = hash(y)),
             bad : BOOLEAN (one of them raised)]
   may look like, alone (PairBad), against the mirrored pair (MirrorBad), and
   across three objects (TripleBad).  Each operator returns the SET of names of
   the clauses that are broken, so verdicts are total.

   The second half is a reference model: abstract objects ("things": a CPV or an
   atom as a record of small integer codes plus a Version record) with a
   reference equality key, hash and order.  It is the witness that the clauses
   are jointly satisfiable (OrderLaws_Laws), the universe of the container state
   machine (OrderLaws_MC) and the source of the cases replayed into the real
   code (OrderLaws_Export).  Variable-free.                                    *)
EXTENDS Version, FiniteSets, TLC

(* ------------------------------------------------------------------------- *)
(* the clauses                                                                *)
OB(cond, name) == IF cond THEN {} ELSE {name}

\* (each XBad operator first tests the conjunction of its clauses, the common case,
\*  and only builds the set of broken clause names when one of them fails)

\* one ordered pair
PairBad(o) ==
    IF o.bad THEN {"NoRaise"}
    ELSE IF /\ o.eq = ~o.ne /\ (o.eq => o.heq) /\ (o.eq => ~o.lt) /\ (o.eq => ~o.gt)
            /\ (~o.eq => (o.lt # o.gt)) /\ o.le = (o.lt \/ o.eq) /\ o.ge = (o.gt \/ o.eq)
    THEN {} ELSE
         OB(o.eq = ~o.ne,                  "Eq_ne")         \* == and != are complementary
    \cup OB(o.eq => o.heq,                 "Eq_hash")       \* equal objects hash alike
    \cup OB(o.eq => ~o.lt,                 "Eq_not_lt")     \* equal objects are not ordered
    \cup OB(o.eq => ~o.gt,                 "Eq_not_gt")
    \cup OB(~o.eq => (o.lt # o.gt),        "Neq_ordered")   \* unequal: exactly one of < >
    \cup OB(o.le = (o.lt \/ o.eq),         "Le_def")
    \cup OB(o.ge = (o.gt \/ o.eq),         "Ge_def")

\* the pair (x, y) against the pair (y, x)
MirrorBad(o, p) ==
    IF o.bad \/ p.bad THEN {}
    ELSE IF o.eq = p.eq /\ o.ne = p.ne /\ o.lt = p.gt /\ o.le = p.ge THEN {} ELSE
         OB(o.eq = p.eq,                   "Sym_eq")
    \cup OB(o.ne = p.ne,                   "Sym_ne")
    \cup OB(o.lt = p.gt,                   "Converse_lt")
    \cup OB(o.le = p.ge,                   "Converse_le")

\* an object against itself
SelfBad(o) == IF o.bad THEN {} ELSE OB(o.eq /\ o.heq /\ ~o.lt /\ ~o.gt, "Reflexive")

\* three objects: xy, yz, xz are the observations of (x,y), (y,z), (x,z)
TripleBad(xy, yz, xz) ==
    IF xy.bad \/ yz.bad \/ xz.bad THEN {}
    ELSE IF /\ ((xy.lt /\ yz.lt) => xz.lt) /\ ((xy.eq /\ yz.eq) => xz.eq)
            /\ ((xy.eq /\ yz.lt) => xz.lt) /\ ((xy.lt /\ yz.eq) => xz.lt)
    THEN {} ELSE
         OB((xy.lt /\ yz.lt) => xz.lt,     "Trans_lt")
    \cup OB((xy.eq /\ yz.eq) => xz.eq,     "Trans_eq")
    \cup OB((xy.eq /\ yz.lt) => xz.lt,     "Cong_lt_left")   \* equal objects order alike
    \cup OB((xy.lt /\ yz.eq) => xz.lt,     "Cong_lt_right")

\* All triples of an n x n matrix of observations at once: TRUE iff TripleBad is empty for
\* every (x, y, z).  Same meaning as the quantified form (law TriplesOKLaw in OrderLaws_Laws),
\* written with the sets L[x] = {z : x < z}, E[x] = {z : x == z} so that TLC does n^2 subset
\* tests instead of n^3 record evaluations.
TriplesOK(M, n) ==
    IF \E x, y \in 1..n : M[x][y].bad
    THEN \A x, y, z \in 1..n : TripleBad(M[x][y], M[y][z], M[x][z]) = {}
    ELSE LET L == TLCEval([x \in 1..n |-> TLCEval({z \in 1..n : M[x][z].lt})])   \* (TLCEval: tabulate once,
             E == TLCEval([x \in 1..n |-> TLCEval({z \in 1..n : M[x][z].eq})])   \*  TLC functions are lazy)
         IN  \A x \in 1..n :
                /\ \A y \in L[x] : L[y] \subseteq L[x] /\ E[y] \subseteq L[x]     \* Trans_lt, Cong_lt_right
                /\ \A y \in E[x] : E[y] \subseteq E[x] /\ L[y] \subseteq L[x]     \* Trans_eq, Cong_lt_left

(* ---- containers: what sorted(), set() and dict lookups did with n objects ----
   M[i][j] is the observation of (object i, object j).                          *)
\* perm: the order sorted() produced, as a sequence of object indices
SortBad(M, n, perm) ==
         OB(Len(perm) = n /\ {perm[p] : p \in 1..n} = 1..n, "Sort_perm")
    \cup (IF Len(perm) = n /\ {perm[p] : p \in 1..n} = 1..n
          THEN OB(\A p, q \in 1..n : p < q => ~M[perm[q]][perm[p]].lt, "Sort_ordered")
          ELSE {})
\* setsize: len(set(objects)); one element per class of ==
EqClassCount(M, n) == Cardinality({{j \in 1..n : M[i][j].eq} : i \in 1..n})
SetBad(M, n, setsize) == OB(setsize = EqClassCount(M, n), "Set_size")
\* found[i][j]: object j is found in the dict {object i: ...}
FindBad(M, n, found) == OB(\A i, j \in 1..n : found[i][j] = M[i][j].eq, "Dict_finds")

(* ------------------------------------------------------------------------- *)
(* reference model: things                                                    *)
(* fam    1 = CPV object, 2 = atom
   blocks 0 none, 1 "!", 2 "!!"                op  0 none (unversioned) 1 "=" 2 "~" 3 ">=" 4 "<" 5 "=*"
   cat, pkg  1..  names                         ver a Version record (ignored when op = 0)
   slot   0 none, 1.. names                     sub 0 none, 1.. names (needs a slot)
   sop    0 none, 1 "=", 2 "*" (needs no slot)  repo 0 none, 1.. names
   use    0 none, 1.. index of a USE-dependency list      perm  0/1 the list is spelled reversed
   neg    0/1 the negate_vers constructor flag                                        *)
ThingFields == {"fam", "blocks", "op", "cat", "pkg", "ver", "slot", "sub", "sop", "repo", "use", "perm", "neg"}

V1 == [nums |-> <<<<1>>>>, letter |-> 0, sufs |-> <<>>, rev |-> <<>>]

ValidThing(t) ==
    /\ IsVer(t.ver)
    /\ t.fam \in {1, 2} /\ t.blocks \in 0..2 /\ t.op \in 0..5 /\ t.sop \in 0..2 /\ t.perm \in 0..1 /\ t.neg \in 0..1
    /\ (t.sub # 0 => t.slot # 0)
    /\ (t.sop = 2 => t.slot = 0)
    /\ (t.op = 0 => t.ver = V1)
    /\ (t.op = 2 => t.ver.rev = <<>>)
    /\ (t.neg = 1 => t.op # 0)
    /\ (t.fam = 1 => /\ t.op \in {0, 1}
                     /\ t.blocks = 0 /\ t.slot = 0 /\ t.sub = 0 /\ t.sop = 0 /\ t.repo = 0
                     /\ t.use = 0 /\ t.perm = 0 /\ t.neg = 0)

\* reference equality key: everything but the spelling (version spelling, USE order)
RefKey(t) == <<t.fam, t.cat, t.pkg, t.op, VerCanon(t.ver), t.blocks, t.neg, t.slot, t.sub, t.sop, t.use, t.repo>>
RefEq(x, y) == RefKey(x) = RefKey(y)
\* reference order: lexicographic on the key, the version by the PMS order
\* (TLC evaluates operator arguments lazily: "rest" is only computed after a tie)
RefThen(c, rest) == IF c # 0 THEN c ELSE rest
RefCmp(x, y) ==
    RefThen(VSign(x.fam - y.fam), RefThen(VSign(x.cat - y.cat), RefThen(VSign(x.pkg - y.pkg),
    RefThen(VSign(x.op - y.op), RefThen(VerCmp(x.ver, y.ver), RefThen(VSign(x.blocks - y.blocks),
    RefThen(VSign(x.neg - y.neg), RefThen(VSign(x.slot - y.slot), RefThen(VSign(x.sub - y.sub),
    RefThen(VSign(x.sop - y.sop), RefThen(VSign(x.use - y.use), VSign(x.repo - y.repo))))))))))))
\* hash mode "key": hash of the equality key;  "spelling": hash of the text, i.e. of the whole thing
\* (kx, ky: the keys of x and y, so that callers can tabulate them)
RefObsK(mode, x, y, kx, ky) ==
    LET c == RefCmp(x, y)
        e == kx = ky
    IN  [eq |-> e, ne |-> ~e, lt |-> c = -1, le |-> c # 1, gt |-> c = 1, ge |-> c # -1,
         heq |-> IF mode = "key" THEN e ELSE x = y, bad |-> FALSE]
RefObs(mode, x, y) == RefObsK(mode, x, y, RefKey(x), RefKey(y))
=============================================================================
