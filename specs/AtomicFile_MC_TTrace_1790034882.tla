---- MODULE AtomicFile_MC_TTrace_1790034882 ----
EXTENDS Sequences, TLCExt, AtomicFile_MC, Toolbox, Naturals, TLC

_expression ==
    LET AtomicFile_MC_TEExpression == INSTANCE AtomicFile_MC_TEExpression
    IN AtomicFile_MC_TEExpression!expression
----

_trace ==
    LET AtomicFile_MC_TETrace == INSTANCE AtomicFile_MC_TETrace
    IN AtomicFile_MC_TETrace!trace
----

_inv ==
    ~(
        TLCGet("level") = Len(_TETrace)
        /\
        pc = ("write")
        /\
        written = (0)
        /\
        failed = (FALSE)
        /\
        fs = ([names |-> {[path |-> <<"d">>, ino |-> 1], [path |-> <<"d", "f">>, ino |-> 2]}, inodes |-> <<[type |-> "dir", cid |-> "-", size |-> 0, mode |-> 493, uid |-> 0, gid |-> 0, target |-> "-", mtime |-> -1], [type |-> "file", cid |-> "empty", size |-> 0, mode |-> 420, uid |-> 0, gid |-> 0, target |-> "-", mtime |-> -1]>>, handles |-> {[ino |-> 2, h |-> 1]}])
    )
----

_init ==
    /\ written = _TETrace[1].written
    /\ pc = _TETrace[1].pc
    /\ fs = _TETrace[1].fs
    /\ failed = _TETrace[1].failed
----

_next ==
    /\ \E i,j \in DOMAIN _TETrace:
        /\ \/ /\ j = i + 1
              /\ i = TLCGet("level")
        /\ written  = _TETrace[i].written
        /\ written' = _TETrace[j].written
        /\ pc  = _TETrace[i].pc
        /\ pc' = _TETrace[j].pc
        /\ fs  = _TETrace[i].fs
        /\ fs' = _TETrace[j].fs
        /\ failed  = _TETrace[i].failed
        /\ failed' = _TETrace[j].failed

\* Uncomment the ASSUME below to write the states of the error trace
\* to the given file in Json format. Note that you can pass any tuple
\* to `JsonSerialize`. For example, a sub-sequence of _TETrace.
    \* ASSUME
    \*     LET J == INSTANCE Json
    \*         IN J!JsonSerialize("AtomicFile_MC_TTrace_1790034882.json", _TETrace)

=============================================================================

 Note that you can extract this module `AtomicFile_MC_TEExpression`
  to a dedicated file to reuse `expression` (the module in the 
  dedicated `AtomicFile_MC_TEExpression.tla` file takes precedence 
  over the module `AtomicFile_MC_TEExpression` below).

---- MODULE AtomicFile_MC_TEExpression ----
EXTENDS Sequences, TLCExt, AtomicFile_MC, Toolbox, Naturals, TLC

expression == 
    [
        \* To hide variables of the `AtomicFile_MC` spec from the error trace,
        \* remove the variables below.  The trace will be written in the order
        \* of the fields of this record.
        written |-> written
        ,pc |-> pc
        ,fs |-> fs
        ,failed |-> failed
        
        \* Put additional constant-, state-, and action-level expressions here:
        \* ,_stateNumber |-> _TEPosition
        \* ,_writtenUnchanged |-> written = written'
        
        \* Format the `written` variable as Json value.
        \* ,_writtenJson |->
        \*     LET J == INSTANCE Json
        \*     IN J!ToJson(written)
        
        \* Lastly, you may build expressions over arbitrary sets of states by
        \* leveraging the _TETrace operator.  For example, this is how to
        \* count the number of times a spec variable changed up to the current
        \* state in the trace.
        \* ,_writtenModCount |->
        \*     LET F[s \in DOMAIN _TETrace] ==
        \*         IF s = 1 THEN 0
        \*         ELSE IF _TETrace[s].written # _TETrace[s-1].written
        \*             THEN 1 + F[s-1] ELSE F[s-1]
        \*     IN F[_TEPosition - 1]
    ]

=============================================================================



Parsing and semantic processing can take forever if the trace below is long.
 In this case, it is advised to uncomment the module below to deserialize the
 trace from a generated binary file.

\*
\*---- MODULE AtomicFile_MC_TETrace ----
\*EXTENDS IOUtils, AtomicFile_MC, TLC
\*
\*trace == IODeserialize("AtomicFile_MC_TTrace_1790034882.bin", TRUE)
\*
\*=============================================================================
\*

---- MODULE AtomicFile_MC_TETrace ----
EXTENDS AtomicFile_MC, TLC

trace == 
    <<
    ([pc |-> "start",written |-> 0,failed |-> FALSE,fs |-> [names |-> {[path |-> <<"d">>, ino |-> 1], [path |-> <<"d", "f">>, ino |-> 2]}, inodes |-> <<[type |-> "dir", cid |-> "-", size |-> 0, mode |-> 493, uid |-> 0, gid |-> 0, target |-> "-", mtime |-> -1], [type |-> "file", cid |-> "old", size |-> 3, mode |-> 420, uid |-> 0, gid |-> 0, target |-> "-", mtime |-> -1]>>, handles |-> {}]]),
    ([pc |-> "write",written |-> 0,failed |-> FALSE,fs |-> [names |-> {[path |-> <<"d">>, ino |-> 1], [path |-> <<"d", "f">>, ino |-> 2]}, inodes |-> <<[type |-> "dir", cid |-> "-", size |-> 0, mode |-> 493, uid |-> 0, gid |-> 0, target |-> "-", mtime |-> -1], [type |-> "file", cid |-> "empty", size |-> 0, mode |-> 420, uid |-> 0, gid |-> 0, target |-> "-", mtime |-> -1]>>, handles |-> {[ino |-> 2, h |-> 1]}]])
    >>
----


=============================================================================

---- CONFIG AtomicFile_MC_TTrace_1790034882 ----
CONSTANTS
    Variant = "inplace"
    NChunks = 3
    OldExists = TRUE

INVARIANT
    _inv

CHECK_DEADLOCK
    \* CHECK_DEADLOCK off because of PROPERTY or INVARIANT above.
    FALSE

INIT
    _init

NEXT
    _next

CONSTANT
    _TETrace <- _trace

ALIAS
    _expression
=============================================================================
\* Generated on Mon Sep 21 23:54:43 UTC 2026