---------------------------- MODULE Glsa_Trace ----------------------------
(* Judge of recorded GLSA evaluations.
   {tid, i:0, ev:"universe", pkgs:[{name, ver:[chars], slot, keywords:[..]}]}     sets the package set
   {tid, i, ev:"entry", via:"match"|"scan", name, arches:[..], vuln:[{op, ver:[chars], glob, slot}], unaff:[..],
    yielded:BOOL, sel:[BOOL per package], scan:[BOOL per package], grouped:[BOOL per package]}
   sel    : restriction.match(pkg) of the restriction GlsaDirSet yields for the entry;
   scan   : the packages find_vulnerable_repo_pkgs reports for it;
   grouped: match of the per-package-name restriction pkg_grouped_iter yields (entries of one advisory
            directory have distinct names, so it stands for this entry alone).
   All three are asked of ONE GlsaDirSet instance, in any order, possibly after walks that were abandoned
   part-way -- the answers must not depend on that history.
   Clauses  <Via>_FalseAlarm_<name|arch|unaffected|slot|version>  and  <Via>_Missed  (Via = Match, Scan, Grouped);
   informational "~unspec" (entry outside the specified format), "~judged".                        *)
EXTENDS Glsa, TraceLib
VARIABLES l, uni
AsPk(x) == [name |-> x.name, ver |-> ParseVer(x.ver), slot |-> x.slot, keywords |-> AsSet(x.keywords)]
AsRg(x) == [op |-> x.op, ver |-> ParseVer(x.ver), glob |-> x.glob, slot |-> x.slot]
AsEntry(e) == [name |-> e.name, arches |-> AsSet(e.arches), vuln |-> [k \in DOMAIN e.vuln |-> AsRg(e.vuln[k])],
               unaff |-> [k \in DOMAIN e.unaff |-> AsRg(e.unaff[k])]]
RangesOk(rs) == \A k \in DOMAIN rs : rs[k].ver.ok
Verdicts(via, got, aff, u, en) ==
    {via \o "_FalseAlarm_" \o WhyNot(u[k], en) : k \in {j \in DOMAIN u : got[j] /\ aff[j] = "F"}}
    \cup (IF \E k \in DOMAIN u : ~got[k] /\ aff[k] = "T" THEN {via \o "_Missed"} ELSE {})
Judge(e, u) ==
    LET en == AsEntry(e) IN
    IF ~RangesOk(en.vuln) \/ ~RangesOk(en.unaff) THEN {"OutsideDomain"}
    ELSE IF ~EntrySpecified(en) THEN {"~unspec"}
    ELSE LET aff == [k \in DOMAIN u |-> AffectedS(u[k], en)] IN    \* (universe versions are checked PlainVer on arrival)
         {"~judged"} \cup Verdicts("Match", e.sel, aff, u, en) \cup Verdicts("Scan", e.scan, aff, u, en)
                      \cup Verdicts("Grouped", e.grouped, aff, u, en)
TraceInit == l = 0 /\ uni = <<>>
TraceNext == /\ l < Len(Tr)
             /\ l' = l + 1
             /\ LET e == Tr[l'] IN
                IF e.ev = "universe"
                THEN /\ uni' = [k \in DOMAIN e.pkgs |-> AsPk(e.pkgs[k])]
                     /\ Report(e.tid, e.i, IF \A k \in DOMAIN uni' : uni'[k].ver.ok /\ PlainVer(uni'[k].ver) THEN {} ELSE {"OutsideDomain"})
                ELSE /\ uni' = uni
                     /\ Report(e.tid, e.i, IF Len(e.sel) = Len(uni) /\ Len(e.scan) = Len(uni) /\ Len(e.grouped) = Len(uni) THEN Judge(e, uni) ELSE {"OutsideDomain"})
             /\ EndMark(l')
TraceSpec == TraceInit /\ [][TraceNext]_<<l, uni>>
=========================================================================
