---------------------------- MODULE ConfigProtect_Export ----------------------------
(* spec -> code: the decision table.  Every combination of
     location class  (protected / under CONFIG_PROTECT_MASK / under a COLLISION_IGNORE directory /
                      a COLLISION_IGNORE file / outside CONFIG_PROTECT)
     live file       (absent / identical to the incoming content "A" / different "B")
     pending updates (every assignment of contents {A,B,C} to every subset of the numbers Nums)
   for merges, and location class x live content (recorded "A") for unmerges.  The driver gives
   each case its own directory on a scratch root and runs real engines over batches of cases.   *)
EXTENDS ConfigProtect, TLC, Json, IOUtils, SequencesExt
CONSTANT Nums
Cs          == {"A", "B", "C"}
PathClasses == {"prot", "mask", "igndir", "ignfile", "plain"}
Pendings    == UNION {[S -> Cs] : S \in SUBSET Nums}
PSeq(f)     == SetToSeq({[n |-> n, c |-> f[n]] : n \in DOMAIN f})
MergeCases   == {[role |-> "merge", cls |-> k, live |-> lv, c |-> "A", pending |-> PSeq(f)] :
                   k \in PathClasses, lv \in {None, "A", "B"}, f \in Pendings}
UnmergeCases == {[role |-> "unmerge", cls |-> k, live |-> lv, c |-> "A", pending |-> <<>>] :
                   k \in PathClasses, lv \in {"A", "B"}}
ASSUME ndJsonSerialize(IOEnv.OUT, SetToSeq(MergeCases \cup UnmergeCases))
=========================================================================
