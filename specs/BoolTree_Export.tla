---------------------------- MODULE BoolTree_Export ----------------------------
(* spec -> code for C06: every tree of a bounded grammar over leaf ids 1..NLeaves, written
   as ndjson for drivers/c06_booltree.py, which instantiates real And/Or/JustOne/AtMostOne
   restrictions (package and value flavoured) for each one.
     level 1 : a node (4 kinds x negate) over 1..2 leaves (plain or flag-negated), 3 plain leaves
     level 2 : a node over one level-1 tree alone / next to a sibling (either order), or Negate
   Wide = TRUE takes the larger level-1 pool and sibling set (thorough tier).                  *)
EXTENDS BoolTree, TLC, Json, IOUtils, SequencesExt
CONSTANTS NLeaves, Wide
Ids == 1..NLeaves
P0 == {Leaf(i, FALSE) : i \in Ids}
L0 == P0 \cup {Leaf(i, TRUE) : i \in Ids}
Singles(S) == {<<a>> : a \in S}
Pairs(A, B) == {<<a, b>> : a \in A, b \in B}
Triples(S) == {<<a, b, c>> : a \in S, b \in S, c \in S}
NodesOver(CS) == {Node(kd, n, cs) : kd \in Kinds, n \in BOOLEAN, cs \in CS}

T1 == NodesOver(Singles(L0) \cup Pairs(L0, L0) \cup Triples(P0)) \cup {Not(x) : x \in P0}
S1 == IF Wide THEN NodesOver(Singles(L0) \cup Pairs(L0, L0)) \cup {Not(x) : x \in P0}
      ELSE NodesOver(Singles(P0) \cup Pairs(P0, P0)) \cup {Not(x) : x \in P0}
Sib == IF Wide THEN L0 \cup {Not(x) : x \in P0} ELSE P0
T2 == NodesOver(Singles(S1) \cup Pairs(S1, Sib) \cup Pairs(Sib, S1)) \cup {Not(x) : x \in S1}
Cases == {[t |-> x] : x \in L0 \cup T1 \cup T2}
ASSUME ndJsonSerialize(IOEnv.OUT, SetToSeq(Cases))
=========================================================================
