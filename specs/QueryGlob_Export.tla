---------------------------- MODULE QueryGlob_Export ----------------------------
(* spec -> code: the universe and every query text of the bounded space. *)
EXTENDS QueryGlob_Cases, TLC, Json, IOUtils, SequencesExt
Cases == {[kind |-> "pkg", cat |-> x.cat, pkg |-> x.pkg, ver |-> x.ver, slot |-> x.slot, sub |-> x.sub, repo |-> x.repo,
           text |-> <<>>] : x \in Universe}
         \cup {[kind |-> "query", cat |-> <<>>, pkg |-> <<>>, ver |-> <<>>, slot |-> <<>>, sub |-> <<>>, repo |-> <<>>,
                text |-> RenderQ(x)] : x \in {y \in Queries : ~Carved(y)}}
         \cup {[kind |-> "query", cat |-> <<>>, pkg |-> <<>>, ver |-> <<>>, slot |-> <<>>, sub |-> <<>>, repo |-> <<>>,
                text |-> t] : t \in Blockers}
ASSUME ndJsonSerialize(IOEnv.OUT, SetToSeq(Cases))
=========================================================================
